/* C20 target qmtpd: the whole main() of qmail-qmtpd.c (netstring message, sender, recipient list) with the queue stubbed.
 * input = flags byte + raw QMTP client bytes.  Documented exits: 0 (EOF / write error), 100 (bad protocol), 111 (resources). */
#include "c20.h"
#include "c20_qq.h"
#include "sig.h"
#include "rcpthosts.h"
static int c20_rcpthosts_init(void) { static int done, r; if (!done) { r = rcpthosts_init(); done = 1; } return r; }  /* it leaks a constmap per call */
#define rcpthosts_init c20_rcpthosts_init
#define sig_alarmcatch(f) ((void)0)      /* SIGALRM belongs to libFuzzer */
#define sig_pipeignore() ((void)0)
#define alarm(n) ((void)0)
#define read c20_read
#define write c20_write
#define main qmtpd_main
#include "qmail-qmtpd.c"
#undef main

int LLVMFuzzerInitialize(int *argc, char ***argv)
{
  c20_target = "qmtpd";
  c20_mkhome(); c20_homedir("control");
  c20_homefile("control/me", "mx.example.org\n");
  c20_homefile("control/rcpthosts", "example.org\n.example.org\n");
  setenv("TCPREMOTEIP", "192.0.2.7", 1); setenv("TCPREMOTEHOST", "client.example", 1); setenv("TCPLOCALHOST", "mx.example.org", 1);
  return 0;
}

static const int ok_exits[] = { 0, 100, 111, -1 };
static const size_t chunks[4] = { 0, 1, 7, 100 };

int LLVMFuzzerTestOneInput(const uint8_t *data, size_t size)
{
  unsigned fl;
  if (size < 1) return 0;
  fl = data[0];
  SA_FREE(failure);
  SS_INIT(ssin, saferead, 0, ssinbuf); SS_INIT(ssout, safewrite, 1, ssoutbuf);
  databytes = 0; bytestooverflow = 0; memset(buf, 0, sizeof buf); memset(buf2, 0, sizeof buf2);
  if (fl & 1) setenv("RELAYCLIENT", (fl & 2) ? "@relay.example" : "", 1); else unsetenv("RELAYCLIENT");
  if (fl & 4) setenv("DATABYTES", "64", 1); else unsetenv("DATABYTES");
  qq_set((fl >> 3) & 3, ((fl >> 3) & 3) == 3 && ((fl >> 5) & 1));
  c20_setin(data + 1, size - 1, chunks[(fl >> 6) & 3]);
  C20_CALL(qmtpd_main());
  c20_check_exit(ok_exits);
  if (c20_hugelen(data + 1, size - 1, 0) && qq_opened) c20_lenfail("qmtpd");
  return 0;
}
