/* C17 part 1: address quoting <-> parsing round trips, in-process.
 *   quote.c (quote, quote2, quote_need)  <->  token822.c (parse, addrlist, unquote, unparse)      [header side]
 *   qmail-remote.c addrmangle()          <->  qmail-smtpd.c addrparse()                           [SMTP side]
 *   qmail-inject.c dorecip()  (quote2 + parse + rwgeneric + unquote)  vs the documented rewriting
 * Modes:
 *   --enum <alphabet-hex> <maxlen> <shard> <nshards>     every local part over the alphabet up to maxlen
 *   --rand <seed> <count> <maxlen>                       seeded random local parts (all bytes but NUL and LF)
 *   --replay <hex-of-local-part>
 * Oracles are independent of the code under test: an RFC 821 path reader and an RFC 822 dot-atom test written here.
 */
#include "vf.h"
#include "stralloc.h"
#include "token822.h"
#include "quote.h"

extern int vq17_addrparse(char *arg, char **out, size_t *len);
extern int vq17_addrmangle(char *s, char **out, size_t *len);
extern int vq17_inject_init(const char *dh, const char *dd, const char *pd);
extern int vq17_dorecip(char *s, char **out, size_t *len);

static char failmsg[700];
static const char *DOM[4] = { "h.example", "h", "[1.2.3.4]", "h+" };
static const char *DOMRW[4] = { "h.example", "h.dd.example", "[1.2.3.4]", "h.pd.example" };   /* qmail-header.5: no dots -> .defaultdomain; trailing + -> .plusdomain; literals untouched */

/* ---------- independent readers ---------- */
static int is_special(int c) { return c && strchr("()<>@,;:\\\".[]", c) != 0; }
static int is_atomchar(int c) { return c > 32 && c < 127 && !is_special(c); }

/* RFC 822 dot-atom: atoms separated by single dots */
static int is_dotatom(const unsigned char *s, size_t n)
{
  size_t i; int prevdot = 1;
  if (!n) return 0;
  for (i = 0; i < n; ++i) {
    if (s[i] == '.') { if (prevdot) return 0; prevdot = 1; continue; }
    if (!is_atomchar(s[i])) return 0;
    prevdot = 0;
  }
  return !prevdot;
}

/* RFC 821 <mailbox> inside <...>: local-part = dot-string | quoted-string; returns 1 and the decoded local part + domain */
static vbuf rl, rd;
static int ref821(const unsigned char *m, size_t n)
{
  size_t i = 0;
  vb_reset(&rl); vb_reset(&rd);
  if (n && m[0] == '"') {
    ++i;
    for (;;) {
      if (i >= n) return 0;
      if (m[i] == '"') { ++i; break; }
      if (m[i] == '\\') { if (++i >= n) return 0; vb_putc(&rl, m[i++]); continue; }
      if (m[i] == '\r' || m[i] == '\n') return 0;           /* <q> excludes CR and LF unless escaped */
      vb_putc(&rl, m[i++]);
    }
  } else {
    while (i < n && m[i] != '@') { vb_putc(&rl, m[i]); ++i; }
    if (!is_dotatom(rl.s, rl.len)) return 0;
  }
  if (i >= n || m[i] != '@') return 0;
  ++i;
  vb_put(&rd, m + i, n - i);
  for (; i < n; ++i) if (m[i] == '>' || m[i] == ' ' || m[i] == '\n' || m[i] == '\r') return 0;
  return 1;
}

/* ---------- token822 driver (the way qmail-inject's doheaderfield/rwappend use it) ---------- */
static stralloc field = {0}, tbuf = {0}, tbuf2 = {0}, un = {0}, q1 = {0}, q2 = {0}, lp = {0}, addrsa = {0};
static token822_alloc tin = {0}, tout = {0}, taddr = {0}, tin2 = {0};
static vbuf got[4]; static int ngot;

static int cb_collect(token822_alloc *addr)
{
  static stralloc one = {0};
  token822_reverse(addr);
  if (token822_unquote(&one, addr) != 1) return 0;
  token822_reverse(addr);
  if (ngot < 4) { vb_reset(&got[ngot]); vb_put(&got[ngot], one.s, one.len); }
  ++ngot;
  return 1;
}

static int tok_equal(token822_alloc *a, token822_alloc *b)
{
  int i;
  if (a->len != b->len) return 0;
  for (i = 0; i < (int)a->len; ++i) {
    if (a->t[i].type != b->t[i].type) return 0;
    if (a->t[i].type >= TOKEN822_ATOM && a->t[i].type <= TOKEN822_COMMENT)
      if (a->t[i].slen != b->t[i].slen || memcmp(a->t[i].s, b->t[i].s, a->t[i].slen)) return 0;
  }
  return 1;
}

static int check_local(const unsigned char *l, size_t n)
{
  int d, need;
  ++vf_evals;
  need = quote_need((char *)l, (unsigned int)n);
  /* (iii) */
  if (!stralloc_copyb(&lp, (char *)l, n)) exit(2);
  if (!quote(&q1, &lp)) exit(2);
  if (!need) {
    if (q1.len != n || memcmp(q1.s, l, n)) { snprintf(failmsg, sizeof failmsg, "quote_need()==0 but quote() changed the string"); return 0; }
    if (!is_dotatom(l, n)) { snprintf(failmsg, sizeof failmsg, "quote_need()==0 for a local part that is not an RFC 822 dot-atom: it is used unquoted"); return 0; }
    ++vf_cls[0];
  } else ++vf_cls[1];
  for (d = 0; d < 4; ++d) {
    size_t alen; char *o; size_t on; int r;
    if (!stralloc_copyb(&addrsa, (char *)l, n) || !stralloc_cats(&addrsa, "@") || !stralloc_cats(&addrsa, DOM[d]) || !stralloc_0(&addrsa)) exit(2);
    alen = addrsa.len - 1;
    if (d < 3) {
      /* (i) SMTP side */
      static vbuf arg;
      r = vq17_addrmangle(addrsa.s, &o, &on);
      if (r != 1) { snprintf(failmsg, sizeof failmsg, "addrmangle exited %d", -1 - r); return 0; }
      if (!ref821(o, on)) { snprintf(failmsg, sizeof failmsg, "domain %s: addrmangle output is not an RFC 821 mailbox (unescaped special, CR/LF, '>' or space outside quotes)", DOM[d]); return 0; }
      if (rl.len != n || memcmp(rl.s, l, n) || rd.len != strlen(DOM[d]) || memcmp(rd.s, DOM[d], rd.len)) { snprintf(failmsg, sizeof failmsg, "domain %s: an RFC 821 reader decodes addrmangle's output to a different address", DOM[d]); return 0; }
      vb_reset(&arg); vb_put(&arg, "TO:<", 4); vb_put(&arg, o, on); vb_put(&arg, ">", 1);
      r = vq17_addrparse((char *)arg.s, &o, &on);
      if (alen < 900) {
        if (r != 1) { snprintf(failmsg, sizeof failmsg, "domain %s: addrparse returned %d for a %zu-byte address", DOM[d], r, alen); return 0; }
        if (on != alen || memcmp(o, addrsa.s, alen)) { snprintf(failmsg, sizeof failmsg, "domain %s: addrparse(<addrmangle(a)>) != a (got %zu bytes, want %zu)", DOM[d], on, alen); return 0; }
        ++vf_cls[2];
      } else { if (r < 0) { snprintf(failmsg, sizeof failmsg, "addrparse exited %d", -1 - r); return 0; } ++vf_slack; }
      /* (ii) header side */
      if (!quote2(&q2, addrsa.s)) exit(2);
      { /* quote2(a) == quote(l) "@" d */
        size_t dl = strlen(DOM[d]);
        if (q2.len != q1.len + 1 + dl || memcmp(q2.s, q1.s, q1.len) || q2.s[q1.len] != '@' || memcmp(q2.s + q1.len + 1, DOM[d], dl)) { snprintf(failmsg, sizeof failmsg, "quote2(a) differs from quote(local)@domain"); return 0; }
      }
      if (!stralloc_copys(&field, "To: ") || !stralloc_cat(&field, &q2) || !stralloc_cats(&field, "\n")) exit(2);
      r = token822_parse(&tin, &field, &tbuf);
      if (r != 1) { snprintf(failmsg, sizeof failmsg, "domain %s: token822_parse(\"To: \" quote2(a)) returned %d", DOM[d], r); return 0; }
      ngot = 0;
      r = token822_addrlist(&tout, &taddr, &tin, cb_collect);
      if (r != 1) { snprintf(failmsg, sizeof failmsg, "domain %s: token822_addrlist returned %d", DOM[d], r); return 0; }
      if (ngot != 1) { snprintf(failmsg, sizeof failmsg, "domain %s: the quoted address parses back as %d addresses", DOM[d], ngot); return 0; }
      if (got[0].len != alen || memcmp(got[0].s, addrsa.s, alen)) { snprintf(failmsg, sizeof failmsg, "domain %s: unquote(addrlist(parse(quote2(a)))) != a (got %zu bytes, want %zu)", DOM[d], got[0].len, alen); return 0; }
      ++vf_cls[3];
      /* parse(unparse(parse(x))) == parse(x), for the list as rewritten by addrlist and for the raw token list */
      if (token822_unparse(&un, &tout, 80) != 1) exit(2);
      r = token822_parse(&tin2, &un, &tbuf2);
      if (r != 1 || !tok_equal(&tin2, &tout)) { snprintf(failmsg, sizeof failmsg, "domain %s: parse(unparse(t)) differs from t (r=%d, %u vs %u tokens)", DOM[d], r, tin2.len, tout.len); return 0; }
      ++vf_cls[4];
    }
    /* (iv) qmail-inject's argument-recipient path against the documented rewriting */
    {
      size_t wl = n + 1 + strlen(DOMRW[d]);
      r = vq17_dorecip(addrsa.s, &o, &on);
      if (r != 1) { snprintf(failmsg, sizeof failmsg, "domain %s: dorecip() %s %d", DOM[d], r < 0 ? "exited" : "gave a recipient count of", r < 0 ? -1 - r : r); return 0; }
      if (on != wl || memcmp(o, l, n) || o[n] != '@' || memcmp(o + n + 1, DOMRW[d], strlen(DOMRW[d]))) { snprintf(failmsg, sizeof failmsg, "domain %s: qmail-inject turns the argument recipient into a different envelope address (%zu bytes, expected local@%s)", DOM[d], on, DOMRW[d]); return 0; }
      ++vf_cls[5];
    }
  }
  return 1;
}

static int nontrivial(const unsigned char *l, size_t n) { return quote_need((char *)l, (unsigned int)n); }

static int run_case(const unsigned char *l, size_t n)
{
  int ok = check_local(l, n);
  if (n && nontrivial(l, n)) ++vf_nontrivial;
  vf_sample(l, n);
  if (!ok) { printf("VIOLATION-CASE local="); vf_hex(stdout, l, n); printf(" msg=%s\n", failmsg); vf_dump_stats(stdout); return 0; }
  return 1;
}

static int hexval(int c) { return c <= '9' ? c - '0' : (c | 32) - 'a' + 10; }

int main(int argc, char **argv)
{
  vf_clsname[0] = "unquoted_dotatom"; vf_clsname[1] = "needs_quoting"; vf_clsname[2] = "smtp_roundtrip"; vf_clsname[3] = "header_roundtrip";
  vf_clsname[4] = "unparse_parse_fixpoint"; vf_clsname[5] = "inject_dorecip";
  if (!vq17_inject_init("dh.example", "dd.example", "pd.example")) { fprintf(stderr, "inject init failed\n"); return 2; }
  if (argc >= 6 && !strcmp(argv[1], "--enum")) {
    unsigned char alpha[64]; int na = strlen(argv[2]) / 2, i; int maxlen = atoi(argv[3]); int shard = atoi(argv[4]), nsh = atoi(argv[5]);
    unsigned char s[16]; int idx[16]; int len; unsigned long long count = 0;
    for (i = 0; i < na; ++i) alpha[i] = hexval(argv[2][2 * i]) * 16 + hexval(argv[2][2 * i + 1]);
    for (len = 0; len <= maxlen; ++len) {
      memset(idx, 0, sizeof idx);
      for (;;) {
        if ((count++ % nsh) == (unsigned)shard) {
          for (i = 0; i < len; ++i) s[i] = alpha[idx[i]];
          if (!run_case(s, len)) return 1;
        }
        for (i = len - 1; i >= 0; --i) { if (++idx[i] < na) break; idx[i] = 0; }
        if (i < 0) break;
      }
    }
    vf_dump_stats(stdout);
    return 0;
  }
  if (argc >= 5 && !strcmp(argv[1], "--rand")) {
    unsigned long long cnt = strtoull(argv[3], 0, 10), c; size_t maxlen = atoi(argv[4]); unsigned char *s = malloc(1200);
    static const unsigned char bias[] = "()<>@,;:\\\".[] \r\ta+-_=\xe9\x80\xff\x01\x7f";
    vf_rng_state = strtoull(argv[2], 0, 10);
    for (c = 0; c < cnt; ++c) {
      uint64_t r = vf_rand(); int fam = r % 8; size_t n, i;
      if (fam == 7) n = 860 + (r >> 8) % 60;                      /* around the 900-byte limit of addrparse */
      else n = (r >> 8) % (maxlen + 1);
      for (i = 0; i < n; ++i) {
        uint64_t x = vf_rand(); unsigned char ch;
        if (fam < 3) ch = (unsigned char)x; else if (fam < 6) ch = bias[x % (sizeof bias - 1)]; else ch = (x >> 8) % 4 ? 'a' + x % 26 : bias[(x >> 16) % (sizeof bias - 1)];
        if (ch == 0 || ch == '\n') ch = 'n';
        s[i] = ch;
      }
      if (!run_case(s, n)) return 1;
    }
    vf_dump_stats(stdout);
    return 0;
  }
  if (argc >= 3 && !strcmp(argv[1], "--replay")) {
    size_t n = strlen(argv[2]) / 2, i; unsigned char *s = malloc(n + 1);
    for (i = 0; i < n; ++i) s[i] = hexval(argv[2][2 * i]) * 16 + hexval(argv[2][2 * i + 1]);
    if (!run_case(s, n)) return 1;
    printf("replay ok\n");
    return 0;
  }
  fprintf(stderr, "usage\n");
  return 2;
}
