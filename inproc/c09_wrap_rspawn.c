/* C09: qmail-rspawn.c as a library (globals localised by objcopy --localize-hidden); report() is called with a
 * memory substdio exactly as spawn.c's main loop calls it (between the delivery-number byte and the final NUL). */
#include <unistd.h>
#include <string.h>
#include <stdlib.h>
#include <sys/types.h>
#define VQ_API __attribute__((visibility("default")))
#include "qmail-rspawn.c"

uid_t auto_uidq;   /* lives in spawn.c in the real program */

static unsigned char *rs_out; static size_t rs_n, rs_cap;
static ssize_t rs_write(int fd, const char *buf, size_t len)
{
  if (rs_n + len + 1 > rs_cap) { rs_cap = (rs_n + len + 1) * 2 + 64; rs_out = realloc(rs_out, rs_cap); }
  memcpy(rs_out + rs_n, buf, len); rs_n += len;
  return len;
}

static char rs_buf[1024];

/* s[0..len) is qmail-remote's output as collected by spawn.c; the caller guarantees s[len] is readable (spawn.c's
 * stralloc always has spare room after len, its content is unspecified - the harness puts a NUL there). */
VQ_API void vq_c09_report(int wstat, char *s, int len, unsigned char **outp, size_t *nout)
{
  substdio ss;
  rs_n = 0;
  if (!rs_out) { rs_cap = 256; rs_out = malloc(rs_cap); }
  substdio_fdbuf(&ss, rs_write, 1, rs_buf, sizeof rs_buf);
  report(&ss, wstat, s, len);
  substdio_flush(&ss);
  *outp = rs_out; *nout = rs_n;
}
