/* C20 target cdb: cdb_seek() + cdb_bread() on arbitrary bytes (an unlinked scratch file), as qmail-lspawn (users/cdb),
 * rcpthosts (morercpthosts.cdb) and qmail-newu's readers use them.
 * input = key length byte, key, file bytes.  No exits (library code). */
#include "c20.h"
#include "cdb.h"

int LLVMFuzzerInitialize(int *argc, char ***argv) { c20_target = "cdb"; return 0; }

int LLVMFuzzerTestOneInput(const uint8_t *data, size_t size)
{
  unsigned kl; const uint8_t *key; int fd, r, pass; uint32 dlen; static char buf[600];
  if (size < 1) return 0;
  kl = data[0]; ++data; --size; if (kl > size) kl = size;
  key = data; data += kl; size -= kl;
  fd = c20_memfile(data, size);
  for (pass = 0; pass < 2; ++pass) {
    unsigned int n0 = pass ? 0 : kl; char *k = malloc(n0 ? n0 : 1);             /* exact-size heap copy of the key (no NUL) */
    if (n0) memcpy(k, key, n0);
    dlen = 0;
    r = cdb_seek(fd, k, pass ? 0 : kl, &dlen);
    if (r != 0 && r != 1 && r != -1) { fprintf(stderr, "C20-ORACLE: target cdb: cdb_seek returned %d\n", r); __builtin_trap(); }
    if (r == 1) { unsigned int n = dlen < sizeof buf ? dlen : sizeof buf; if (cdb_bread(fd, buf, n) == 0) c20_write(-1, buf, n); }
    free(k);
  }
  close(fd);
  return 0;
}
