/* C05 / C06 harness: qmail-smtpd's DATA decoder and qmail-remote's DATA encoder against a
 * reference RFC 5321 receiver. Build with -DPROP=5 or -DPROP=6; -DVF_FUZZ adds the libFuzzer entry.
 *   --enum <alphabet-hex> <maxlen> <shard> <nshards> <splitmax>
 *   --rand <seed> <count> <maxlen>
 *   --replay <file>     (file = raw input bytes; optional "<file>.chunks" with decimal sizes)
 */
#include "vf.h"

extern int vq_smtpd_blast(const unsigned char *s, size_t n, const size_t *chunks, size_t nchunks,
                          unsigned char **stored, size_t *nstored, size_t *consumed,
                          unsigned char **reply, size_t *nreply, int *exitcode, int *hops);
extern int vq_remote_blast(const unsigned char *s, size_t n, const size_t *chunks, size_t nchunks, int err_at,
                           unsigned char **wire, size_t *nwire, unsigned char **report, size_t *nreport, int *critical);

enum { R_END = 0, R_STRAY = 1, R_EOF = 2 };

/* ---------------- reference receiver (RFC 5321 4.5.2 + qmail-smtpd.8) ----------------
 * lines end with CR LF; an LF not immediately preceded by CR (within the line) is a stray newline;
 * a line "." ends the data; one leading dot is removed from other lines; bare CRs are data.
 * For lines starting with '.' + bare CR the result is unspecified (slack): both variants are kept. */
typedef struct { size_t off, len; int slack; } rline;
static rline *rl; static size_t rl_n, rl_cap;
static vbuf refstore;   /* all stored lines, the variant WITHOUT the slack dot */

static int ref_receive(const unsigned char *s, size_t n, size_t *consumed)
{
  size_t ls = 0, i;
  rl_n = 0; vb_reset(&refstore);
  for (i = 0; i < n; ++i) {
    if (s[i] != '\n') continue;
    if (i == ls || s[i - 1] != '\r') return R_STRAY;
    {
      size_t l = i - 1 - ls; const unsigned char *p = s + ls; int slack = 0;
      if (l == 1 && p[0] == '.') { *consumed = i + 1; return R_END; }
      if (l >= 1 && p[0] == '.') { if (l >= 2 && p[1] == '\r') slack = 1; ++p; --l; }
      if (rl_n == rl_cap) { rl_cap = rl_cap * 2 + 16; rl = realloc(rl, rl_cap * sizeof *rl); }
      rl[rl_n].off = refstore.len; rl[rl_n].len = l + 1; rl[rl_n].slack = slack; ++rl_n;
      vb_put(&refstore, p, l); vb_putc(&refstore, '\n');
      ls = i + 1;
    }
  }
  return R_EOF;
}

/* compare implementation output with the reference lines, accepting the extra dot on slack lines */
static int match_stored(const unsigned char *o, size_t on, int *usedslack)
{
  size_t k, pos = 0;
  for (k = 0; k < rl_n; ++k) {
    const unsigned char *l = refstore.s + rl[k].off; size_t ll = rl[k].len;
    if (rl[k].slack && pos < on && o[pos] == '.') { ++pos; *usedslack = 1; }
    if (pos + ll > on || memcmp(o + pos, l, ll)) return 0;
    pos += ll;
  }
  return pos == on;
}

static char failmsg[512];
static vbuf tmp1, tmp2;

/* ---------------- C05 oracle ---------------- */
static int check_c05(const unsigned char *s, size_t n, const size_t *chunks, size_t nchunks)
{
  unsigned char *st, *rp; size_t nst, cons, nrp, rcons = 0; int ec, hops, r, kind, us = 0;
  r = vq_smtpd_blast(s, n, chunks, nchunks, &st, &nst, &cons, &rp, &nrp, &ec, &hops);
  kind = ref_receive(s, n, &rcons);
  ++vf_evals;
  if (kind == R_END) {
    if (r != 0) { snprintf(failmsg, sizeof failmsg, "reference: END at %zu; implementation exited %d (reply %.40s)", rcons, ec, nrp ? (char *)rp : ""); return 0; }
    if (cons != rcons) { snprintf(failmsg, sizeof failmsg, "END consumed %zu bytes, reference %zu (bytes after the terminator are the next command)", cons, rcons); return 0; }
    if (!match_stored(st, nst, &us)) { snprintf(failmsg, sizeof failmsg, "stored bytes differ from the transmitted lines (stored %zu bytes, reference %zu)", nst, refstore.len); return 0; }
    if (us) ++vf_slack;
    ++vf_cls[0];
  } else if (kind == R_STRAY) {
    if (r != 1) { snprintf(failmsg, sizeof failmsg, "bare LF accepted: implementation returned END (consumed %zu)", cons); return 0; }
    if (ec != 1) { snprintf(failmsg, sizeof failmsg, "bare LF: exit code %d, expected 1", ec); return 0; }
    if (nrp < 3 || memcmp(rp, "451", 3)) { snprintf(failmsg, sizeof failmsg, "bare LF: reply is not 451 (%zu bytes)", nrp); return 0; }
    ++vf_cls[1];
  } else {
    if (r != 1) { snprintf(failmsg, sizeof failmsg, "no terminator in stream but implementation returned END (consumed %zu of %zu)", cons, n); return 0; }
    if (nrp != 0) { snprintf(failmsg, sizeof failmsg, "EOF inside DATA: a reply was sent (%.40s)", (char *)rp); return 0; }
    ++vf_cls[2];
  }
  return 1;
}

/* ---------------- C06 oracle ---------------- */
/* lines(m): split at LF, CR LF and bare CR (test_blast_barecr fixes the latter) */
static vbuf explines;
static int msg_lines(const unsigned char *m, size_t n, int *partial)
{
  size_t i = 0; int cnt = 0;
  vb_reset(&explines); *partial = 0;
  while (i < n) {
    size_t j = i;
    while (j < n && m[j] != '\n' && m[j] != '\r') ++j;
    vb_put(&explines, m + i, j - i); vb_putc(&explines, '\n'); ++cnt;
    if (j >= n) { *partial = 1; break; }
    if (m[j] == '\r' && j + 1 < n && m[j + 1] == '\n') j += 2; else j += 1;
    i = j;
  }
  return cnt;
}

static int check_c06(const unsigned char *m, size_t n, const size_t *chunks, size_t nchunks, int err_at)
{
  unsigned char *w, *rp, *st, *rp2; size_t nw, nrp, i, rcons = 0, nst, cons, nrp2; int crit, r, partial, kind, ec, hops, hascr = 0, us = 0;
  r = vq_remote_blast(m, n, chunks, nchunks, err_at, &w, &nw, &rp, &nrp, &crit);
  ++vf_evals;
  msg_lines(m, n, &partial);
  for (i = 0; i < n; ++i) if (m[i] == '\r') hascr = 1;
  if (err_at >= 0) {
    if (r != 1 || nrp < 1 || rp[0] != 'Z') { snprintf(failmsg, sizeof failmsg, "read error at %d: report is not Z", err_at); return 0; }
    ++vf_cls[5]; return 1;
  }
  if (partial) {
    /* clause 5: no payload completed, D report */
    if (r != 1) { snprintf(failmsg, sizeof failmsg, "partial final line but blast() completed the DATA payload"); return 0; }
    if (nrp < 1 || rp[0] != 'D') { snprintf(failmsg, sizeof failmsg, "partial final line: report does not start with D"); return 0; }
    for (i = 0; i + 4 < nw; ++i) if (!memcmp(w + i, "\r\n.\r\n", 5)) { snprintf(failmsg, sizeof failmsg, "partial final line: a terminator was already written"); return 0; }
    ++vf_cls[3]; return 1;
  }
  if (r != 0) { snprintf(failmsg, sizeof failmsg, "complete message but blast() exited (report %.30s)", nrp ? (char *)rp : ""); return 0; }
  /* clause 1: CRLF.CRLF exactly once in CRLF+W, as its suffix */
  vb_reset(&tmp1); vb_put(&tmp1, "\r\n", 2); vb_put(&tmp1, w, nw);
  {
    size_t cnt = 0, last = 0;
    for (i = 0; i + 5 <= tmp1.len; ++i) if (!memcmp(tmp1.s + i, "\r\n.\r\n", 5)) { ++cnt; last = i; }
    if (cnt != 1 || last + 5 != tmp1.len) { snprintf(failmsg, sizeof failmsg, "end-of-data sequence CRLF.CRLF occurs %zu times (last at %zu of %zu): message content can end DATA early", cnt, last, tmp1.len); return 0; }
  }
  /* clause 2: no bare LF */
  for (i = 0; i < nw; ++i) if (w[i] == '\n' && (i == 0 || w[i - 1] != '\r')) { snprintf(failmsg, sizeof failmsg, "bare LF at wire offset %zu", i); return 0; }
  /* clause 3: reference receiver and the package's own server consume exactly W */
  kind = ref_receive(w, nw, &rcons);
  if (kind != R_END || rcons != nw) { snprintf(failmsg, sizeof failmsg, "reference receiver: kind %d consumed %zu of %zu", kind, rcons, nw); return 0; }
  /* clause 4: decoded lines == lines(m) */
  if (refstore.len != explines.len || memcmp(refstore.s, explines.s, explines.len)) { snprintf(failmsg, sizeof failmsg, "decoded lines differ from the message's lines (decoded %zu bytes, expected %zu)", refstore.len, explines.len); return 0; }
  if (!hascr && (refstore.len != n || memcmp(refstore.s, m, n))) { snprintf(failmsg, sizeof failmsg, "CR-free message does not round-trip byte-identically"); return 0; }
  {
    int r2 = vq_smtpd_blast(w, nw, 0, 0, &st, &nst, &cons, &rp2, &nrp2, &ec, &hops);
    if (r2 != 0 || cons != nw) { snprintf(failmsg, sizeof failmsg, "qmail-smtpd decoder: r=%d consumed %zu of %zu", r2, cons, nw); return 0; }
    if (!match_stored(st, nst, &us)) { snprintf(failmsg, sizeof failmsg, "qmail-smtpd decodes the payload to different bytes"); return 0; }
  }
  if (crit != 1) { snprintf(failmsg, sizeof failmsg, "flagcritical not set after the final dot was written"); return 0; }
  ++vf_cls[4];
  return 1;
}

/* C05(d): round trip through a reference sender and through qmail-remote (CR-free messages only for the latter) */
static vbuf enc;
static int check_roundtrip(const unsigned char *m, size_t n)
{
  size_t i = 0; int hascr = 0; unsigned char *st, *rp; size_t nst, cons, nrp; int ec, hops, r;
  vb_reset(&enc);
  /* reference sender: lines end with LF in the message; CRs are data */
  while (i < n) {
    size_t j = i; while (j < n && m[j] != '\n') ++j;
    if (m[i] == '.' && j > i) vb_putc(&enc, '.');
    else if (j == i) {}
    vb_put(&enc, m + i, j - i); vb_put(&enc, "\r\n", 2);
    i = j + 1;
  }
  vb_put(&enc, ".\r\n", 3);
  for (i = 0; i < n; ++i) if (m[i] == '\r') hascr = 1;
  r = vq_smtpd_blast(enc.s, enc.len, 0, 0, &st, &nst, &cons, &rp, &nrp, &ec, &hops);
  ++vf_evals;
  /* a line ending in CR before LF would be sent as CR CR LF: bare CR data + CRLF, fine; but a message line "x\r" + LF
     is indistinguishable only in the sender's intent; the receiver must return the line content "x\r". */
  if (r != 0 || cons != enc.len) { snprintf(failmsg, sizeof failmsg, "round trip (reference sender): r=%d consumed %zu of %zu", r, cons, enc.len); return 0; }
  vb_reset(&tmp2); vb_put(&tmp2, m, n); if (n && m[n - 1] != '\n') vb_putc(&tmp2, '\n');
  /* lines that start with ".\r" fall into the slack region: skip exact comparison for those messages */
  {
    int slackmsg = 0; size_t k;
    for (k = 0; k + 1 < n; ++k) if (m[k] == '.' && m[k + 1] == '\r' && (k == 0 || m[k - 1] == '\n')) slackmsg = 1;
    if (n && m[n - 1] == '.' ) {}
    if (slackmsg) { ++vf_slack; }
    else if (nst != tmp2.len || memcmp(st, tmp2.s, nst)) { snprintf(failmsg, sizeof failmsg, "decode(encode(m)) != m (reference sender): %zu vs %zu bytes", nst, tmp2.len); return 0; }
  }
  ++vf_cls[6];
  if (!hascr && n && m[n - 1] == '\n') {
    unsigned char *w, *rep; size_t nw, nrep; int crit;
    vb_reset(&tmp1); vb_put(&tmp1, m, n);
    if (vq_remote_blast(tmp1.s, n, 0, 0, -1, &w, &nw, &rep, &nrep, &crit) == 0) {
      vb_reset(&tmp2); vb_put(&tmp2, w, nw);
      r = vq_smtpd_blast(tmp2.s, tmp2.len, 0, 0, &st, &nst, &cons, &rp, &nrp, &ec, &hops);
      if (r != 0 || cons != tmp2.len || nst != n || memcmp(st, m, n)) { snprintf(failmsg, sizeof failmsg, "decode(qmail-remote encode(m)) != m for a CR-free message"); return 0; }
      ++vf_cls[7];
    }
    /* the client cannot read the queued message beyond the start of one of its lines (I/O error on the message file): whatever it has put
       on the wire by then must not look like a complete message to the server - decode(encode(m)) is m or nothing, never a prefix of m
       (added after seeded change C05-M) */
    {
      size_t k, nl = 0, pick, at = 0;
      for (k = 0; k < n; ++k) if (m[k] == '\n') ++nl;
      pick = nl ? (n * 7 + nl) % nl : 0;            /* deterministic choice of the line start (0 = the very first read fails) */
      for (k = 0, nl = 0; k < n && nl < pick; ++k) if (m[k] == '\n') { ++nl; at = k + 1; }
      if (at < n) {
        vb_reset(&tmp1); vb_put(&tmp1, m, n);
        if (vq_remote_blast(tmp1.s, n, 0, 0, (int)at, &w, &nw, &rep, &nrep, &crit) == 0) {
          vb_reset(&tmp2); vb_put(&tmp2, w, nw);
          r = vq_smtpd_blast(tmp2.s, tmp2.len, 0, 0, &st, &nst, &cons, &rp, &nrp, &ec, &hops);
          if (r == 0) { snprintf(failmsg, sizeof failmsg, "read error at the line start %zu of a %zu-byte message: the client completed DATA and the server stored %zu bytes (a truncated message accepted as complete)", at, n, nst); return 0; }
        }
        ++vf_cls[5];
      }
    }
  }
  return 1;
}

static int nontrivial(const unsigned char *s, size_t n)
{
  size_t i; int a = 0, b = 0;
  for (i = 0; i < n; ++i) { if (s[i] == '\r' || s[i] == '\n') a = 1; if (s[i] == '.') b = 1; }
#if PROP == 5
  return a && b;
#else
  { int c = 0; for (i = 0; i < n; ++i) { if (s[i] == '\r') c = 1; if (s[i] == '.' && (i == 0 || s[i - 1] == '\n' || s[i - 1] == '\r')) c = 1; } return c; }
#endif
}

static void report_violation(const unsigned char *s, size_t n, const size_t *chunks, size_t nchunks, const char *what)
{
  size_t i;
  printf("VIOLATION-CASE %s input=", what); vf_hex(stdout, s, n);
  printf(" chunks=");
  for (i = 0; i < nchunks; ++i) printf("%s%zu", i ? "," : "", chunks[i]);
  printf(" msg=%s\n", failmsg);
  vf_dump_stats(stdout);
}

extern void vq_remote_wshort(unsigned seed);
static int run_case(const unsigned char *s, size_t n, const size_t *chunks, size_t nchunks, int mode)
{
  int ok;
#if PROP == 5
  ok = mode == 2 ? check_roundtrip(s, n) : check_c05(s, n, chunks, nchunks);
#else
  if (mode == 4) {
    /* every write to the peer is cut short (1..7 bytes taken, seeded by chunks[0]): the bytes on the wire must be the same */
    vq_remote_wshort(nchunks ? (unsigned)chunks[0] : 1u);
    ok = check_c06(s, n, 0, 0, -1);
    vq_remote_wshort(0);
  } else {
  ok = check_c06(s, n, chunks, nchunks, mode == 3 ? (int)(nchunks ? chunks[0] : 0) : -1);
  if (mode == 3) nchunks = 0;
  }
#endif
  if (nontrivial(s, n)) ++vf_nontrivial;
  vf_sample(s, n);
  if (!ok) { report_violation(s, n, chunks, nchunks, mode == 2 ? "roundtrip" : mode == 3 ? "readerror" : mode == 4 ? "shortwrite" : "stream"); return 0; }
  return 1;
}

#ifndef VF_FUZZ
static int hexval(int c) { return c <= '9' ? c - '0' : (c | 32) - 'a' + 10; }

int main(int argc, char **argv)
{
  vf_clsname[0] = "end"; vf_clsname[1] = "stray_lf"; vf_clsname[2] = "eof"; vf_clsname[3] = "partial_final_line";
  vf_clsname[4] = "encoded_ok"; vf_clsname[5] = "read_error"; vf_clsname[6] = "roundtrip_ref_sender"; vf_clsname[7] = "roundtrip_qmail_remote";
  if (argc >= 7 && !strcmp(argv[1], "--enum")) {
    unsigned char alpha[16]; int na = strlen(argv[2]) / 2, i; int maxlen = atoi(argv[3]); int shard = atoi(argv[4]), nsh = atoi(argv[5]); int splitmax = atoi(argv[6]);
    unsigned char s[32]; int idx[32]; int len; unsigned long long count = 0;
    for (i = 0; i < na; ++i) alpha[i] = hexval(argv[2][2 * i]) * 16 + hexval(argv[2][2 * i + 1]);
    for (len = 0; len <= maxlen; ++len) {
      memset(idx, 0, sizeof idx);
      for (;;) {
        if ((count++ % nsh) == (unsigned)shard) {
          for (i = 0; i < len; ++i) s[i] = alpha[idx[i]];
          if (!run_case(s, len, 0, 0, 0)) return 1;
          if (len >= 2 && len <= splitmax) {
            /* every split into reads: bitmask over the len-1 gaps */
            unsigned m; size_t ch[32];
            for (m = 1; m < (1u << (len - 1)); ++m) {
              size_t nc = 0, run = 1; int g;
              for (g = 0; g < len - 1; ++g) { if (m & (1u << g)) { ch[nc++] = run; run = 1; } else ++run; }
              ch[nc++] = run;
              if (!run_case(s, len, ch, nc, 0)) return 1;
            }
          }
        }
        for (i = len - 1; i >= 0; --i) { if (++idx[i] < na) break; idx[i] = 0; }
        if (i < 0) break;
      }
    }
    vf_dump_stats(stdout);
    return 0;
  }
  if (argc >= 5 && !strcmp(argv[1], "--rand")) {
    unsigned long long cnt = strtoull(argv[3], 0, 10), c; size_t maxlen = atoi(argv[4]); unsigned char *s = malloc(maxlen + 8);
    static const unsigned char bias[] = {'\r', '\n', '.', 'x', '\r', '\n', '.', 'R', 'e', 'c', 0, 0xff, ' ', ':'};
    vf_rng_state = strtoull(argv[2], 0, 10);
    for (c = 0; c < cnt; ++c) {
      size_t n = vf_rand() % (maxlen + 1), i; int fam = vf_rand() % 4; size_t ch[64], nc = 0;
      for (i = 0; i < n; ++i) { uint64_t r = vf_rand(); s[i] = fam == 0 ? (r & 0xff) : bias[r % (fam == 1 ? 4 : sizeof bias)]; if (fam == 3 && (r >> 20) % 3 == 0) s[i] = 'a' + (r >> 8) % 26; }
      if (fam >= 2) { /* buffer boundary family: long run then suffix */ size_t k = 1016 + vf_rand() % 12; if (k + 8 < maxlen) { memset(s, 'x', k); n = k + vf_rand() % 8; if (n > maxlen) n = maxlen; } }
      if (vf_rand() % 2) { nc = 1 + vf_rand() % 40; for (i = 0; i < nc; ++i) ch[i] = 1 + vf_rand() % 9; }
#if PROP == 5
      if (!run_case(s, n, ch, nc, 0)) return 1;
      if (!run_case(s, n, 0, 0, 2)) return 1;
#else
      if (!run_case(s, n, ch, nc, 0)) return 1;
      if (n && c % 16 == 0) { size_t e[1]; e[0] = vf_rand() % n; if (!run_case(s, n, e, 1, 3)) return 1; }
      if (c % 8 == 3) { size_t e[1]; e[0] = 1 + vf_rand() % 100000; if (!run_case(s, n, e, 1, 4)) return 1; }
#endif
    }
    vf_dump_stats(stdout);
    return 0;
  }
  if (argc >= 3 && !strcmp(argv[1], "--replay")) {
    FILE *f = fopen(argv[2], "rb"); unsigned char *s = malloc(1 << 22); size_t n, nc = 0; size_t ch[256]; char cf[1024]; int mode = argc > 3 ? atoi(argv[3]) : 0;
    if (!f) { perror("open"); return 2; }
    n = fread(s, 1, 1 << 22, f); fclose(f);
    snprintf(cf, sizeof cf, "%s.chunks", argv[2]);
    f = fopen(cf, "r"); if (f) { unsigned long v; while (nc < 256 && fscanf(f, "%lu,", &v) == 1) ch[nc++] = v; fclose(f); }
    if (!run_case(s, n, ch, nc, mode)) return 1;
#if PROP == 5
    if (!run_case(s, n, 0, 0, 2)) return 1;
#endif
    printf("replay ok\n");
    return 0;
  }
  fprintf(stderr, "usage\n");
  return 2;
}
#else
int LLVMFuzzerTestOneInput(const uint8_t *data, size_t size)
{
  size_t ch[32], nc = 0, i; static int inited;
  if (!inited) { inited = 1; vf_clsname[0] = "end"; vf_clsname[1] = "stray_lf"; vf_clsname[2] = "eof"; vf_clsname[3] = "partial_final_line"; vf_clsname[4] = "encoded_ok"; vf_clsname[6] = "roundtrip_ref_sender"; vf_clsname[7] = "roundtrip_qmail_remote"; }
  /* decode layer: last byte = number of chunk sizes, taken from the end; payload = the rest */
  if (size >= 1) { nc = data[size - 1] % 16; --size; if (nc > size) nc = size; for (i = 0; i < nc; ++i) ch[i] = 1 + data[size - 1 - i] % 64; size -= nc; }
  if (!run_case(data, size, ch, nc, 0)) __builtin_trap();
#if PROP == 5
  if (!run_case(data, size, 0, 0, 2)) __builtin_trap();
#endif
  return 0;
}
#endif
