/* C20 target received: received() / safeput() with arbitrary strings (TCPREMOTEHOST, TCPREMOTEINFO, HELO argument ...).
 * input = flags byte + up to six NUL-terminated strings.  No exits. */
#include "c20.h"
#include "c20_qq.h"
#include "received.h"

int LLVMFuzzerInitialize(int *argc, char ***argv) { c20_target = "received"; return 0; }

int LLVMFuzzerTestOneInput(const uint8_t *data, size_t size)
{
  static struct qmail qq; char *f[6]; int nf, i; unsigned fl;
  if (size < 1) return 0;
  fl = data[0];
  nf = c20_fields(data + 1, size - 1, f, 6, 0, 0);
  for (i = nf; i < 6; ++i) f[i] = c20_cstr((const uint8_t *)"unknown", 7);
  received(&qq, f[0], f[1], f[2], f[3], (fl & 1) ? f[4] : 0, (fl & 2) ? f[5] : 0);
  for (i = 0; i < 6; ++i) free(f[i]);
  return 0;
}
