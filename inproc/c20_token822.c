/* C20 target token822: token822_parse -> token822_addrlist -> token822_unparse / token822_unquote exactly as qmail-inject
 * drives them (header field = "<name>:" + bytes, callback = reverse/unquote/reverse; dorecip = quote2 + parse + reverse + unquote).
 * input = flags byte + raw bytes; flag bits 5-6 repeat the bytes 1/1/8/64 times (long lists, deep nesting; <= 64 kB).  No exits. */
#include "c20.h"
#include "stralloc.h"
#include "token822.h"
#include "quote.h"

#define TA_FREE(ta) do { if ((ta).t) free((ta).t); (ta).t = 0; (ta).len = 0; (ta).a = 0; } while (0)
static stralloc line, tbuf, outsa, uq;
static token822_alloc ta, taout, taaddr;

static int cb(token822_alloc *addr)
{
  token822_reverse(addr);
  if (token822_unquote(&uq, addr) != 1) return -1;
  token822_reverse(addr);
  c20_write(-1, uq.s, uq.len);
  return 1;
}

int LLVMFuzzerInitialize(int *argc, char ***argv) { c20_target = "token822"; return 0; }

static const unsigned linelens[4] = { 80, 0, 1, 20 };
static const char *names[4] = { "To:", "Cc :", "Resent-To:\t", "From:" };

int LLVMFuzzerTestOneInput(const uint8_t *data, size_t size)
{
  unsigned fl;
  if (size < 1) return 0;
  fl = data[0]; ++data; --size;
  SA_FREE(line); SA_FREE(tbuf); SA_FREE(outsa); SA_FREE(uq); TA_FREE(ta); TA_FREE(taout); TA_FREE(taaddr);
  if (fl & 1) {
    /* qmail-inject dorecip(): a command-line recipient */
    char *s = c20_cstr(data, size);
    if (quote2(&line, s) && token822_parse(&ta, &line, &tbuf) == 1) {
      token822_reverse(&ta);
      if (token822_unquote(&outsa, &ta) == 1) c20_write(-1, outsa.s, outsa.len);
    }
    free(s);
    return 0;
  }
  /* qmail-inject doheaderfield(): a recognised address header field; the field name is always there (hfield_known matched it) */
  if (!stralloc_copys(&line, names[(fl >> 1) & 3])) return 0;
  { static const unsigned reps[4] = { 1, 1, 8, 64 }; unsigned r = reps[(fl >> 5) & 3];
    while (r-- && line.len + size <= 65536) if (!stralloc_catb(&line, data, size)) return 0; }
  if (token822_parse(&ta, &line, &tbuf) != 1) return 0;
  if (token822_addrlist(&taout, &taaddr, &ta, cb) != 1) return 0;
  if (token822_unparse(&outsa, &taout, linelens[(fl >> 3) & 3]) != 1) return 0;
  c20_write(-1, outsa.s, outsa.len);
  return 0;
}
