/* qmail-remote.c as a library for C17: only addrmangle() is used (globals localised by objcopy --localize-hidden). */
#include <unistd.h>
#include <setjmp.h>
#include <string.h>
#include <stdlib.h>
#define VQ_API __attribute__((visibility("default")))
static jmp_buf rm17_jmp; static int rm17_code;
static __attribute__((noreturn)) void rm17_exit(int c) { rm17_code = c; longjmp(rm17_jmp, 1); }
#define _exit(x) rm17_exit(x)
#define main remote17_main
#include "qmail-remote.c"
#undef main
#undef _exit

ssize_t timeoutread(int t, int fd, char *buf, size_t len) { return 0; }
ssize_t timeoutwrite(int t, int fd, const void *buf, size_t len) { return len; }

static stralloc mangled17 = {0};
/* s = envelope address (NUL terminated); *out/*len = what qmail-remote puts between < and > */
VQ_API int vq17_addrmangle(char *s, char **out, size_t *len)
{
  if (setjmp(rm17_jmp)) { *out = 0; *len = 0; return -1 - rm17_code; }
  addrmangle(&mangled17, s);
  *out = mangled17.s; *len = mangled17.len;
  return 1;
}
