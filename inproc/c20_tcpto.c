/* C20 target tcpto: tcpto() / tcpto_err() / tcpto_clean() on a generated queue/lock/tcpto table (the time-out table qmail-remote keeps
 * between runs: up to 64 records of 16 bytes; any content, any length 0..1100, may be found there).  The real file lives in the scratch
 * home, so open/lock/read/seek/write are the real ones.
 * input = op byte (bit 0: flagerr, bits 1-2: how many addresses are processed), 4-byte address, file bytes.  No exits (library code). */
#include "c20.h"
#include "tcpto.h"
#include "ip.h"
#include "byte.h"

int LLVMFuzzerInitialize(int *argc, char ***argv)
{
  c20_target = "tcpto";
  c20_mkhome(); c20_homedir("queue"); c20_homedir("queue/lock");
  c20_chdirhome();
  return 0;
}

int LLVMFuzzerTestOneInput(const uint8_t *data, size_t size)
{
  struct ip_address ip; unsigned op, i, n; char p[600];
  if (size < 5) return 0;
  op = data[0]; byte_copy(ip.d, 4, (char *)data + 1); data += 5; size -= 5;
  if (size > 1100) size = 1100;
  { /* the table is written only by qmail-remote itself (failure count capped at 10) and zeroed by qmail-tcpok / qmail-rspawn: the count byte
       of every record is brought into 0..10, everything else (addresses, times, padding, file length) stays as generated.  A count byte
       with the top bit set makes the unchanged code shift a negative value (tcpto.c "record[4] << 10", undefined but harmless): not a
       state the package can produce, hence outside the domain */
    static uint8_t tab[1100]; size_t j;
    memcpy(tab, data, size);
    for (j = 4; j < size; j += 16) tab[j] %= 11;
    data = tab;
  }
  snprintf(p, sizeof p, "%s/queue/lock/tcpto", c20_home);
  c20_writefile(p, data, size, 0644);
  n = 1 + ((op >> 1) & 3);
  for (i = 0; i < n; ++i) {
    (void)tcpto(&ip);
    tcpto_err(&ip, (op ^ i) & 1);
    ip.d[3] += 1 + (op >> 3);                 /* next address: unknown to the table or not, as the bytes decide */
  }
  if (op & 0x80) tcpto_clean();
  return 0;
}
