/* C10 volume harness: qmail-send.c's getcontrols()/rewrite()/senderadd() in-process.
 * stdin commands:  C <dir>            chdir to <dir> (a home with control/), free+reload all controls
 *                  R <hex recipient>  -> prints "<0|1|E> <hex rewritten>"   (channel 0 local, 1 remote)
 *                  S <hex sender> <hex recipient> -> prints "S <hex expanded sender>"
 */
#include <unistd.h>
#include <stdio.h>
#include <stdlib.h>
#include <string.h>
#define main send_main
#include "qmail-send.c"
#undef main

static int hexv(int c) { return c <= '9' ? c - '0' : (c | 32) - 'a' + 10; }
static size_t unhex(const char *h, char *out) { size_t n = 0; while (h[0] && h[1] && h[0] != ' ' && h[0] != '\n') { out[n++] = hexv(h[0]) * 16 + hexv(h[1]); h += 2; } out[n] = 0; return n; }
static void puthex(const char *s, size_t n) { size_t i; for (i = 0; i < n; ++i) printf("%02x", (unsigned char)s[i]); }

int main(void)
{
  static char line[70000], a[33000], b[33000];
  int loaded = 0;
  while (fgets(line, sizeof line, stdin)) {
    size_t l = strlen(line); if (l && line[l - 1] == '\n') line[--l] = 0;
    if (line[0] == 'C') {
      if (chdir(line + 2) == -1) { printf("ERR chdir\n"); continue; }
      /* every control is re-read from scratch, as at daemon start-up */
      locals.len = 0; vdoms.len = 0; percenthack.len = 0; envnoathost.len = 0;
      if (loaded) { constmap_free(&maplocals); constmap_free(&mapvdoms); constmap_free(&mappercenthack); }
      if (!getcontrols()) { printf("ERR controls\n"); loaded = 0; continue; }
      loaded = 1;
      printf("OK\n");
    } else if (line[0] == 'R') {
      int r; unhex(line + 2, a);
      r = rewrite(a);
      if (!r) { printf("E\n"); continue; }
      printf("%d ", r == 2 ? 1 : 0);
      /* rwline = "T" + address + NUL */
      puthex(rwline.s + 1, rwline.len >= 2 ? rwline.len - 2 : 0); printf("\n");
    } else if (line[0] == 'S') {
      static stralloc sa = {0}; char *sp = strchr(line + 2, ' ');
      unhex(line + 2, a); unhex(sp ? sp + 1 : "", b);
      sa.len = 0; if (!stralloc_copys(&sa, "")) { printf("E\n"); continue; }
      senderadd(&sa, a, b);
      printf("S "); puthex(sa.s, sa.len); printf("\n");
    }
    fflush(stdout);
  }
  return 0;
}
