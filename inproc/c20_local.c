/* C20 target local: the whole main() of qmail-local.c in -n mode (argument handling, environment, qmesearch, the .qmail
 * parser) on a generated .qmail file in a scratch home, and bouncexf() + gfrom() on a generated message.
 * input = flags byte, NUL-terminated local, ext, host, sender, aliasempty, then the .qmail bytes (mode A)
 *         flags byte, NUL-terminated recipient, then the message (mode B: bouncexf).
 * Documented exits: 0, 100, 111. */
#include "c20.h"
#include "c20_qq.h"
#include "sig.h"
#include "env.h"
#include "subfd.h"
#include "subgetopt.h"
#define sig_pipeignore() ((void)0)
#define sig_alarmcatch(f) ((void)0)
#define main local_main
#include "qmail-local.c"
#undef main

static substdio c20_ssout, c20_sserr; static char c20_outbuf[256], c20_errbuf[256];
static char homedir_[400], qfile[500]; static char *origenv[] = { "PATH=/bin:/usr/bin", 0 };
extern char **environ;

int LLVMFuzzerInitialize(int *argc, char ***argv)
{
  c20_target = "local";
  c20_mkhome(); c20_homedir("h");
  snprintf(homedir_, sizeof homedir_, "%s/h", c20_home);
  subfdoutsmall = &c20_ssout; subfderr = &c20_sserr;
  environ = origenv;
  return 0;
}

static const int ok_exits[] = { 0, 100, 111, -1 };

static void mode_b(const uint8_t *msg, size_t n)
{
  size_t i, st;
  bouncexf();
  for (i = 0, st = 0; i <= n; ++i) if (i == n || msg[i] == '\n') { char *l = c20_cstr(msg + st, i - st); c20_sunk += gfrom(l, (int)(i - st)); free(l); st = i + 1; }
}

int LLVMFuzzerTestOneInput(const uint8_t *data, size_t size)
{
  unsigned fl; char *f[5]; int nf, i, ac = 0; char *av[12]; const uint8_t *rest; size_t nrest; static const char *fb[5] = { "user-ext", "ext", "example.org", "s@x", "./Mailbox" };
  if (size < 1) return 0;
  fl = data[0]; ++data; --size;
  if (env_isinit) { env_clear(); free(environ); environ = origenv; env_isinit = 0; }
  SA_FREE(safeext); SA_FREE(ufline); SA_FREE(rpline); SA_FREE(envrecip); SA_FREE(dtline); SA_FREE(qme); SA_FREE(ueo); SA_FREE(cmds);
  SA_FREE(messline); SA_FREE(foo);
  count_file = count_forward = count_program = 0; mailforward_qp = 0; flag99 = 0; flagdoit = 0;
  subgetoptind = 1; subgetoptpos = 0;
  SS_INIT(c20_ssout, c20_write, 1, c20_outbuf); SS_INIT(c20_sserr, c20_write, 2, c20_errbuf);
  if (fl & 1) {                                       /* mode B: bouncexf() reads the message from fd 0 */
    int fd;
    nf = c20_fields(data, size, f, 1, &rest, &nrest);
    if (!stralloc_copys(&dtline, "Delivered-To: ") || !stralloc_cats(&dtline, nf ? f[0] : "") || !stralloc_cats(&dtline, "\n")) return 0;
    fd = c20_memfile(rest, nrest);
    if (dup2(fd, 0) == -1) { perror("C20-HARNESS: dup2"); _Exit(97); }
    close(fd);
    C20_CALL(mode_b(rest, nrest));
    c20_check_exit(ok_exits);
    for (i = 0; i < nf; ++i) free(f[i]);
    return 0;
  }
  nf = c20_fields(data, size, f, 5, &rest, &nrest);
  for (i = nf; i < 5; ++i) f[i] = c20_cstr((const uint8_t *)fb[i], strlen(fb[i]));
  snprintf(qfile, sizeof qfile, "%s/.qmail", homedir_); unlink(qfile);
  snprintf(qfile, sizeof qfile, "%s/.qmail-default", homedir_); unlink(qfile);
  snprintf(qfile, sizeof qfile, "%s/.qmail%s", homedir_, (fl & 2) ? "-default" : "");
  if (!(fl & 4)) c20_writefile(qfile, rest, nrest, (fl & 8) ? 0700 : 0600);
  av[ac++] = "qmail-local"; av[ac++] = "-n"; av[ac++] = "user"; av[ac++] = homedir_;
  av[ac++] = f[0]; av[ac++] = (fl & 2) ? "-" : ""; av[ac++] = f[1]; av[ac++] = f[2]; av[ac++] = f[3]; av[ac++] = f[4]; av[ac] = 0;
  C20_CALL(local_main(ac, av));
  c20_check_exit(ok_exits);
  for (i = 0; i < 5; ++i) free(f[i]);
  return 0;
}
