/* C15 layer 1: qmail-send.c's squareroot() and nextretry() against their definitions.
 *   squareroot(x): r*r <= x < (r+1)*(r+1), evaluated in 128-bit integers, for x in [0, 2^32)
 *   nextretry(birth, chan) with the global `recent` (= the daemon's "now") set by the harness:
 *       birth + (floor(sqrt(max(recent - birth, 0))) + (chan == 0 ? 10 : 20))^2     and   > recent
 *     (property text; chan 0 = local, 1 = remote).  The reference square root is a 128-bit binary search.
 *
 *   --sqrt-range <lo> <hi>                every x in [lo, hi)
 *   --sqrt-near  <shard> <nshards>        every x with |x - k*k| <= 2, k <= 65536, x < 2^32
 *   --sqrt-rand  <seed> <count>
 *   --nextretry  <seed> <count> <shard> <nshards>     dense grid (sharded) + <count> random triples
 *   --replay <file>                       "sqrt x=<x>" | "nextretry birth=<b> now=<n> chan=<c>"
 */
#include "vf.h"
static __attribute__((noreturn)) void c15_exit(int c) { fflush(0); _Exit(c); }
#define _exit(x) c15_exit(x)
#define main qsend_main
#include "qmail-send.c"
#undef main
#undef _exit

typedef unsigned __int128 u128;
typedef __int128 i128;
static char failmsg[400];

static int check_sqrt(unsigned long long x)
{
  datetime_sec r = squareroot((datetime_sec)x);
  ++vf_evals;
  if (r < 0) { snprintf(failmsg, sizeof failmsg, "squareroot(%llu) = %ld is negative", x, (long)r); return 0; }
  if ((u128)r * (u128)r > (u128)x) { snprintf(failmsg, sizeof failmsg, "squareroot(%llu) = %ld: result^2 > x", x, (long)r); return 0; }
  if (((u128)r + 1) * ((u128)r + 1) <= (u128)x) { snprintf(failmsg, sizeof failmsg, "squareroot(%llu) = %ld: (result+1)^2 <= x", x, (long)r); return 0; }
  return 1;
}

static unsigned long long ref_isqrt(unsigned long long a)
{
  unsigned long long lo = 0, hi = 4294967296ULL;     /* lo^2 <= a < hi^2 */
  while (hi - lo > 1) { unsigned long long mid = lo + (hi - lo) / 2; if ((u128)mid * mid <= (u128)a) lo = mid; else hi = mid; }
  return lo;
}

static int check_nextretry(long birth, long nowv, int chan)
{
  long res; i128 age = (i128)nowv - (i128)birth, want; unsigned long long a; u128 n;
  if (age >= ((i128)1 << 32)) return 1;      /* outside the property's quantifier (ages 0..2^32-1) */
  a = age < 0 ? 0 : (unsigned long long)age;
  recent = nowv;
  res = nextretry(birth, chan);
  ++vf_evals;
  n = (u128)ref_isqrt(a) + (chan == 0 ? 10 : 20);
  want = (i128)birth + (i128)(n * n);
  if (age < 0) ++vf_cls[0]; else if (a == ref_isqrt(a) * ref_isqrt(a)) ++vf_cls[1]; else ++vf_cls[2];
  ++vf_cls[3 + (chan != 0)];
  if ((i128)res != want) {
    snprintf(failmsg, sizeof failmsg, "nextretry(birth=%ld, chan=%d) at now=%ld (age %lld) = %ld, documented birth + (floor(sqrt(age)) + %d)^2 = %lld",
             birth, chan, nowv, (long long)age, res, chan == 0 ? 10 : 20, (long long)want);
    return 0;
  }
  if (res <= nowv) { snprintf(failmsg, sizeof failmsg, "nextretry(birth=%ld, chan=%d) at now=%ld = %ld is not in the future", birth, chan, nowv, res); return 0; }
  return 1;
}

static int fail_sqrt(unsigned long long x) { printf("VIOLATION-CASE sqrt x=%llu msg=%s\n", x, failmsg); vf_dump_stats(stdout); return 1; }
static int fail_nr(long b, long n, int c) { printf("VIOLATION-CASE nextretry birth=%ld now=%ld chan=%d msg=%s\n", b, n, c, failmsg); vf_dump_stats(stdout); return 1; }

int main(int argc, char **argv)
{
  if (argc >= 4 && !strcmp(argv[1], "--sqrt-range")) {
    unsigned long long lo = strtoull(argv[2], 0, 10), hi = strtoull(argv[3], 0, 10), x;
    vf_clsname[0] = "sqrt_exhaustive_range";
    for (x = lo; x < hi; ++x) if (!check_sqrt(x)) return fail_sqrt(x);
    vf_cls[0] = vf_nontrivial = hi - lo;
    vf_dump_stats(stdout);
    return 0;
  }
  if (argc >= 4 && !strcmp(argv[1], "--sqrt-near")) {
    unsigned long long k; int shard = atoi(argv[2]), nsh = atoi(argv[3]), d;
    vf_clsname[0] = "sqrt_near_square";
    for (k = 0; k <= 65536; ++k) if ((int)(k % nsh) == shard)
      for (d = -2; d <= 2; ++d) {
        long long x = (long long)(k * k) + d;
        if (x < 0 || x >= 4294967296LL) continue;
        if (k >= 2 || d >= 0) { if (!check_sqrt((unsigned long long)x)) return fail_sqrt((unsigned long long)x); ++vf_cls[0]; ++vf_nontrivial; }
      }
    vf_dump_stats(stdout);
    return 0;
  }
  if (argc >= 4 && !strcmp(argv[1], "--sqrt-rand")) {
    unsigned long long cnt = strtoull(argv[3], 0, 10), c;
    vf_clsname[0] = "sqrt_random";
    vf_rng_state = strtoull(argv[2], 0, 10);
    for (c = 0; c < cnt; ++c) {
      uint64_t r = vf_rand(); unsigned long long x = (r >> 60) < 4 ? (r & 0xffffffffULL) >> ((r >> 40) % 32) : r & 0xffffffffULL;
      if (!check_sqrt(x)) return fail_sqrt(x);
    }
    vf_cls[0] = vf_nontrivial = cnt;      /* draws from 2^32 values; collisions are negligible (< 0.2 %) */
    vf_dump_stats(stdout);
    return 0;
  }
  if (argc >= 6 && !strcmp(argv[1], "--nextretry")) {
    static const long NOWS[] = { 0, 1, 1000000000L, 2147483647L, 2147483648L, 4294967296L, 1790000000L, 4102444800L, 9999999999L };
    static const long BIRTHS[] = { 0, 1, 1000000000L, 2147483647L, 4294967296L, -1, -86400 };
    unsigned long long cnt = strtoull(argv[3], 0, 10), c; int shard = atoi(argv[4]), nsh = atoi(argv[5]); long k; unsigned i; int chan, d;
    long extra[] = { 604799, 604800, 604801, 0, 1, 2, 3, 4, 5, -1, -2, -3, -4, -5, 4294967295L, 4294967294L, 2147483647L, 2147483648L, 59, 60, 61, 3599, 3600, 3601, -604800, -4294967296L };
    vf_clsname[0] = "birth_in_future"; vf_clsname[1] = "age_perfect_square"; vf_clsname[2] = "age_other"; vf_clsname[3] = "local"; vf_clsname[4] = "remote";
    for (chan = 0; chan < 2; ++chan) {
      for (k = 0; k <= 65535; ++k) if ((int)(k % nsh) == shard)
        for (d = -1; d <= 1; ++d) {
          long age = k * k + d;
          if (age >= 4294967296L) continue;
          for (i = 0; i < sizeof NOWS / sizeof NOWS[0]; ++i) if (!check_nextretry(NOWS[i] - age, NOWS[i], chan)) return fail_nr(NOWS[i] - age, NOWS[i], chan);
          for (i = 0; i < sizeof BIRTHS / sizeof BIRTHS[0]; ++i) if (!check_nextretry(BIRTHS[i], BIRTHS[i] + age, chan)) return fail_nr(BIRTHS[i], BIRTHS[i] + age, chan);
        }
      if (shard == 0)
        for (k = 0; k < (long)(sizeof extra / sizeof extra[0]); ++k) {
          long age = extra[k];
          for (i = 0; i < sizeof NOWS / sizeof NOWS[0]; ++i) if (!check_nextretry(NOWS[i] - age, NOWS[i], chan)) return fail_nr(NOWS[i] - age, NOWS[i], chan);
          for (i = 0; i < sizeof BIRTHS / sizeof BIRTHS[0]; ++i) if (!check_nextretry(BIRTHS[i], BIRTHS[i] + age, chan)) return fail_nr(BIRTHS[i], BIRTHS[i] + age, chan);
        }
    }
    vf_rng_state = strtoull(argv[2], 0, 10);
    for (c = 0; c < cnt; ++c) {
      uint64_t r = vf_rand(), r2 = vf_rand(); long nowv = (long)(r2 % 8000000000ULL), age;
      switch (r % 4) {
        case 0: age = (long)((r >> 8) & 0xffffffffULL); break;
        case 1: age = (long)((r >> 8) % 1300000); break;                              /* around two queue lifetimes */
        case 2: { long q = (long)((r >> 8) % 65536); age = q * q + (long)((r >> 40) % 5) - 2; break; }
        default: age = -(long)((r >> 8) % 100000);
      }
      if (age >= 4294967296L) age = 4294967295L;
      chan = (int)((r >> 50) & 1);
      if (!check_nextretry(nowv - age, nowv, chan)) return fail_nr(nowv - age, nowv, chan);
    }
    vf_nontrivial = vf_evals;      /* grid points are distinct by construction; random triples collide with negligible probability */
    vf_dump_stats(stdout);
    return 0;
  }
  if (argc >= 3 && !strcmp(argv[1], "--replay")) {
    FILE *f = fopen(argv[2], "r"); char line[512]; unsigned long long x; long b, n; int c;
    if (!f || !fgets(line, sizeof line, f)) { perror("replay file"); return 2; }
    fclose(f);
    if (sscanf(line, "sqrt x=%llu", &x) == 1) { if (!check_sqrt(x)) return fail_sqrt(x); printf("replay ok\n"); return 0; }
    if (sscanf(line, "nextretry birth=%ld now=%ld chan=%d", &b, &n, &c) == 3) { if (!check_nextretry(b, n, c)) return fail_nr(b, n, c); printf("replay ok\n"); return 0; }
    return 2;
  }
  fprintf(stderr, "usage: see the header comment\n");
  return 2;
}
