/* C20 target pop3d: qmail-pop3d.c getlist() + commands() loop + handlers (msgno, LIST/UIDL/TOP/RETR blast, DELE/RSET/QUIT)
 * over a small maildir in the scratch home; message 1 is rewritten from the input at every iteration; unlink/rename of
 * the QUIT handler are recorded, not performed (the maildir stays the same for every iteration).
 * input = flags byte, message length byte (x4), message bytes, then the raw POP3 client bytes.  Documented exits: 0 (1 = invoked as root, not reachable here). */
#include "c20.h"
static int c20_unlink(const char *fn) { c20_sinkstr(fn); return 0; }
static int c20_rename(const char *a, const char *b) { c20_sinkstr(a); c20_sinkstr(b); return 0; }
#include "sig.h"
#define sig_alarmcatch(f) ((void)0)
#define sig_pipeignore() ((void)0)
#define unlink c20_unlink
#define rename c20_rename
#define puts pop3d_puts
#define main pop3d_main
#include "qmail-pop3d.c"
#undef main
#undef unlink
#undef rename
#include "commands.c"

ssize_t timeoutread(int t, int fd, char *buf, size_t len) { return c20_read(fd, buf, len); }
ssize_t timeoutwrite(int t, int fd, const void *buf, size_t len) { return c20_write(fd, buf, len); }

static char msg1[500];

int LLVMFuzzerInitialize(int *argc, char ***argv)
{
  c20_target = "pop3d";
  c20_mkhome(); c20_homedir("Maildir"); c20_homedir("Maildir/new"); c20_homedir("Maildir/cur"); c20_homedir("Maildir/tmp");
  c20_homefile("Maildir/new/1000000000.1.host", "Subject: new\n\n.dot line\nlast line without newline");
  c20_homefile("Maildir/cur/1000000002.3.host:2,S", "Subject: cur\n\nbody\n");
  snprintf(msg1, sizeof msg1, "%s/Maildir/cur/1000000001.2.host:2,", c20_home);
  return 0;
}

static const int ok_exits[] = { 0, 1, -1 };
static const size_t chunks[4] = { 0, 1, 5, 60 };

static void session(void)
{
  getlist();
  okay(0);
  commands(&ssin, pop3commands);
  die();
}

int LLVMFuzzerTestOneInput(const uint8_t *data, size_t size)
{
  unsigned fl; size_t ml; char md[400];
  if (size < 2) return 0;
  fl = data[0]; ml = (size_t)data[1] * 4; data += 2; size -= 2; if (ml > size) ml = size;
  c20_writefile(msg1, data, ml, 0600); data += ml; size -= ml;
  SA_FREE(line); SA_FREE(filenames); SA_FREE(cmd);
  if (pq.p) free(pq.p); pq.p = 0; pq.len = 0; pq.a = 0;
  if (m) free(m); m = 0; numm = 0; last = 0;
  SS_INIT(ssin, saferead, 0, ssinbuf); SS_INIT(ssout, safewrite, 1, ssoutbuf); SS_INIT(sserr, safewrite, 2, sserrbuf);
  snprintf(md, sizeof md, "%s/Maildir", c20_home);
  if (chdir(md) == -1) { perror("C20-HARNESS: chdir Maildir"); _Exit(97); }
  c20_setin(data, size, chunks[(fl >> 6) & 3]);
  C20_CALL(session());
  c20_check_exit(ok_exits);
  return 0;
}
