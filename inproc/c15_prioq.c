/* C15 layer 2: prioq.c against a sorted multiset.  prioq.c is #included so that its allocator calls
 * (alloc() == malloc() for the first element, realloc() afterwards - gen_allocdefs.h) go through a
 * failing allocator chosen by the case.
 *
 * After EVERY step: sizes agree; heap order holds for every parent/child pair; the multiset of (dt,id) in the
 * heap array equals the model; prioq_min returns 0 on an empty queue, otherwise an element whose dt is the model's
 * minimum and whose (dt,id) is in the model; prioq_delmin removes exactly the element prioq_min just returned;
 * prioq_insert returns 1, or 0 with the queue unchanged when (and only when) the allocator refused.
 *
 *   --enum <maxlen> <shard> <nshards>     ALL sequences over {insert 0..3, delmin} up to maxlen, x {no failure, 1st, 2nd allocator call fails}
 *   --rand <seed> <count> <maxlen>
 *   --replay <file>                       "prioq fail=<k> ops=i<dt>,d,i<dt>,..."   (fail = index of the allocator call that fails, -1 none)
 */
#include "vf.h"
#include <limits.h>

static long alloc_calls, fail_at = -1, alloc_refused;
static void *c15_malloc(size_t n) { if (alloc_calls++ == fail_at) { ++alloc_refused; return 0; } return malloc(n); }
static void *c15_realloc(void *p, size_t n) { if (alloc_calls++ == fail_at) { ++alloc_refused; return 0; } return realloc(p, n); }
#define malloc(n) c15_malloc(n)
#define realloc(p, n) c15_realloc(p, n)
#include "prioq.c"
#undef malloc
#undef realloc

#define MAXN 4096
typedef struct { long dt; unsigned long id; } elt;
static elt model[MAXN + 8], tmp[MAXN + 8]; static int msz;
static char failmsg[400];

/* the case being executed (for the report) */
static long ops_dt[MAXN * 2 + 8]; static char ops_k[MAXN * 2 + 8]; static int nops; static long case_fail;

static int elt_cmp(const void *a, const void *b)
{
  const elt *x = a, *y = b;
  if (x->dt != y->dt) return x->dt < y->dt ? -1 : 1;
  if (x->id != y->id) return x->id < y->id ? -1 : 1;
  return 0;
}
static void model_insert(long dt, unsigned long id)
{
  int i = msz;
  while (i > 0 && (model[i - 1].dt > dt || (model[i - 1].dt == dt && model[i - 1].id > id))) { model[i] = model[i - 1]; --i; }
  model[i].dt = dt; model[i].id = id; ++msz;
}
static int model_remove(long dt, unsigned long id)
{
  int i;
  for (i = 0; i < msz; ++i) if (model[i].dt == dt && model[i].id == id) { memmove(model + i, model + i + 1, (msz - i - 1) * sizeof(elt)); --msz; return 1; }
  return 0;
}

static int check_state(prioq *pq, const char *after)
{
  int i; struct prioq_elt pe; int r;
  if ((int)pq->len != msz) { snprintf(failmsg, sizeof failmsg, "after %s: queue holds %u elements, model %d", after, pq->len, msz); return 0; }
  for (i = 1; i < msz; ++i)
    if (pq->p[(i - 1) / 2].dt > pq->p[i].dt) { snprintf(failmsg, sizeof failmsg, "after %s: heap order broken: parent[%d].dt=%ld > child[%d].dt=%ld", after, (i - 1) / 2, (long)pq->p[(i - 1) / 2].dt, i, (long)pq->p[i].dt); return 0; }
  for (i = 0; i < msz; ++i) { tmp[i].dt = pq->p[i].dt; tmp[i].id = pq->p[i].id; }
  qsort(tmp, msz, sizeof(elt), elt_cmp);
  for (i = 0; i < msz; ++i)
    if (tmp[i].dt != model[i].dt || tmp[i].id != model[i].id) { snprintf(failmsg, sizeof failmsg, "after %s: heap content differs from the model at sorted position %d: heap (%ld,%lu), model (%ld,%lu) - an element was lost, duplicated or invented", after, i, tmp[i].dt, tmp[i].id, model[i].dt, model[i].id); return 0; }
  pe.dt = -777; pe.id = 777777;
  r = prioq_min(pq, &pe);
  if (msz == 0) { if (r != 0) { snprintf(failmsg, sizeof failmsg, "after %s: prioq_min returned %d on an empty queue", after, r); return 0; } return 1; }
  if (r != 1) { snprintf(failmsg, sizeof failmsg, "after %s: prioq_min returned %d on a queue of %d", after, r, msz); return 0; }
  if (pe.dt != model[0].dt) { snprintf(failmsg, sizeof failmsg, "after %s: prioq_min gives dt=%ld, the minimum is %ld", after, (long)pe.dt, model[0].dt); return 0; }
  for (i = 0; i < msz && model[i].dt == pe.dt; ++i) if (model[i].id == pe.id) return 1;
  snprintf(failmsg, sizeof failmsg, "after %s: prioq_min gives (%ld,%lu) which was never inserted", after, (long)pe.dt, pe.id);
  return 0;
}

static void print_case(void)
{
  int i;
  printf("prioq fail=%ld ops=", case_fail);
  for (i = 0; i < nops; ++i) { if (i) putchar(','); if (ops_k[i] == 'i') printf("i%ld", ops_dt[i]); else putchar('d'); }
}

/* execute ops[0..n); returns 1 ok / 0 violation */
static int run_ops(int n, long fail)
{
  prioq pq = {0}; int i, ok = 1; unsigned long nextid = 1; char what[64]; int maxsz = 0, refused = 0, ties = 0;
  msz = 0; alloc_calls = 0; alloc_refused = 0; fail_at = fail; case_fail = fail; nops = n;
  ++vf_evals;
  for (i = 0; i < n && ok; ++i) {
    if (ops_k[i] == 'i') {
      struct prioq_elt pe; int r; long before = alloc_refused; int j;
      pe.dt = ops_dt[i]; pe.id = nextid;
      for (j = 0; j < msz && !ties; ++j) if (model[j].dt == pe.dt) ties = 1;
      r = prioq_insert(&pq, &pe);
      snprintf(what, sizeof what, "step %d insert(%ld)", i, ops_dt[i]);
      if (alloc_refused != before) {
        refused = 1;
        if (r != 0) { snprintf(failmsg, sizeof failmsg, "%s: the allocator refused but prioq_insert returned %d", what, r); ok = 0; break; }
      } else {
        if (r != 1) { snprintf(failmsg, sizeof failmsg, "%s: prioq_insert returned %d without an allocation failure", what, r); ok = 0; break; }
        if (msz >= MAXN) break;
        model_insert(pe.dt, pe.id); ++nextid;
      }
    } else {
      struct prioq_elt pe;
      snprintf(what, sizeof what, "step %d delmin", i);
      if (msz > 0) {
        if (!prioq_min(&pq, &pe)) { snprintf(failmsg, sizeof failmsg, "%s: prioq_min failed on a non-empty queue", what); ok = 0; break; }
        prioq_delmin(&pq);
        if (!model_remove(pe.dt, pe.id)) { snprintf(failmsg, sizeof failmsg, "%s: removed (%ld,%lu) which is not in the model", what, (long)pe.dt, pe.id); ok = 0; break; }
      } else prioq_delmin(&pq);
    }
    if (msz > maxsz) maxsz = msz;
    ok = check_state(&pq, what);
  }
  if (ok) {
    /* drain: everything comes out in non-decreasing order */
    long last = LONG_MIN; struct prioq_elt pe;
    while (ok && msz > 0) {
      if (!prioq_min(&pq, &pe)) { snprintf(failmsg, sizeof failmsg, "drain: prioq_min failed with %d left", msz); ok = 0; break; }
      if (pe.dt < last) { snprintf(failmsg, sizeof failmsg, "drain: %ld came out after %ld", (long)pe.dt, last); ok = 0; break; }
      last = pe.dt; prioq_delmin(&pq);
      if (!model_remove(pe.dt, pe.id)) { snprintf(failmsg, sizeof failmsg, "drain: removed (%ld,%lu) which is not in the model", (long)pe.dt, pe.id); ok = 0; break; }
      if ((msz & 15) == 0 || msz < 12) ok = check_state(&pq, "drain");
    }
  }
  fail_at = -1;
  if (pq.p) free(pq.p);
  if (n >= 2) ++vf_nontrivial;
  if (ties) ++vf_cls[0];
  if (refused) ++vf_cls[1];
  if (maxsz > 102) ++vf_cls[2];
  if (!ok) { printf("VIOLATION-CASE "); print_case(); printf(" msg=%s\n", failmsg); vf_dump_stats(stdout); }
  return ok;
}

int main(int argc, char **argv)
{
  vf_clsname[0] = "ties"; vf_clsname[1] = "allocation_refused";
  if (argc >= 2 && !strcmp(argv[1], "--rand")) {
    vf_clsname[2] = "grew_past_102"; vf_clsname[3] = "family_small_range";
    vf_clsname[4] = "family_full_range"; vf_clsname[5] = "family_monotone"; vf_clsname[6] = "family_reverse"; vf_clsname[7] = "family_clock";
  }
  if (argc >= 5 && !strcmp(argv[1], "--enum")) {
    int maxlen = atoi(argv[2]), shard = atoi(argv[3]), nsh = atoi(argv[4]), len, i, idx[32]; unsigned long long no = 0;
    for (len = 0; len <= maxlen; ++len) {
      memset(idx, 0, sizeof idx);
      for (;;) {
        if ((int)(no++ % nsh) == shard) {
          int nins = 0; long f;
          for (i = 0; i < len; ++i) { if (idx[i] < 4) { ops_k[i] = 'i'; ops_dt[i] = idx[i]; ++nins; } else ops_k[i] = 'd'; }
          for (f = -1; f <= 1; ++f) {
            if (f >= 0 && nins <= f) continue;     /* fewer inserts than allocator calls needed to reach the failure */
            if (!run_ops(len, f)) return 1;
          }
        }
        for (i = len - 1; i >= 0; --i) { if (++idx[i] < 5) break; idx[i] = 0; }
        if (i < 0) break;
      }
    }
    vf_dump_stats(stdout);
    return 0;
  }
  if (argc >= 5 && !strcmp(argv[1], "--rand")) {
    unsigned long long cnt = strtoull(argv[3], 0, 10), c; int maxlen = atoi(argv[4]);
    if (maxlen > MAXN) maxlen = MAXN;
    for (c = 0; c < cnt; ++c) {
      uint64_t r; int fam, n, i, pins; long mono, f;
      vf_rng_state = strtoull(argv[2], 0, 10) * 0x9E3779B97F4A7C15ULL + c * 1000003ULL; r = vf_rand();
      fam = (int)(r % 5); n = 1 + (int)((r >> 8) % maxlen); pins = 50 + (int)((r >> 24) % 40); mono = (long)((r >> 32) % 1000) - 500;
      ++vf_cls[3 + fam];
      for (i = 0; i < n; ++i) {
        uint64_t x = vf_rand();
        if ((int)(x % 100) >= pins) { ops_k[i] = 'd'; continue; }
        ops_k[i] = 'i';
        switch (fam) {
          case 0: ops_dt[i] = (long)((x >> 8) % ((r >> 40) % 2 ? 4 : 16)); break;
          case 1: ops_dt[i] = (x >> 8) % 16 == 0 ? ((x >> 12) & 1 ? LONG_MAX : LONG_MIN) + (long)((x >> 13) % 3) * ((x >> 12) & 1 ? -1 : 1) : (long)vf_rand(); break;
          case 2: mono += (long)((x >> 8) % 3); ops_dt[i] = mono; break;
          case 3: mono -= (long)((x >> 8) % 3); ops_dt[i] = mono; break;
          default: ops_dt[i] = 1790000000L + i + (long)((x >> 8) % 4000) * (long)((x >> 8) % 4000) / 1000; break;   /* now + quadratic back-off */
        }
      }
      f = (r >> 50) % 2 ? (long)((r >> 52) % 5) : -1;
      if (!run_ops(n, f)) return 1;
    }
    vf_dump_stats(stdout);
    return 0;
  }
  if (argc >= 3 && !strcmp(argv[1], "--replay")) {
    FILE *fp = fopen(argv[2], "r"); static char line[1 << 20]; char *p; long f = -1; int n = 0;
    if (!fp || !fgets(line, sizeof line, fp)) { perror("replay file"); return 2; }
    fclose(fp);
    if (sscanf(line, "prioq fail=%ld", &f) != 1 || !(p = strstr(line, "ops="))) return 2;
    p += 4;
    while (*p && *p != ' ' && *p != '\n' && n < MAXN) {
      if (*p == 'i') { ops_k[n] = 'i'; ops_dt[n] = strtol(p + 1, &p, 10); ++n; }
      else if (*p == 'd') { ops_k[n++] = 'd'; ++p; }
      else break;
      if (*p == ',') ++p;
    }
    if (!run_ops(n, f)) return 1;
    printf("replay ok\n");
    return 0;
  }
  fprintf(stderr, "usage: see the header comment\n");
  return 2;
}
