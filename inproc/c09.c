/* C09 harness: qmail-remote's smtp() against every scripted server behaviour, and qmail-rspawn's report()
 * against every (wait status, output) combination.  The oracles are written from the property text and
 * qmail-remote.8 (see props/c09.py for the clause list); they never look at the implementation's state.
 *
 *   --enum-smtp <nmin> <nmax> <reps> <seed> <shard> <nshards>     exhaustive class structure for n = nmin..nmax recipients
 *   --rand-smtp <seed> <count>
 *   --enum-report <maxrec> <reps> <seed> <shard> <nshards>
 *   --rand-report <seed> <count>
 *   --replay <file>          file = one case line as printed after VIOLATION-CASE ("smtp ..." / "report ...")
 */
#include "vf.h"
#include <ctype.h>

enum { C9_RETURNED = 0, C9_CRITICAL, C9_STALLS, C9_NREADS, C9_NWRITES, C9_WFAIL_HIT, C9_WFAIL_OFF, C9_WFAIL_LEN,
       C9_UNITS, C9_PHASE_AT_EXIT, C9_BADARGS, C9_NINFO };
#define C9_MAXPH 10

extern int vq_c09_smtp(int nrcpt, const char *const *recips, const char *sndr, const char *helo,
                       const unsigned char *body, size_t nbody, size_t bodymax,
                       int nph, const unsigned char *const *phdata, const size_t *phlen, const int *phend,
                       const size_t *chunks, size_t nchunks,
                       int wfail_phase, long wfail_k, int wfail_ret, size_t wmax,
                       unsigned char **report, size_t *nreport, unsigned char **sent, size_t *nsent,
                       long *info, long *wcount);
extern void vq_c09_report(int wstat, char *s, int len, unsigned char **outp, size_t *nout);

/* ------------------------------------------------------------------ cases */
#define MAXPH 8
#define MAXCHUNKS 64
enum { T_GREET = 0, T_HELO, T_MAIL, T_RCPT, T_DATA, T_DOT };
typedef struct { int kind; /* 0 reply, 1 connection closed (EOF), 2 read error / stall */ int code; vbuf data; } phase_t;
typedef struct {
  int n, nph;
  phase_t ph[MAXPH];
  size_t chunks[MAXCHUNKS]; size_t nchunks;
  int wf_phase; long wf_k; int wf_ret; size_t wmax;
  char sender[64];
  vbuf body; size_t bodymax;
} case_t;

static case_t C;
static const char *RECIPS[3] = { "r1@dst.example", "r2@dst.example", "r3@dst.example" };
static const char *HELO = "client.example";
static char failmsg[700];

static int ptype(int p, int n) { return p <= 2 ? p : p < 3 + n ? T_RCPT : p == 3 + n ? T_DATA : T_DOT; }

enum { CL_K = 0, CL_Z, CL_D, CL_DISC_READ, CL_DISC_AFTER_DOT, CL_WFAIL, CL_WFAIL_QUIT, CL_MULTILINE, CL_RCPT_R, CL_RCPT_S, CL_RCPT_H,
       CL_OPEN, CL_HUGE, CL_CHUNKED, CL_N1, CL_N2, CL_N3, CL_GREET_FAIL, CL_HELO_FAIL, CL_ALL_REJ, CL_PARTIAL_DISC,
       CL_REPORT_CONF, CL_REPORT_ODD, CL_REPORT_STATUS };

static void init_names(int report)
{
  if (report) {
    vf_clsname[CL_REPORT_CONF] = "report_grammar_conforming"; vf_clsname[CL_REPORT_ODD] = "report_mutated_output"; vf_clsname[CL_REPORT_STATUS] = "report_bad_status";
    return;
  }
  vf_clsname[CL_K] = "verdict_K"; vf_clsname[CL_Z] = "verdict_Z"; vf_clsname[CL_D] = "verdict_D";
  vf_clsname[CL_DISC_READ] = "disconnect"; vf_clsname[CL_DISC_AFTER_DOT] = "disconnect_after_final_dot";
  vf_clsname[CL_WFAIL] = "write_failure"; vf_clsname[CL_WFAIL_QUIT] = "write_failure_at_QUIT";
  vf_clsname[CL_MULTILINE] = "multiline_reply"; vf_clsname[CL_RCPT_R] = "rcpt_r"; vf_clsname[CL_RCPT_S] = "rcpt_s"; vf_clsname[CL_RCPT_H] = "rcpt_h";
  vf_clsname[CL_OPEN] = "open_reply_class"; vf_clsname[CL_HUGE] = "huge_text"; vf_clsname[CL_CHUNKED] = "chunked_reads";
  vf_clsname[CL_N1] = "n1"; vf_clsname[CL_N2] = "n2"; vf_clsname[CL_N3] = "n3";
  vf_clsname[CL_GREET_FAIL] = "greeting_not_220"; vf_clsname[CL_HELO_FAIL] = "helo_not_250"; vf_clsname[CL_ALL_REJ] = "all_rcpt_rejected";
  vf_clsname[CL_PARTIAL_DISC] = "disconnect_inside_reply";
}

/* distinct non-trivial cases: open-addressing set of 64-bit hashes */
static uint64_t *hs; static size_t hs_cap, hs_n;
static void hs_add(uint64_t h)
{
  size_t i;
  if (!h) h = 1;
  if (hs_n * 2 >= hs_cap) {
    size_t ncap = hs_cap ? hs_cap * 2 : 1 << 16, j; uint64_t *nh = calloc(ncap, sizeof *nh);
    for (j = 0; j < hs_cap; ++j) if (hs[j]) { size_t k = hs[j] & (ncap - 1); while (nh[k]) k = (k + 1) & (ncap - 1); nh[k] = hs[j]; }
    free(hs); hs = nh; hs_cap = ncap;
  }
  i = h & (hs_cap - 1);
  while (hs[i]) { if (hs[i] == h) return; i = (i + 1) & (hs_cap - 1); }
  hs[i] = h; ++hs_n;
}
static uint64_t fnv(uint64_t h, const void *p, size_t n) { const unsigned char *s = p; size_t i; for (i = 0; i < n; ++i) { h ^= s[i]; h *= 0x100000001b3ULL; } return h; }
static uint64_t case_hash(const case_t *c)
{
  uint64_t h = 0xcbf29ce484222325ULL; int p;
  h = fnv(h, &c->n, sizeof c->n); h = fnv(h, &c->nph, sizeof c->nph);
  for (p = 0; p < c->nph; ++p) { h = fnv(h, &c->ph[p].kind, sizeof(int)); h = fnv(h, c->ph[p].data.s, c->ph[p].data.len); h = fnv(h, "|", 1); }
  h = fnv(h, c->chunks, c->nchunks * sizeof(size_t)); h = fnv(h, &c->wf_phase, sizeof(int)); h = fnv(h, &c->wf_k, sizeof(long));
  h = fnv(h, &c->wmax, sizeof(size_t)); h = fnv(h, c->sender, strlen(c->sender)); h = fnv(h, c->body.s, c->body.len);
  return h;
}

static void print_case(FILE *f, const case_t *c)
{
  int p; size_t i;
  fprintf(f, "smtp n=%d sender=", c->n); vf_hex(f, (const unsigned char *)c->sender, strlen(c->sender));
  fprintf(f, " body="); vf_hex(f, c->body.s, c->body.len);
  fprintf(f, " bodymax=%zu wf=%d:%ld:%d wmax=%zu chunks=", c->bodymax, c->wf_phase, c->wf_k, c->wf_ret, c->wmax);
  for (i = 0; i < c->nchunks; ++i) fprintf(f, "%s%zu", i ? "," : "", c->chunks[i]);
  fprintf(f, " ph=");
  for (p = 0; p < c->nph; ++p) { fprintf(f, "%s%d:%d:", p ? "/" : "", c->ph[p].kind, c->ph[p].code); vf_hex(f, c->ph[p].data.s, c->ph[p].data.len); }
}

/* ------------------------------------------------------------------ oracle for smtp() */
enum { I_OK = 0, I_TEMP, I_PERM, I_OPEN };
static int classify(int type, int code)
{
  switch (type) {
    case T_GREET: return code == 220 ? I_OK : I_TEMP;     /* "an unexpected greeting ... yields temporary failure" */
    case T_HELO: return code == 250 ? I_OK : I_TEMP;
    case T_DATA:
      if (code >= 300 && code <= 399) return I_OK;
      break;
    default:
      if (code >= 200 && code <= 299) return I_OK;
  }
  if (code >= 400 && code <= 499) return I_TEMP;
  if (code >= 500 && code <= 599) return I_PERM;
  return I_OPEN;    /* 1xx, 3xx where a final answer is expected, 2xx to DATA, 6xx..9xx: the documents say nothing */
}

typedef struct {
  char recs[4]; int nrecs;
  char verdict; int dup;          /* dup: 0 must not carry "Possible duplicate!", 1 must, 2 either */
  int altz;                       /* the QUIT write failed: Z (without the duplicate flag) is accepted as well */
  int quit_optional;              /* sent may or may not end with QUIT */
  int last_phase, used_open, wfail_phase_type;
  const char *why;
} expect_t;
static vbuf S;     /* expected bytes on the wire */
static size_t pay_a, pay_b;

static void enc_body(vbuf *o, const unsigned char *m, size_t n)
{
  size_t i = 0;
  while (i < n) {
    size_t j = i; while (j < n && m[j] != '\n') ++j;
    if (m[i] == '.') vb_putc(o, '.');
    vb_put(o, m + i, j - i); vb_put(o, "\r\n", 2);
    i = j + 1;
  }
  vb_put(o, ".\r\n", 3);
}

static void walk(const case_t *c, const int *interp, int wf_hit, size_t wf_off, size_t wf_len, expect_t *e)
{
  int p, nacc = 0; size_t a, b;
  memset(e, 0, sizeof *e); vb_reset(&S); pay_a = pay_b = 0; e->wfail_phase_type = -1;
  for (p = 0; p < c->n + 5; ++p) {
    int type = ptype(p, c->n), cl;
    e->last_phase = p;
    if (p >= 1) {
      a = S.len;
      switch (type) {
        case T_HELO: vb_put(&S, "HELO ", 5); vb_put(&S, HELO, strlen(HELO)); vb_put(&S, "\r\n", 2); break;
        case T_MAIL: vb_put(&S, "MAIL FROM:<", 11); vb_put(&S, c->sender, strlen(c->sender)); vb_put(&S, ">\r\n", 3); break;
        case T_RCPT: vb_put(&S, "RCPT TO:<", 9); vb_put(&S, RECIPS[p - 3], strlen(RECIPS[p - 3])); vb_put(&S, ">\r\n", 3); break;
        case T_DATA: vb_put(&S, "DATA\r\n", 6); break;
        case T_DOT: pay_a = S.len; enc_body(&S, c->body.s, c->body.len); pay_b = S.len; break;
      }
      b = S.len;
      if (wf_hit && wf_off >= a && wf_off < b) {
        /* the connection failed while this command was being written */
        S.len = wf_off; e->verdict = 'Z'; e->why = "write to the server failed (connection loss)"; e->wfail_phase_type = type;
        e->dup = 0;
        if (type == T_DOT && wf_off + wf_len + 3 >= pay_b) e->dup = 2;   /* the failing write carried (or directly preceded) the final dot */
        return;
      }
    }
    if (p >= c->nph || c->ph[p].kind != 0) {
      e->verdict = 'Z'; e->dup = type == T_DOT ? 1 : 0; e->why = type == T_DOT ? "connection lost after the final dot" : "connection lost";
      e->quit_optional = 1;
      return;
    }
    cl = classify(type, c->ph[p].code);
    if (cl == I_OPEN) { cl = interp[p]; e->used_open = 1; }
    if (type == T_RCPT) {
      e->recs[e->nrecs++] = cl == I_OK ? 'r' : cl == I_TEMP ? 's' : 'h';
      if (cl == I_OK) ++nacc;
      if (p == c->n + 2 && !nacc) { e->verdict = '!'; e->why = "no recipient was accepted"; goto quit; }   /* '!' = Z or D, never K */
      continue;
    }
    if (cl == I_OK) {
      if (type == T_DOT) { e->verdict = 'K'; e->why = "every phase succeeded"; goto quit; }
      continue;
    }
    e->verdict = cl == I_TEMP ? 'Z' : 'D';
    e->why = type == T_GREET ? "greeting is not 220" : type == T_HELO ? "HELO reply is not 250" : cl == I_TEMP ? "4xx reply" : "5xx reply";
    goto quit;
  }
quit:
  e->dup = 0; e->quit_optional = 1;
  a = S.len;
  if (wf_hit && wf_off >= a && wf_off < a + 6) { vb_put(&S, "QUIT\r\n", 6); S.len = wf_off; e->altz = 1; e->quit_optional = 0; }
}

static int ieq(const unsigned char *x, const unsigned char *y, size_t n)
{
  size_t i; for (i = 0; i < n; ++i) if (tolower(x[i]) != tolower(y[i])) return 0; return 1;
}

/* sent bytes against the expected wire stream: command lines compared caselessly, the DATA payload exactly */
static int sent_matches(const unsigned char *sent, size_t nsent, const expect_t *e)
{
  size_t n = S.len;
  if (nsent != n) {
    if (!(e->quit_optional && nsent == n + 6 && ieq(sent + n, (const unsigned char *)"QUIT\r\n", 6))) return 0;
  }
  if (pay_b > pay_a && pay_a < n) {
    size_t pe = pay_b < n ? pay_b : n;
    if (!ieq(sent, S.s, pay_a)) return 0;
    if (memcmp(sent + pay_a, S.s + pay_a, pe - pay_a)) return 0;
    if (!ieq(sent + pe, S.s + pe, n - pe)) return 0;
    return 1;
  }
  return ieq(sent, S.s, n);
}

static int has_dup(const unsigned char *s, size_t n)
{
  static const char d[] = "Possible duplicate!"; size_t k = sizeof d - 1, i;
  for (i = 0; i + k <= n; ++i) if (!memcmp(s + i, d, k)) return 1;
  return 0;
}

static char obs_recs[16]; static int obs_nrecs; static char obs_verdict; static int obs_dup;

/* returns 1 ok, 0 violation (failmsg set) */
static int judge_smtp(const case_t *c, int rc, const unsigned char *rep, size_t nrep, const unsigned char *sent, size_t nsent, const long *info)
{
  int interp[MAXPH], openidx[MAXPH], nopen = 0, p, combos, k, matched = 0, fewer = 0; expect_t e, e0;
  size_t i, st;
  if (info[C9_RETURNED]) { snprintf(failmsg, sizeof failmsg, "smtp() returned without a report"); return 0; }
  if (rc != 0) { snprintf(failmsg, sizeof failmsg, "qmail-remote exited %d (documented: always exits zero)", rc); return 0; }
  if (nrep == 0 || rep[nrep - 1] != 0) { snprintf(failmsg, sizeof failmsg, "output does not end with a 0 byte (%zu bytes)", nrep); return 0; }
  obs_nrecs = 0; obs_verdict = 0; obs_dup = 0;
  for (st = 0, i = 0; i < nrep; ++i) if (!rep[i]) {
    int last = i + 1 == nrep; unsigned char l = rep[st];
    if (i == st) { snprintf(failmsg, sizeof failmsg, "empty report record at offset %zu", st); return 0; }
    if (last) {
      if (l != 'K' && l != 'Z' && l != 'D') { snprintf(failmsg, sizeof failmsg, "last record starts with byte 0x%02x, not a message report (K/Z/D)", l); return 0; }
      obs_verdict = l; obs_dup = has_dup(rep + st, i - st);
    } else {
      if (l != 'r' && l != 'h' && l != 's') { snprintf(failmsg, sizeof failmsg, "record %d starts with '%c' (0x%02x): only the last record may be a message report, the others must be r/h/s", obs_nrecs, isprint(l) ? l : '?', l); return 0; }
      if (obs_nrecs >= 15) { snprintf(failmsg, sizeof failmsg, "more than 15 recipient records"); return 0; }
      obs_recs[obs_nrecs++] = l;
    }
    st = i + 1;
  }
  if (obs_nrecs > c->n) { snprintf(failmsg, sizeof failmsg, "%d recipient records for %d recipients", obs_nrecs, c->n); return 0; }
  if (info[C9_STALLS]) { snprintf(failmsg, sizeof failmsg, "client waited for a reply the server had no reason to send yet (%ld blocked reads; a real session hangs until timeoutremote)", info[C9_STALLS]); return 0; }

  for (p = 0; p < c->n + 5 && p < c->nph; ++p) { interp[p] = I_OK; if (c->ph[p].kind == 0 && classify(ptype(p, c->n), c->ph[p].code) == I_OPEN) openidx[nopen++] = p; }
  for (; p < MAXPH; ++p) interp[p] = I_OK;
  for (combos = 1, k = 0; k < nopen; ++k) combos *= 3;
  for (k = 0; k < combos && !matched; ++k) {
    int v = k, q;
    for (q = 0; q < nopen; ++q) { interp[openidx[q]] = v % 3; v /= 3; }
    walk(c, interp, (int)info[C9_WFAIL_HIT], (size_t)info[C9_WFAIL_OFF], (size_t)info[C9_WFAIL_LEN], &e);
    if (k == 0) e0 = e;
    /* verdict */
    if (e.verdict == '!') { if (obs_verdict == 'K') continue; }
    else if (obs_verdict != e.verdict) { if (!(e.altz && obs_verdict == 'Z')) continue; }
    if (e.dup != 2 && obs_dup != e.dup) continue;
    /* recipient records: all of them with K; in failure cases the man page allows fewer, never different ones */
    if (obs_nrecs > e.nrecs || memcmp(obs_recs, e.recs, obs_nrecs)) continue;
    if (obs_verdict == 'K' && obs_nrecs != c->n) continue;
    if (!sent_matches(sent, nsent, &e)) continue;
    fewer = obs_nrecs < e.nrecs;
    matched = 1;
  }
  if (!matched) {
    /* describe the mismatch against the plain interpretation */
    e = e0;
    snprintf(failmsg, sizeof failmsg,
             "observed records [%.*s]+%c%s, sent %zu bytes; expected [%.*s]+%s%s because %s at phase %d%s%s",
             obs_nrecs, obs_recs, obs_verdict, obs_dup ? " (Possible duplicate!)" : "", nsent,
             e.nrecs, e.recs, e.verdict == '!' ? "Z|D" : e.verdict == 'K' ? "K" : e.verdict == 'Z' ? "Z" : "D",
             e.dup == 1 ? " (Possible duplicate!)" : e.dup == 0 ? " (no duplicate flag)" : "", e.why, e.last_phase,
             nopen ? " [other readings of the undocumented reply classes were tried too]" : "",
             (obs_verdict == e.verdict || (e.verdict == '!' && obs_verdict != 'K')) && obs_dup == e.dup && obs_nrecs == e.nrecs && !memcmp(obs_recs, e.recs, obs_nrecs) ? " [verdict agrees; the bytes sent to the server differ from the expected command sequence]" : "");
    return 0;
  }
  /* bookkeeping on what this case exercised */
  if (e.used_open || e.altz || e.dup == 2 || fewer || e.verdict == '!') ++vf_slack;
  ++vf_cls[obs_verdict == 'K' ? CL_K : obs_verdict == 'Z' ? CL_Z : CL_D];
  if (e.wfail_phase_type >= 0) ++vf_cls[CL_WFAIL];
  if (e.altz) ++vf_cls[CL_WFAIL_QUIT];
  if (e.used_open) ++vf_cls[CL_OPEN];
  for (k = 0; k < obs_nrecs; ++k) ++vf_cls[obs_recs[k] == 'r' ? CL_RCPT_R : obs_recs[k] == 's' ? CL_RCPT_S : CL_RCPT_H];
  ++vf_cls[c->n == 1 ? CL_N1 : c->n == 2 ? CL_N2 : CL_N3];
  if (c->nchunks) ++vf_cls[CL_CHUNKED];
  {
    int lp = e.last_phase, nt = 0, multi = 0, huge = 0;
    if (e.wfail_phase_type < 0 && !e.altz && (lp >= c->nph || c->ph[lp].kind != 0)) {
      ++vf_cls[ptype(lp, c->n) == T_DOT ? CL_DISC_AFTER_DOT : CL_DISC_READ]; nt = 1;
      if (lp < c->nph && c->ph[lp].data.len) ++vf_cls[CL_PARTIAL_DISC];
    }
    if (e.wfail_phase_type >= 0 || e.altz) nt = 1;
    for (p = 0; p <= lp && p < c->nph; ++p) {
      const phase_t *ph = &c->ph[p]; size_t j;
      if (ph->kind == 0 && (ph->code < 200 || ph->code > 399)) nt = 1;
      for (j = 0; j + 4 < ph->data.len; ++j) if (ph->data.s[j] == '\n') { multi = 1; break; }
      if (ph->data.len > 5000) huge = 1;
    }
    if (lp == 0 && e.verdict == 'Z' && c->nph > 0 && c->ph[0].kind == 0) { ++vf_cls[CL_GREET_FAIL]; nt = 1; }
    if (lp == 1 && e.verdict == 'Z' && c->nph > 1 && c->ph[1].kind == 0 && e.wfail_phase_type < 0) { ++vf_cls[CL_HELO_FAIL]; nt = 1; }
    if (e.verdict == '!') ++vf_cls[CL_ALL_REJ];
    if (multi) ++vf_cls[CL_MULTILINE];
    if (huge) ++vf_cls[CL_HUGE];
    if (nt) { size_t before = hs_n; hs_add(case_hash(c)); if (hs_n != before) ++vf_nontrivial; }
  }
  return 1;
}

static long last_wcount[C9_MAXPH + 2];

static int run_smtp_case(case_t *c)
{
  const unsigned char *pd[MAXPH]; size_t pl[MAXPH]; int pe[MAXPH]; int p, rc, ok;
  unsigned char *rep, *sent; size_t nrep, nsent; long info[C9_NINFO];
  for (p = 0; p < c->nph; ++p) { pd[p] = c->ph[p].data.s; pl[p] = c->ph[p].data.len; pe[p] = c->ph[p].kind; }
  rc = vq_c09_smtp(c->n, RECIPS, c->sender, HELO, c->body.s, c->body.len, c->bodymax, c->nph, pd, pl, pe,
                   c->chunks, c->nchunks, c->wf_phase, c->wf_k, c->wf_ret, c->wmax, &rep, &nrep, &sent, &nsent, info, last_wcount);
  ++vf_evals;
  ok = judge_smtp(c, rc, rep, nrep, sent, nsent, info);
  if (vf_nsamples < 8 && (vf_evals % 9973) == 1) {
    /* sample = the report the program printed (readable in the evidence) */
    size_t n = nrep > 64 ? 64 : nrep; memcpy(vf_samples[vf_nsamples], rep, n); vf_samplelen[vf_nsamples++] = n;
  }
  if (!ok) {
    printf("VIOLATION-CASE "); print_case(stdout, c); printf(" msg=%s | report=", failmsg);
    { size_t i; for (i = 0; i < nrep && i < 300; ++i) putchar(rep[i] == 0 ? '|' : (rep[i] >= 32 && rep[i] < 127) ? rep[i] : '?'); }
    printf("\n");
    vf_dump_stats(stdout);
    return 0;
  }
  return 1;
}

/* ------------------------------------------------------------------ generators for smtp() */
static const int CODES_2XX[] = { 200, 220, 250, 251, 299 };
static const int CODES_3XX[] = { 300, 354, 399 };
static const int CODES_4XX[] = { 400, 421, 450, 451, 499 };
static const int CODES_5XX[] = { 500, 550, 554, 599 };
#define PICK(a) ((a)[vf_rand() % (sizeof(a) / sizeof(a)[0])])

static int gen_code(int hundreds, int avoid)
{
  int c;
  for (;;) {
    if (vf_rand() % 4 == 0) c = hundreds * 100 + (int)(vf_rand() % 100);
    else switch (hundreds) {
      case 2: c = PICK(CODES_2XX); break;
      case 3: c = PICK(CODES_3XX); break;
      case 4: c = PICK(CODES_4XX); break;
      case 5: c = PICK(CODES_5XX); break;
      default: c = hundreds * 100 + (int)(vf_rand() % 100);
    }
    if (c != avoid) return c;
  }
}

static void gen_text(vbuf *o, int exotic)
{
  uint64_t r = vf_rand(); size_t len, i; int mode = (int)((r >> 8) % 8);
  if (r % 499 == 0) len = 4990 + (r >> 16) % 1200;              /* around HUGESMTPTEXT */
  else if (r % 11 == 0) len = 100 + (r >> 16) % 300;            /* longer than the 128-byte read buffer */
  else len = (r >> 16) % 24;
  for (i = 0; i < len; ++i) {
    uint64_t x = vf_rand(); unsigned char ch;
    if (exotic && mode >= 6) { ch = (unsigned char)x; if (ch == '\n') ch = 0; }      /* any byte but LF: NUL, CR, 8-bit */
    else if (mode == 5) ch = "250 -KZDrhs.\r\t"[x % 14];                              /* bytes that mean something elsewhere */
    else ch = ' ' + x % 95;
    vb_putc(o, ch);
  }
}

/* complete reply: form 0 = one line, 1 = 2-3 lines */
static void gen_reply(vbuf *o, int code, int form, int exotic)
{
  int lines = form ? 2 + (int)(vf_rand() % 2) : 1, i; const char *eol = (exotic && vf_rand() % 16 == 0) ? "\n" : "\r\n";
  char d[8];
  snprintf(d, sizeof d, "%03d", code % 1000);
  for (i = 0; i < lines; ++i) {
    vb_put(o, d, 3);
    if (i + 1 < lines) { vb_putc(o, '-'); gen_text(o, exotic); }
    else if (vf_rand() % 8) { vb_putc(o, ' '); gen_text(o, exotic); }
    vb_put(o, eol, strlen(eol));
  }
}

static void cut_partial(vbuf *o)
{
  size_t len = o->len, k, i;
  if (len < 2) { o->len = len ? 1 : 0; return; }
  k = 1 + vf_rand() % (len - 1);
  if (vf_rand() % 3 == 0) { for (i = 0; i + 1 < len; ++i) if (o->s[i] == '\n') { k = i + 1; break; } }   /* right after a continuation line */
  else if (vf_rand() % 3 == 0) k = 1 + vf_rand() % 4;                                                  /* inside the code */
  if (k >= len) k = len - 1;
  o->len = k;
}

static void gen_body(vbuf *b, int exotic)
{
  uint64_t r = vf_rand(); size_t i, n;
  vb_reset(b);
  switch (r % (exotic ? 7 : 5)) {
    case 0: break;
    case 1: vb_put(b, "x\n", 2); break;
    case 2: { static const char m[] = "Subject: t\n\nhello\n.\n..x\n.\n"; vb_put(b, m, sizeof m - 1); break; }
    case 3: n = 1015 + (r >> 8) % 12; for (i = 0; i < n; ++i) vb_putc(b, 'a'); vb_put(b, "\n.b\n", 4); break;   /* crosses the 1024-byte write buffer */
    case 4: n = 2 + (r >> 8) % 3; for (i = 0; i < n * 1000; ++i) vb_putc(b, (i % 61) == 60 ? '\n' : (i % 61) == 0 ? '.' : 'm'); vb_putc(b, '\n'); break;
    default:
      n = (r >> 8) % 2600;
      for (i = 0; i < n; ++i) { uint64_t x = vf_rand(); vb_putc(b, "a. \n\n.z\x80"[x % 8]); }
      if (b->len && b->s[b->len - 1] != '\n') vb_putc(b, '\n');
  }
}

static void gen_chunks(case_t *c, int exotic)
{
  uint64_t r = vf_rand(); size_t i;
  c->nchunks = 0;
  switch (r % 4) {
    case 0: break;
    case 1: c->nchunks = MAXCHUNKS; for (i = 0; i < MAXCHUNKS; ++i) c->chunks[i] = 1; break;
    default: c->nchunks = 1 + (r >> 8) % MAXCHUNKS; for (i = 0; i < c->nchunks; ++i) c->chunks[i] = 1 + vf_rand() % (vf_rand() % 2 ? 7 : 140);
  }
  c->wmax = (r >> 20) % 5 == 0 ? 1 + (r >> 24) % 700 : 0;
  c->bodymax = (r >> 40) % 3 == 0 ? 1 + (r >> 44) % 50 : 0;
}

static const char *SENDERS[] = { "sender@src.example", "", "a.b-c+d=e@h.src.example" };

/* option numbering per phase: replies first (class*2+form), then disconnect kinds */
static int ncls(int type) { return type <= T_HELO ? 5 : 4; }
enum { D_EOF0 = 0, D_ERR0, D_EOFP, D_ERRP, D_WF0, D_WFLAST, D_WFPREV, D_NKINDS };

static int cls_hundreds(int type, int cls, int *exact, int *avoid)
{
  *exact = 0; *avoid = -1;
  if (type == T_GREET) { if (cls == 0) { *exact = 220; return 2; } if (cls == 1) { *avoid = 220; return 2; } return cls + 1; }
  if (type == T_HELO) { if (cls == 0) { *exact = 250; return 2; } if (cls == 1) { *avoid = 250; return 2; } return cls + 1; }
  return cls + 2;
}

/* does the conversation go on after this reply class? (structure only; used to prune the enumeration) */
static int continues(int type, int cls)
{
  if (type <= T_HELO) return cls == 0;
  if (type == T_MAIL) return cls <= 1;
  if (type == T_RCPT) return 1;
  if (type == T_DATA) return cls <= 1;
  return 0;
}

static void set_reply(case_t *c, int p, int type, int cls, int form, int exotic)
{
  int exact, avoid, h = cls_hundreds(type, cls, &exact, &avoid);
  phase_t *ph = &c->ph[p];
  ph->kind = 0; ph->code = exact ? exact : gen_code(h, avoid);
  vb_reset(&ph->data); gen_reply(&ph->data, ph->code, form, exotic);
}

static int set_disconnect(case_t *c, int p, int type, int dk, int exotic)
{
  phase_t *ph = &c->ph[p];
  if (dk == D_WF0 || dk == D_WFLAST || dk == D_WFPREV) {
    c->wf_phase = p; c->wf_k = 0; c->wf_ret = (exotic && vf_rand() % 4 == 0) ? 0 : -1; c->nph = p;
    return dk;
  }
  ph->kind = (dk == D_EOF0 || dk == D_EOFP) ? 1 : 2; ph->code = 0; vb_reset(&ph->data);
  if (dk == D_EOFP || dk == D_ERRP) {
    int exact, avoid, cls = (int)(vf_rand() % ncls(type)), h = cls_hundreds(type, cls, &exact, &avoid);
    ph->code = exact ? exact : gen_code(h, avoid);
    gen_reply(&ph->data, ph->code, (int)(vf_rand() % 2), exotic); cut_partial(&ph->data);
  }
  c->nph = p + 1;
  return dk;
}

static unsigned long long leaf_no;
static int e_shard, e_nsh, e_reps; static uint64_t e_seed;
static int e_opt[MAXPH], e_n;

/* run one fully chosen structure: opts[0..last], terminal at phase `last` */
static int run_structure(int last)
{
  int rep;
  if ((leaf_no++ % e_nsh) != (unsigned)e_shard) return 1;
  for (rep = 0; rep < e_reps; ++rep) {
    int p, variant, nvariants = 1, termdk = -1, quitv = 0;
    for (variant = 0; variant < nvariants; ++variant) {
      vf_rng_state = e_seed * 0x9E3779B97F4A7C15ULL + leaf_no * 1000003ULL + rep * 7919ULL;
      vf_rand();
      C.n = e_n; C.nph = last + 1; C.wf_phase = -1; C.wf_k = 0; C.wf_ret = -1;
      strcpy(C.sender, SENDERS[vf_rand() % 3]);
      gen_body(&C.body, 0); gen_chunks(&C, 0);
      for (p = 0; p <= last; ++p) {
        int type = ptype(p, e_n), o = e_opt[p], nr = 2 * ncls(type);
        if (o < nr) set_reply(&C, p, type, o / 2, o % 2, rep & 1);
        else termdk = set_disconnect(&C, p, type, o - nr, rep & 1);
      }
      if (termdk < 0) { nvariants = 2; quitv = variant; }         /* verdict through quit(): second variant fails the QUIT write */
      if (quitv) { C.wf_phase = last + 1; C.wf_k = 0; }
      if (termdk == D_WFLAST || termdk == D_WFPREV) {
        /* the write that carries the final dot / the one before it: count the writes with a dry run (a valid case itself) */
        long w;
        C.wf_phase = -1; C.nph = last + 1; C.ph[last].kind = 0; C.ph[last].code = 250; vb_reset(&C.ph[last].data); vb_put(&C.ph[last].data, "250 ok\r\n", 8);
        if (!run_smtp_case(&C)) return 0;
        w = last_wcount[last];
        C.wf_phase = last; C.nph = last; C.wf_k = termdk == D_WFLAST ? w - 1 : w - 2;
        if (C.wf_k < 0) C.wf_k = 0;
      }
      if (!run_smtp_case(&C)) return 0;
    }
  }
  return 1;
}

static int enum_phase(int p, int nacc_possible)
{
  int type = ptype(p, e_n), nr = 2 * ncls(type), o, nd = type == T_DOT ? D_NKINDS : D_WF0 + 1;
  for (o = 0; o < nr + nd; ++o) {
    e_opt[p] = o;
    if (o >= nr) {
      if (p == 0 && o - nr >= D_WF0) continue;         /* nothing is written before the greeting */
      if (!run_structure(p)) return 0;
      continue;
    }
    if (type == T_DOT || !continues(type, o / 2)) { if (!run_structure(p)) return 0; continue; }
    if (type == T_RCPT) {
      int acc = nacc_possible || (o / 2) <= 1;          /* 2xx, or 3xx which the program may read as acceptance */
      if (p == e_n + 2 && !acc) { if (!run_structure(p)) return 0; continue; }
      if (!enum_phase(p + 1, acc)) return 0;
      continue;
    }
    if (!enum_phase(p + 1, nacc_possible)) return 0;
  }
  return 1;
}

static int rand_smtp(uint64_t seed, unsigned long long count)
{
  unsigned long long i;
  for (i = 0; i < count; ++i) {
    int p, n, stop = 0;
    vf_rng_state = seed * 0x9E3779B97F4A7C15ULL + i * 1000003ULL; vf_rand();
    n = 1 + (int)(vf_rand() % 3);
    C.n = n; C.wf_phase = -1; C.wf_k = 0; C.wf_ret = -1; C.nph = n + 5;
    strcpy(C.sender, SENDERS[vf_rand() % 3]);
    gen_body(&C.body, 1); gen_chunks(&C, 1);
    for (p = 0; p < n + 5 && !stop; ++p) {
      int type = ptype(p, n); uint64_t r = vf_rand();
      if (r % 16 == 0) { set_disconnect(&C, p, type, (int)((r >> 8) % 4), 1); stop = 1; break; }
      if (r % 16 < 13) {
        /* the class that keeps the conversation going */
        int cls = type == T_DATA ? 1 : 0;
        set_reply(&C, p, type, cls, (int)((r >> 8) % 3 == 0), 1);
      } else if (r % 16 < 15) {
        set_reply(&C, p, type, (int)((r >> 8) % ncls(type)), (int)((r >> 16) % 2), 1);
      } else {
        /* any three digits */
        phase_t *ph = &C.ph[p]; ph->kind = 0; ph->code = (int)((r >> 8) % 1000); vb_reset(&ph->data); gen_reply(&ph->data, ph->code, (int)((r >> 24) % 2), 1);
      }
    }
    if (!stop && vf_rand() % 5 == 0) { C.wf_phase = 1 + (int)(vf_rand() % (n + 6)); C.wf_k = (long)(vf_rand() % 4); C.wf_ret = vf_rand() % 4 ? -1 : 0; }
    if (!run_smtp_case(&C)) return 0;
  }
  return 1;
}

/* ------------------------------------------------------------------ report() */
static vbuf RO;      /* qmail-remote output fed to report() */
static void print_report_case(FILE *f, int wstat) { fprintf(f, "report wstat=%d out=", wstat); vf_hex(f, RO.s, RO.len); }

static int judge_report(int wstat, const unsigned char *s, size_t len, const unsigned char *o, size_t no)
{
  size_t i, st; int crashed = wstat & 127, code = wstat >> 8; unsigned char L;
  char first[2] = {0, 0}; int nterm = 0, tail = 0, nall = 0, kgood = 0, kdecided = 0;
  if (no == 0) { snprintf(failmsg, sizeof failmsg, "report() printed nothing: the delivery gets an empty report"); return 0; }
  for (i = 0; i < no; ++i) if (!o[i]) { snprintf(failmsg, sizeof failmsg, "report() printed a 0 byte at offset %zu: more than one report for one delivery", i); return 0; }
  L = o[0];
  if (L != 'K' && L != 'Z' && L != 'D') { snprintf(failmsg, sizeof failmsg, "relayed report starts with byte 0x%02x, not K/Z/D", L); return 0; }
  if (crashed) {
    ++vf_cls[CL_REPORT_STATUS];
    if (L != 'Z') { snprintf(failmsg, sizeof failmsg, "qmail-remote killed by signal %d: relayed '%c', must be Z (a crash is never success, and is retried)", crashed, L); return 0; }
    return 1;
  }
  if (code != 0) {
    ++vf_cls[CL_REPORT_STATUS];
    if (L == 'K') { snprintf(failmsg, sizeof failmsg, "qmail-remote exited %d: relayed K (an unexpected exit status upgraded to success)", code); return 0; }
    ++vf_slack;     /* Z or D: qmail-remote.8 says "always exits zero", nothing documents which failure it is */
    return 1;
  }
  if (len == 0) {
    ++vf_cls[CL_REPORT_ODD];
    if (L == 'K') { snprintf(failmsg, sizeof failmsg, "empty output relayed as K"); return 0; }
    ++vf_slack; return 1;
  }
  for (st = 0, i = 0; i <= len; ++i) if (i == len || !s[i]) {
    char l;
    if (i == len) { if (st >= len) break; tail = 1; } else ++nterm;
    l = (char)(i == st ? 0 : s[st]);
    if (nall < 2) first[nall] = l;
    ++nall;
    if (!kdecided) { if (l == 'K') { kgood = 1; kdecided = 1; } else if (l == 'Z' || l == 'D') kdecided = 1; }
    st = i + 1;
  }
  if (nterm == 2 && !tail && strchr("rhs", first[0]) && first[0] && first[1] && strchr("KZD", first[1])) {
    char want = first[0] == 's' ? 'Z' : first[0] == 'h' ? 'D' : first[1];
    ++vf_cls[CL_REPORT_CONF];
    if (L != want) { snprintf(failmsg, sizeof failmsg, "output '%c..'+'%c..' relayed as %c, must be %c", first[0], first[1], L, want); return 0; }
    return 1;
  }
  if (nterm == 1 && !tail && (first[0] == 'Z' || first[0] == 'D')) {
    ++vf_cls[CL_REPORT_CONF];
    if (L != first[0]) { snprintf(failmsg, sizeof failmsg, "output is the single message report '%c..', relayed as %c", first[0], L); return 0; }
    return 1;
  }
  ++vf_cls[CL_REPORT_ODD];
  if (L == 'K') {
    int good = kgood;
    if (s[0] == 's' || s[0] == 'h') { snprintf(failmsg, sizeof failmsg, "output starts with the refusal '%c' but K was relayed", s[0]); return 0; }
    if (!good) { snprintf(failmsg, sizeof failmsg, "K relayed although no record starting with K precedes the first Z/D record (unparseable result upgraded to success)"); return 0; }
  }
  ++vf_slack;
  return 1;
}

static int run_report_case(int wstat)
{
  unsigned char *o; size_t no; int ok; static vbuf copy;
  /* report() gets spawn.c's stralloc: len bytes plus spare room; the byte after len is made a NUL so that string
     functions running off an unterminated record stay inside the buffer (memory safety is C20's business) */
  vb_reset(&copy); vb_put(&copy, RO.s, RO.len); vb_putc(&copy, 0);
  vq_c09_report(wstat, (char *)copy.s, (int)RO.len, &o, &no);
  ++vf_evals;
  ok = judge_report(wstat, RO.s, RO.len, o, no);
  if (ok) {
    int nt = (wstat != 0) || RO.len == 0 || RO.s[0] != 'r';
    if (!nt) { size_t i; for (i = 0; i + 1 < RO.len; ++i) if (!RO.s[i] && RO.s[i + 1] != 'K') nt = 1; if (RO.s[RO.len - 1]) nt = 1; }
    if (nt) { uint64_t h = fnv(fnv(0xcbf29ce484222325ULL, &wstat, sizeof wstat), RO.s, RO.len); size_t before = hs_n; hs_add(h); if (hs_n != before) ++vf_nontrivial; }
    if (vf_nsamples < 8 && (vf_evals % 9973) == 1) { size_t n = RO.len > 64 ? 64 : RO.len; memcpy(vf_samples[vf_nsamples], RO.s, n); vf_samplelen[vf_nsamples++] = n; }
    return 1;
  }
  printf("VIOLATION-CASE "); print_report_case(stdout, wstat); printf(" msg=%s | relayed=", failmsg);
  { size_t i; for (i = 0; i < no && i < 200; ++i) putchar(o[i] == 0 ? '|' : (o[i] >= 32 && o[i] < 127) ? o[i] : '?'); }
  printf("\n");
  vf_dump_stats(stdout);
  return 0;
}

static const char RLET[] = { 'r', 'h', 's', 'K', 'Z', 'D', 'x', 0 };   /* 0 = empty record */
static void gen_rtext(vbuf *o, int big)
{
  uint64_t r = vf_rand(); size_t len = big ? 10000 + r % 500 : (r % 5 == 0 ? 0 : (r >> 8) % 60), i;
  for (i = 0; i < len; ++i) { uint64_t x = vf_rand(); unsigned char ch = (r >> 20) % 4 == 0 ? (unsigned char)x : (unsigned char)(' ' + x % 95); if (!ch) ch = '\n'; vb_putc(o, ch); }
}
static void build_records(const int *let, int nrec, int terminated, int big)
{
  int i;
  vb_reset(&RO);
  for (i = 0; i < nrec; ++i) {
    if (RLET[let[i]]) { vb_putc(&RO, RLET[let[i]]); gen_rtext(&RO, big && i == (int)(vf_rand() % nrec)); }
    if (i + 1 < nrec || terminated) vb_putc(&RO, 0);
  }
}

static const int STATUS_SAMPLE[] = { 1 << 8, 100 << 8, 111 << 8, 255 << 8, 9, 11 | 128, 15, 6 | 128 };

static int enum_report(int maxrec, int reps, uint64_t seed, int shard, int nsh)
{
  int nrec, let[8], i, term; unsigned long long no = 0;
  for (nrec = 0; nrec <= maxrec; ++nrec) {
    memset(let, 0, sizeof let);
    for (;;) {
      for (term = 0; term < 2; ++term) {
        if (nrec == 0 && term) continue;
        if ((no++ % nsh) == (unsigned)shard) {
          int rep, w;
          for (rep = 0; rep < reps; ++rep) {
            vf_rng_state = seed * 0x9E3779B97F4A7C15ULL + no * 1000003ULL + rep * 7919ULL; vf_rand();
            build_records(let, nrec, term, rep == reps - 1 && nrec <= 3);
            if (!run_report_case(0)) return 0;
          }
          vf_rng_state = seed + no; build_records(let, nrec, term, 0);
          if (nrec <= 3) {
            /* every exit status and every terminating signal (with and without core flag) */
            for (w = 1; w < 256; ++w) if (!run_report_case(w << 8)) return 0;
            for (w = 1; w < 127; ++w) { if (!run_report_case(w)) return 0; if (!run_report_case(w | 128)) return 0; }
          } else {
            for (w = 0; w < (int)(sizeof STATUS_SAMPLE / sizeof STATUS_SAMPLE[0]); ++w) if (!run_report_case(STATUS_SAMPLE[w])) return 0;
          }
        }
      }
      for (i = nrec - 1; i >= 0; --i) { if (++let[i] < 8) break; let[i] = 0; }
      if (i < 0) break;
    }
  }
  return 1;
}

static int rand_report(uint64_t seed, unsigned long long count)
{
  unsigned long long c;
  for (c = 0; c < count; ++c) {
    uint64_t r; size_t len, i; int wstat, fam;
    vf_rng_state = seed * 0x9E3779B97F4A7C15ULL + c * 1000003ULL; r = vf_rand();
    fam = (int)(r % 4);
    wstat = (r >> 8) % 4 ? 0 : (r >> 12) % 2 ? (int)((r >> 16) % 256) << 8 : 1 + (int)((r >> 16) % 126) + (((r >> 30) & 1) ? 128 : 0);
    vb_reset(&RO);
    if (fam == 0) {
      /* grammar, then a mutation */
      int let[2]; let[0] = (int)((r >> 32) % 3); let[1] = 3 + (int)((r >> 36) % 3);
      build_records(let, 2, 1, (r >> 40) % 50 == 0);
      switch ((r >> 48) % 6) {
        case 0: break;
        case 1: if (RO.len) RO.len -= 1; break;                                            /* final NUL missing */
        case 2: for (i = 0; i < RO.len; ++i) if (!RO.s[i]) { RO.s[i] = ' '; break; } break;  /* first NUL missing */
        case 3: if (RO.len) RO.s[0] = (unsigned char)(r >> 52); break;                     /* wrong first letter */
        case 4: for (i = 0; i + 1 < RO.len; ++i) if (!RO.s[i]) { RO.s[i + 1] = "kzdKZDrhs\0x"[(r >> 56) % 11]; break; } break;
        case 5: RO.len = (r >> 52) % (RO.len + 1); break;                                   /* truncated */
      }
    } else {
      len = fam == 1 ? (r >> 32) % 12 : fam == 2 ? (r >> 32) % 200 : (r >> 32) % 11000;
      for (i = 0; i < len; ++i) { uint64_t x = vf_rand(); vb_putc(&RO, fam == 3 && x % 8 ? 'a' + x % 26 : "rhsKZD\0\0x\n"[(x >> 8) % 10]); }
    }
    if (!run_report_case(wstat)) return 0;
  }
  return 1;
}

/* ------------------------------------------------------------------ replay */
static int hexval(int c) { return c <= '9' ? c - '0' : (c | 32) - 'a' + 10; }
static size_t unhex_into(vbuf *b, const char *h)
{
  vb_reset(b);
  while (isxdigit((unsigned char)h[0]) && isxdigit((unsigned char)h[1])) { vb_putc(b, hexval(h[0]) * 16 + hexval(h[1])); h += 2; }
  return b->len;
}
static const char *field(const char *line, const char *key)
{
  static char k[32]; const char *p;
  snprintf(k, sizeof k, " %s=", key);
  p = strstr(line, k);
  return p ? p + strlen(k) : 0;
}

static int replay_line(char *line)
{
  const char *f;
  { char *m = strstr(line, " msg="); if (m) *m = 0; }
  if (!strncmp(line, "smtp ", 5)) {
    static vbuf tmp; int p = 0;
    init_names(0);
    line += 4;
    C.n = (f = field(line, "n")) ? atoi(f) : 1; if (C.n < 1 || C.n > 3) return 2;
    f = field(line, "sender"); unhex_into(&tmp, f ? f : ""); snprintf(C.sender, sizeof C.sender, "%s", (char *)tmp.s);
    f = field(line, "body"); unhex_into(&C.body, f ? f : "");
    C.bodymax = (f = field(line, "bodymax")) ? strtoul(f, 0, 10) : 0;
    C.wf_phase = -1; C.wf_k = 0; C.wf_ret = -1;
    if ((f = field(line, "wf"))) sscanf(f, "%d:%ld:%d", &C.wf_phase, &C.wf_k, &C.wf_ret);
    C.wmax = (f = field(line, "wmax")) ? strtoul(f, 0, 10) : 0;
    C.nchunks = 0;
    if ((f = field(line, "chunks"))) { while (isdigit((unsigned char)*f) && C.nchunks < MAXCHUNKS) { C.chunks[C.nchunks++] = strtoul(f, (char **)&f, 10); if (*f == ',') ++f; } }
    C.nph = 0;
    if ((f = field(line, "ph"))) {
      while (*f && *f != ' ' && *f != '\n' && p < MAXPH) {
        int kind, code, used = 0;
        if (sscanf(f, "%d:%d:%n", &kind, &code, &used) < 2) break;
        f += used; C.ph[p].kind = kind; C.ph[p].code = code; unhex_into(&C.ph[p].data, f);
        f += 2 * C.ph[p].data.len; ++p;
        if (*f == '/') ++f; else break;
      }
      C.nph = p;
    }
    return run_smtp_case(&C) ? 0 : 1;
  }
  if (!strncmp(line, "report ", 7)) {
    int wstat = 0;
    init_names(1);
    line += 6;
    if ((f = field(line, "wstat"))) wstat = atoi(f);
    f = field(line, "out"); unhex_into(&RO, f ? f : "");
    return run_report_case(wstat) ? 0 : 1;
  }
  return 2;
}

int main(int argc, char **argv)
{
  init_names(argc >= 2 && strstr(argv[1], "report") != 0);
  if (argc >= 8 && !strcmp(argv[1], "--enum-smtp")) {
    int nmin = atoi(argv[2]), nmax = atoi(argv[3]);
    e_reps = atoi(argv[4]); e_seed = strtoull(argv[5], 0, 10); e_shard = atoi(argv[6]); e_nsh = atoi(argv[7]);
    for (e_n = nmin; e_n <= nmax; ++e_n) if (!enum_phase(0, 0)) return 1;
    printf("STRUCTURES %llu\n", leaf_no);
    vf_dump_stats(stdout);
    return 0;
  }
  if (argc >= 4 && !strcmp(argv[1], "--rand-smtp")) {
    if (!rand_smtp(strtoull(argv[2], 0, 10), strtoull(argv[3], 0, 10))) return 1;
    vf_dump_stats(stdout);
    return 0;
  }
  if (argc >= 7 && !strcmp(argv[1], "--enum-report")) {
    if (!enum_report(atoi(argv[2]), atoi(argv[3]), strtoull(argv[4], 0, 10), atoi(argv[5]), atoi(argv[6]))) return 1;
    vf_dump_stats(stdout);
    return 0;
  }
  if (argc >= 4 && !strcmp(argv[1], "--rand-report")) {
    if (!rand_report(strtoull(argv[2], 0, 10), strtoull(argv[3], 0, 10))) return 1;
    vf_dump_stats(stdout);
    return 0;
  }
  if (argc >= 3 && !strcmp(argv[1], "--replay")) {
    /* every non-comment line of the file is one case */
    FILE *f = fopen(argv[2], "rb"); static char buf[1 << 22]; size_t n; char *line = buf; int r = 2;
    if (!f) { perror("open"); return 2; }
    n = fread(buf, 1, sizeof buf - 1, f); fclose(f); buf[n] = 0;
    while (*line) {
      char *nl = strchr(line, '\n');
      if (nl) *nl = 0;
      if (*line && *line != '#') { r = replay_line(line); if (r) return r; }
      if (!nl) break;
      line = nl + 1;
    }
    if (r == 0) printf("replay ok\n");
    return r;
  }
  fprintf(stderr, "usage: see the header comment\n");
  return 2;
}
