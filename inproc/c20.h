/* C20 common harness helpers: captured _exit, memory reader / checking sink, scratch home, reset macros.
 * Every target is ONE translation unit that #includes this header and then the program's .c file with
 * main renamed; library objects come from the sanitised (ASan+UBSan+coverage) scratch tree. */
#ifndef C20_H
#define C20_H
#include <setjmp.h>
#include <stdio.h>
#include <stdlib.h>
#include <string.h>
#include <stdint.h>
#include <unistd.h>
#include <errno.h>
#include <fcntl.h>
#include <sys/types.h>
#include <sys/stat.h>

/* ---- captured _exit: also catches the calls made inside library objects (strerr_die, ...) ---- */
static jmp_buf c20_jmp;
static volatile int c20_armed;
static volatile int c20_code;
__attribute__((noreturn)) void __wrap__exit(int code)
{
  c20_code = code;
  if (c20_armed) { c20_armed = 0; longjmp(c20_jmp, 1); }
  fflush(0);
  _Exit(code);
}
/* run `call` until it returns (c20_code = -1) or calls _exit(n) (c20_code = n) */
#define C20_CALL(call) do { c20_code = -1; c20_armed = 1; if (!setjmp(c20_jmp)) { call; } c20_armed = 0; } while (0)

static const char *c20_target = "?";
/* termination oracle: return, or _exit with a status of the documented set (list ends with -1) */
static void c20_check_exit(const int *ok)
{
  if (c20_code == -1) return;
  for (; *ok >= 0; ++ok) if (*ok == c20_code) return;
  fprintf(stderr, "C20-ORACLE: target %s: _exit(%d) is not a documented exit status\n", c20_target, c20_code);
  fflush(stderr);
  __builtin_trap();
}

/* ---- memory reader (EOF after the last byte) with optional short reads ---- */
static const uint8_t *c20_in; static size_t c20_inlen, c20_inpos; static size_t c20_chunk;
static void c20_setin(const uint8_t *s, size_t n, size_t chunk) { c20_in = s; c20_inlen = n; c20_inpos = 0; c20_chunk = chunk; }
static ssize_t c20_read(int fd, void *buf, size_t len)
{
  size_t k = c20_inlen - c20_inpos;
  if (k > len) k = len;
  if (c20_chunk && k > c20_chunk) k = c20_chunk;
  if (k) memcpy(buf, c20_in + c20_inpos, k);
  c20_inpos += k;
  return (ssize_t)k;
}
/* ---- sink: touches every byte handed to it, so that ASan sees an over-read of the caller's buffer ---- */
static unsigned char c20_sinkbuf[4096]; static size_t c20_sunk;
static ssize_t c20_write(int fd, const void *buf, size_t len)
{
  size_t off = 0;
  while (off < len) { size_t k = len - off; if (k > sizeof c20_sinkbuf) k = sizeof c20_sinkbuf; memcpy(c20_sinkbuf, (const char *)buf + off, k); off += k; }
  c20_sunk += len;
  return (ssize_t)len;
}
static void c20_sinkstr(const char *s) { c20_write(-1, s, strlen(s) + 1); }

/* ---- scratch home (a private directory per process; under $C20_SCRATCH, which the driver removes) ---- */
static char c20_home[300];
char auto_qmail[300] = "/nonexistent-c20";   /* replaces auto_qmail.o: programs chdir() here; = the scratch home once it exists */
static void c20_mkhome(void)
{
  const char *b = getenv("C20_SCRATCH");
  if (c20_home[0]) return;
  if (!b || !*b) b = "/dev/shm";
  snprintf(c20_home, sizeof c20_home, "%s/c20h-%s-XXXXXX", b, c20_target);
  if (!mkdtemp(c20_home)) { perror("C20-HARNESS: mkdtemp"); _Exit(97); }
  strcpy(auto_qmail, c20_home);
}
static void c20_writefile(const char *path, const void *s, size_t n, int mode)
{
  int fd = open(path, O_WRONLY | O_CREAT | O_TRUNC, 0600);
  if (fd < 0) { perror("C20-HARNESS: open"); fprintf(stderr, "%s\n", path); _Exit(97); }
  if (n && write(fd, s, n) != (ssize_t)n) { perror("C20-HARNESS: write"); _Exit(97); }
  fchmod(fd, mode);
  close(fd);
}
static void c20_homefile(const char *rel, const char *content)
{
  char p[600]; snprintf(p, sizeof p, "%s/%s", c20_home, rel);
  c20_writefile(p, content, strlen(content), 0644);
}
static void c20_homedir(const char *rel)
{
  char p[600]; snprintf(p, sizeof p, "%s/%s", c20_home, rel);
  if (mkdir(p, 0700) == -1 && errno != EEXIST) { perror("C20-HARNESS: mkdir"); _Exit(97); }
}
static void c20_chdirhome(void) { if (chdir(c20_home) == -1) { perror("C20-HARNESS: chdir"); _Exit(97); } }

/* an anonymous in-memory file holding exactly the given bytes, positioned at 0 (caller closes) */
static int c20_memfile(const void *s, size_t n)
{
  static int fd = -1;
  int d;
  if (fd == -1) { c20_mkhome(); { char p[600]; snprintf(p, sizeof p, "%s/memfile", c20_home); fd = open(p, O_RDWR | O_CREAT | O_TRUNC, 0600); unlink(p); } }
  if (fd < 0 || ftruncate(fd, 0) == -1 || (n && pwrite(fd, s, n, 0) != (ssize_t)n)) { perror("C20-HARNESS: memfile"); _Exit(97); }
  lseek(fd, 0, SEEK_SET);
  d = dup(fd);
  if (d < 0) { perror("C20-HARNESS: dup"); _Exit(97); }
  return d;
}

/* ---- inputs deliberately kept away from the code under test (known candidate findings): counted, never silent ---- */
static void c20_excluded(const char *sig)
{
  const char *b = getenv("C20_SCRATCH");
  char p[600]; int fd;
  if (!b || !*b) return;
  snprintf(p, sizeof p, "%s/excluded-%s", b, sig);
  fd = open(p, O_WRONLY | O_CREAT | O_APPEND, 0600);
  if (fd >= 0) { (void)!write(fd, "x", 1); close(fd); }
}
static int c20_noexclude(void) { static int v = -1; if (v < 0) { const char *e = getenv("C20_NO_EXCLUDE"); v = e && *e == '1'; } return v; }

/* ---- reset helpers ---- */
#define SA_FREE(sa) do { if ((sa).s) free((sa).s); (sa).s = 0; (sa).len = 0; (sa).a = 0; } while (0)
#define SS_INIT(ss, op_, fd_, buf_) substdio_fdbuf(&(ss), op_, fd_, buf_, sizeof(buf_))

/* a heap copy of exactly n bytes plus a NUL (C string of the fuzzer's bytes; embedded NULs end it early) */
static char *c20_cstr(const uint8_t *s, size_t n) { char *p = malloc(n + 1); if (n) memcpy(p, s, n); p[n] = 0; return p; }
/* split "a\0b\0c..." into up to max C strings (heap copies); returns the count, *rest/*nrest = remaining bytes */
static int c20_fields(const uint8_t *s, size_t n, char **out, int max, const uint8_t **rest, size_t *nrest)
{
  int k = 0; size_t i = 0, st = 0;
  while (k < max && i < n) { if (!s[i]) { out[k++] = c20_cstr(s + st, i - st); st = i + 1; } ++i; }
  if (k < max && st <= n && i == n && st < n) { out[k++] = c20_cstr(s + st, n - st); st = n; }
  if (rest) { *rest = s + st; *nrest = n - st; }
  return k;
}
#endif
