/* C20 target smtpd: qmail-smtpd.c commands() loop incl. addrparse, smtp_mail/rcpt/data + blast; the queue is a recorder.
 * input = flags byte + raw SMTP client bytes.  Documented exits: 0 (QUIT), 1 (read error/EOF, timeout, bare LF, nomem). */
#include "c20.h"
#include "c20_qq.h"
#define main smtpd_main
#include "qmail-smtpd.c"
#undef main
#include "commands.c"          /* its static `cmd` buffer is reset per iteration */

ssize_t timeoutread(int t, int fd, char *buf, size_t len) { return c20_read(fd, buf, len); }
ssize_t timeoutwrite(int t, int fd, const void *buf, size_t len) { return c20_write(fd, buf, len); }

static void tail_of_main(void)
{
  smtp_greet("220 ");
  out(" ESMTP\r\n");
  if (commands(&ssin, &smtpcommands) == 0) die_read();
  die_nomem();
}

int LLVMFuzzerInitialize(int *argc, char ***argv)
{
  c20_target = "smtpd";
  c20_mkhome(); c20_homedir("control");
  c20_homefile("control/me", "mx.example.org\n");
  c20_homefile("control/rcpthosts", "example.org\n.example.org\nlocal.example\n");
  c20_homefile("control/badmailfrom", "bad@example.org\n@bad.example\n");
  c20_homefile("control/localiphost", "local.example\n");
  c20_chdirhome();
  setenv("TCPREMOTEIP", "192.0.2.7", 1); setenv("TCPREMOTEHOST", "client.example", 1); setenv("TCPLOCALHOST", "mx.example.org", 1);
  setenv("TCPREMOTEINFO", "ident", 1);
  unsetenv("RELAYCLIENT"); unsetenv("DATABYTES");
  C20_CALL((setup(), (void)ipme_init()));
  if (c20_code != -1) { fprintf(stderr, "C20-HARNESS: smtpd setup() exited %d\n", c20_code); _Exit(97); }
  return 0;
}

static const int ok_exits[] = { 0, 1, -1 };
static const size_t chunks[4] = { 0, 1, 7, 100 };

int LLVMFuzzerTestOneInput(const uint8_t *data, size_t size)
{
  unsigned fl;
  if (size < 1) return 0;
  fl = data[0];
  /* reset everything an earlier iteration may have touched */
  SA_FREE(addr); SA_FREE(mailfrom); SA_FREE(rcptto); SA_FREE(cmd); SA_FREE(helohost);
  seenmail = 0; flagbarf = 0; bytestooverflow = 0; fakehelo = 0;
  SS_INIT(ssin, saferead, 0, ssinbuf); SS_INIT(ssout, safewrite, 1, ssoutbuf);
  relayclient = (fl & 1) ? ((fl & 2) ? "@relay.example" : "") : 0;
  databytes = (fl & 4) ? 64 : 0;
  qq_set((fl >> 3) & 3, ((fl >> 3) & 3) == 3 && ((fl >> 5) & 1));
  c20_setin(data + 1, size - 1, chunks[(fl >> 6) & 3]);
  C20_CALL((dohelo(remotehost), tail_of_main()));
  c20_check_exit(ok_exits);
  return 0;
}
