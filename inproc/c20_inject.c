/* C20 target inject: the whole main() of qmail-inject.c (getopt, -f sender, command-line recipients, headerbody ->
 * doheaderfield/finishheader/dobody, rw* rewriting, exitnicely) with the queue stubbed and stdin/stdout/stderr in memory.
 * input = flags byte + NUL-terminated option fields + message.  Documented exits: 0, 100, 111. */
#include "c20.h"
#include "c20_qq.h"
#include "sig.h"
#include "subgetopt.h"
#define sig_pipeignore() ((void)0)
#define puts inject_puts
#define main inject_main
#include "qmail-inject.c"
#undef main

#define TA_FREE(ta) do { if ((ta).t) free((ta).t); (ta).t = 0; (ta).len = 0; (ta).a = 0; } while (0)
static void saa_free(saa *x)
{
  unsigned int i;
  if (x->sa) { for (i = 0; i < x->len; ++i) if (x->sa[i].s) free(x->sa[i].s); free(x->sa); }
  x->sa = 0; x->len = 0; x->a = 0;
}

static substdio c20_ssin, c20_ssout, c20_sserr;
static char c20_inbuf[512], c20_outbuf[256], c20_errbuf[256];
static char mftpath[400];

int LLVMFuzzerInitialize(int *argc, char ***argv)
{
  c20_target = "inject";
  c20_mkhome(); c20_homedir("control");
  c20_homefile("control/me", "mx.example.org\n");
  c20_homefile("control/defaultdomain", "example.org\n");
  c20_homefile("control/plusdomain", "plus.example\n");
  c20_homefile("mft", "list@example.org\nother@lists.example\n");
  snprintf(mftpath, sizeof mftpath, "%s/mft", c20_home);
  subfdin = &c20_ssin; subfdout = &c20_ssout; subfderr = &c20_sserr;
  return 0;
}

static const int ok_exits[] = { 0, 100, 111, -1 };
static const char *strategy[4] = { 0, "-a", "-h", "-H" };
static const char *envnames[] = { "QMAILINJECT", "QMAILNAME", "QMAILUSER", "QMAILHOST" };

int LLVMFuzzerTestOneInput(const uint8_t *data, size_t size)
{
  unsigned fl; char *f[8]; int nf, want, k = 0, i, ac = 0; char *av[12]; const uint8_t *rest; size_t nrest;
  if (size < 1) return 0;
  fl = data[0]; ++data; --size;
  /* reset: everything main() and its callees leave behind */
  flagdeletesender = flagdeletefrom = flagdeletemessid = flagnamecomment = flaghackmess = flaghackrecip = 0;
  SA_FREE(sender); SA_FREE(envsbuf); TA_FREE(envs);
  saa_free(&savedh); saa_free(&hrlist); saa_free(&tocclist); saa_free(&hrrlist); saa_free(&reciplist);
  SA_FREE(hfbuf); TA_FREE(hfin); TA_FREE(hfrewrite); TA_FREE(hfaddr); SA_FREE(torecip); TA_FREE(tr);
  SA_FREE(defaultfrom); TA_FREE(df); SA_FREE(defaultreturnpath); TA_FREE(drp); SA_FREE(hackedruser);
  if (flagmft) { constmap_free(&mapmft); flagmft = 0; } SA_FREE(mft);
  flagresent = 0; flagrh = 0; flagqueue = 1;
  subgetoptind = 1; subgetoptpos = 0;
  SS_INIT(c20_ssin, c20_read, 0, c20_inbuf); SS_INIT(c20_ssout, c20_write, 1, c20_outbuf); SS_INIT(c20_sserr, c20_write, 2, c20_errbuf);
  qq_set((fl >> 4) & 3, 0);

  want = ((fl & 8) ? 1 : 0) + (((fl & 3) == 1 || (fl & 3) == 3) ? 2 : 0) + ((fl & 64) ? 4 : 0);
  nf = c20_fields(data, size, f, want, &rest, &nrest);
  av[ac++] = "qmail-inject";
  if (strategy[fl & 3]) av[ac++] = (char *)strategy[fl & 3];
  if (fl & 4) av[ac++] = "-n";
  if ((fl & 8) && k < nf) { av[ac++] = "-f"; av[ac++] = f[k++]; }
  if ((fl & 3) == 1 || (fl & 3) == 3) { av[ac++] = "--"; for (i = 0; i < 2 && k < nf; ++i) av[ac++] = f[k++]; }
  av[ac] = 0;
  for (i = 0; i < 4; ++i) if ((fl & 64) && k < nf) setenv(envnames[i], f[k++], 1); else unsetenv(envnames[i]);
  if (fl & 128) setenv("QMAILMFTFILE", mftpath, 1); else unsetenv("QMAILMFTFILE");
  c20_setin(rest, nrest, (fl & 32) ? 13 : 0);
  C20_CALL(inject_main(ac, av));
  c20_check_exit(ok_exits);
  for (i = 0; i < nf; ++i) free(f[i]);
  return 0;
}
