/* C20 target qmqpd: the whole main() of qmail-qmqpd.c with the queue stubbed.
 * input = flags byte + raw QMQP client bytes.  Documented exits: 0, 100 (bad protocol), 111 (resources). */
#include "c20.h"
#include "c20_qq.h"
#include "sig.h"
#define sig_alarmcatch(f) ((void)0)      /* SIGALRM belongs to libFuzzer */
#define sig_pipeignore() ((void)0)
#define alarm(n) ((void)0)
#define read c20_read
#define write c20_write
#define main qmqpd_main
#include "qmail-qmqpd.c"
#undef main

int LLVMFuzzerInitialize(int *argc, char ***argv)
{
  c20_target = "qmqpd";
  c20_mkhome();
  setenv("TCPREMOTEIP", "192.0.2.7", 1); setenv("TCPREMOTEHOST", "client.example", 1); setenv("TCPLOCALHOST", "mx.example.org", 1);
  setenv("TCPREMOTEINFO", "who", 1);
  return 0;
}

static const int ok_exits[] = { 0, 100, 111, -1 };
static const size_t chunks[4] = { 0, 1, 7, 100 };

int LLVMFuzzerTestOneInput(const uint8_t *data, size_t size)
{
  unsigned fl;
  if (size < 1) return 0;
  fl = data[0];
  SS_INIT(ssin, saferead, 0, ssinbuf); SS_INIT(ssout, safewrite, 1, ssoutbuf);
  bytesleft = 100; flagok = 1; memset(buf, 0, sizeof buf);
  qq_set((fl >> 3) & 3, ((fl >> 3) & 3) == 3 && ((fl >> 5) & 1));
  c20_setin(data + 1, size - 1, chunks[(fl >> 6) & 3]);
  C20_CALL(qmqpd_main());
  c20_check_exit(ok_exits);
  { size_t sk; int big = c20_hugelen(data + 1, size - 1, &sk);
    if (!big && sk) big = c20_hugelen(data + 1 + sk, size - 1 - sk, 0);       /* outer length fine: look at the message length */
    if (big && qq_opened) c20_lenfail("qmqpd"); }
  return 0;
}
