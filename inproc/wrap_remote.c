/* qmail-remote.c as a library (globals localised by objcopy --localize-hidden). */
#include <unistd.h>
#include <setjmp.h>
#include <string.h>
#include <stdlib.h>
#define VQ_API __attribute__((visibility("default")))
static jmp_buf rm_jmp; static int rm_code;
static __attribute__((noreturn)) void rm_exit(int c) { rm_code = c; longjmp(rm_jmp, 1); }
#define _exit(x) rm_exit(x)
#define main remote_main
#include "qmail-remote.c"
#undef main
#undef _exit

static const unsigned char *in_s; static size_t in_n, in_pos; static const size_t *in_chunks; static size_t in_nchunks, in_ci; static int in_err_at = -1;
static unsigned char *wout; static size_t wout_n, wout_cap;
static unsigned char *rep; static size_t rep_n, rep_cap;

static ssize_t rd_stub(int fd, char *buf, size_t len)
{
  size_t k = in_n - in_pos;
  if (in_err_at >= 0 && (size_t)in_err_at <= in_pos) { errno = EIO; return -1; }
  if (in_ci < in_nchunks) { if (in_chunks[in_ci] < k) k = in_chunks[in_ci]; ++in_ci; }
  if (k > len) k = len;
  if (in_err_at >= 0 && in_pos + k > (size_t)in_err_at) k = in_err_at - in_pos;
  memcpy(buf, in_s + in_pos, k); in_pos += k;
  return k;
}
/* short writes: a write() on a socket may legally take fewer bytes than offered; when armed, every call takes 1..7 bytes */
static unsigned wshort;
VQ_API void vq_remote_wshort(unsigned seed) { wshort = seed; }
static ssize_t wr_stub(int fd, const char *buf, size_t len)
{
  if (wshort && len > 1) { size_t k; wshort = wshort * 1103515245u + 12345u; k = 1 + (wshort >> 16) % 7; if (k < len) len = k; }
  if (wout_n + len + 1 > wout_cap) { wout_cap = (wout_n + len + 1) * 2; wout = realloc(wout, wout_cap); }
  memcpy(wout + wout_n, buf, len); wout_n += len;
  return len;
}
static ssize_t rep_stub(int fd, const char *buf, size_t len)
{
  if (rep_n + len + 1 > rep_cap) { rep_cap = (rep_n + len + 1) * 2; rep = realloc(rep, rep_cap); }
  memcpy(rep + rep_n, buf, len); rep_n += len;
  return len;
}
ssize_t timeoutread(int t, int fd, char *buf, size_t len) { return 0; }
ssize_t timeoutwrite(int t, int fd, const void *buf, size_t len) { return wr_stub(fd, buf, len); }

static char repbuf[256];
/* encode message m: returns 0 = blast returned, 1 = exited through _exit (report in *report) */
VQ_API int vq_remote_blast(const unsigned char *s, size_t n, const size_t *chunks, size_t nchunks, int err_at,
                           unsigned char **wire, size_t *nwire, unsigned char **report, size_t *nreport, int *critical)
{
  in_s = s; in_n = n; in_pos = 0; in_chunks = chunks; in_nchunks = nchunks; in_ci = 0; in_err_at = err_at;
  wout_n = 0; rep_n = 0;
  if (!rep) { rep_cap = 64; rep = malloc(rep_cap); } if (!wout) { wout_cap = 64; wout = malloc(wout_cap); }
  substdio_fdbuf(&ssin, rd_stub, -1, inbuf, sizeof inbuf);
  substdio_fdbuf(&smtpto, wr_stub, -1, smtptobuf, sizeof smtptobuf);
  substdio_fdbuf(subfdoutsmall, rep_stub, 1, repbuf, sizeof repbuf);
  flagcritical = 0;
  if (setjmp(rm_jmp)) {
    *wire = wout; *nwire = wout_n; *report = rep; *nreport = rep_n; *critical = flagcritical;
    return 1;
  }
  blast();
  *wire = wout; *nwire = wout_n; *report = rep; *nreport = rep_n; *critical = flagcritical;
  return 0;
}
