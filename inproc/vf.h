/* Common helpers for the in-process harnesses (C). */
#ifndef VF_H
#define VF_H
#include <setjmp.h>
#include <stdio.h>
#include <stdlib.h>
#include <string.h>
#include <stdint.h>
#include <unistd.h>

static jmp_buf vf_jmp;
static int vf_exitcode;
static int vf_armed;
__attribute__((noreturn)) void vf_exit(int code)
{
  vf_exitcode = code;
  if (vf_armed) longjmp(vf_jmp, 1);
  fflush(0);
  _Exit(code);
}

/* growable byte buffer */
typedef struct { unsigned char *s; size_t len, cap; } vbuf;
static void vb_reset(vbuf *b) { if (!b->s) { b->cap = 64; b->s = malloc(64); } b->len = 0; b->s[0] = 0; }
static void vb_put(vbuf *b, const void *p, size_t n)
{
  if (b->len + n + 1 > b->cap) { b->cap = (b->len + n + 1) * 2 + 64; b->s = realloc(b->s, b->cap); }
  memcpy(b->s + b->len, p, n); b->len += n; b->s[b->len] = 0;
}
static void vb_putc(vbuf *b, int c) { unsigned char ch = c; vb_put(b, &ch, 1); }
static int vb_eq(const vbuf *a, const vbuf *b) { return a->len == b->len && (a->len == 0 || !memcmp(a->s, b->s, a->len)); }

static void vf_hex(FILE *f, const unsigned char *s, size_t n) { size_t i; for (i = 0; i < n; ++i) fprintf(f, "%02x", s[i]); }

/* counters */
#define VF_NCLS 24
static unsigned long long vf_evals, vf_nontrivial, vf_slack;
static unsigned long long vf_cls[VF_NCLS];
static const char *vf_clsname[VF_NCLS];
static unsigned char vf_samples[8][64]; static size_t vf_samplelen[8]; static int vf_nsamples;

static void vf_sample(const unsigned char *s, size_t n)
{
  if (vf_nsamples < 8 && (vf_evals % 9973) == 1) { if (n > 64) n = 64; memcpy(vf_samples[vf_nsamples], s, n); vf_samplelen[vf_nsamples++] = n; }
}

static void vf_dump_stats(FILE *f)
{
  int i;
  fprintf(f, "STATS {\"evaluations\": %llu, \"nontrivial\": %llu, \"slack\": %llu, \"classes\": {", vf_evals, vf_nontrivial, vf_slack);
  { int first = 1; for (i = 0; i < VF_NCLS; ++i) if (vf_clsname[i]) { fprintf(f, "%s\"%s\": %llu", first ? "" : ", ", vf_clsname[i], vf_cls[i]); first = 0; } }
  fprintf(f, "}, \"samples\": [");
  for (i = 0; i < vf_nsamples; ++i) { fprintf(f, "%s\"", i ? ", " : ""); vf_hex(f, vf_samples[i], vf_samplelen[i]); fprintf(f, "\""); }
  fprintf(f, "]}\n");
  fflush(f);
}

/* splitmix64 for seeded long-input families (the failing input is always dumped verbatim) */
static uint64_t vf_rng_state;
static uint64_t vf_rand(void)
{
  uint64_t z = (vf_rng_state += 0x9E3779B97F4A7C15ULL);
  z = (z ^ (z >> 30)) * 0xBF58476D1CE4E5B9ULL; z = (z ^ (z >> 27)) * 0x94D049BB133111EBULL; return z ^ (z >> 31);
}
#endif
