/* C20: the queue (qmail.o) replaced by a recorder/sink; behaviour chosen per iteration by the decode layer. */
#ifndef C20_QQ_H
#define C20_QQ_H
#include "qmail.h"
static int qq_openfail, qq_failed, qq_res;   /* qq_res: 0 ok, 1 permanent, 2 temporary */
static int qq_opened;                         /* number of qmail_open() calls in this iteration */
static void qq_set(int res, int openfail) { qq_res = res; qq_openfail = openfail; qq_failed = 0; qq_opened = 0; }
int qmail_open(struct qmail *q) { ++qq_opened; if (qq_openfail) return -1; q->flagerr = 0; qq_failed = 0; return 0; }

/* "overflow a length computation": does s start with a decimal netstring length ("digits:") whose value is >= 2^32?
 * Such a length cannot be represented inside the programs' 200000000 guard; accepting it (going on to open the queue) means
 * the length computation wrapped or was truncated.  *skip = offset just after the ':' when a length was parsed. */
static int c20_hugelen(const uint8_t *s, size_t n, size_t *skip)
{
  size_t i = 0; unsigned long long v = 0; int big = 0;
  while (i < n && s[i] >= '0' && s[i] <= '9') { if (v > 429496729ULL) big = 1; else v = v * 10 + (s[i] - '0'); if (v >> 32) big = 1; ++i; }
  if (!i || i >= n || s[i] != ':') { if (skip) *skip = 0; return 0; }
  if (skip) *skip = i + 1;
  return big;
}
static void c20_lenfail(const char *t) { fprintf(stderr, "C20-ORACLE: target %s: a netstring length >= 2^32 was accepted (length computation overflowed)\n", t); __builtin_trap(); }
void qmail_put(struct qmail *q, const char *s, size_t n) { c20_write(-1, s, n); }
void qmail_from(struct qmail *q, const char *s) { c20_sinkstr(s); }
void qmail_to(struct qmail *q, const char *s) { c20_sinkstr(s); }
void qmail_fail(struct qmail *q) { qq_failed = 1; }
unsigned long qmail_qp(struct qmail *q) { return 4242; }
char *qmail_close(struct qmail *q)
{
  if (qq_failed) return "Zqq write error or disk full (#4.3.0)";
  return qq_res == 1 ? "Dmail server permanently rejected message (#5.3.0)" : qq_res == 2 ? "Zqq temporary problem (#4.3.0)" : "";
}
#endif
