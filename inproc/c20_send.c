/* C20 target send: qmail-send.c
 *   mode 0: todo_do() on a generated envelope (todo/12: wrong letters, no NUL, long records) in a scratch queue directory
 *   mode 1: del_dochan() on a generated report stream from a spawner, with deliveries started through job_open/del_start
 *           (REPORTMAX clamp, delnum range check, K/Z/D handling -> addbounce, markdone, job_close)
 *   mode 2: rewrite(), senderadd(), stripvdomprepend()+addbounce(), getinfo() on generated strings / info file
 * pass_dochan() is NOT covered (needs a consistent job/prioq/clock state; left out).
 * open_read/open_write/open_append are in-memory files; write() is a sink; the qmail-clean reply is always "+";
 * sleep() ("HELP! sleeping...") ends the iteration.
 * input = flags byte + mode specific bytes (see below).  Documented exits: 0, 111. */
#include "c20.h"
#include "c20_qq.h"
#include <sys/time.h>
#include <sys/select.h>
#include "sig.h"
#include "open.h"
#include "ndelay.h"
#include "trigger.h"

static const uint8_t *todobytes, *infobytes; static size_t todolen, infolen;
int open_read(const char *fn)
{
  char p[600];
  if (!strncmp(fn, "todo/", 5)) return c20_memfile(todobytes, todolen);
  if (!strncmp(fn, "info/", 5)) return c20_memfile(infobytes, infolen);
  if (fn[0] == '/') return open(fn, O_RDONLY | O_NDELAY);
  snprintf(p, sizeof p, "%s/%s", c20_home, fn);            /* control files (start-up only) */
  return open(p, O_RDONLY | O_NDELAY);
}
int open_write(const char *fn) { static const char z[64]; return c20_memfile(z, sizeof z); }
int open_append(const char *fn) { return c20_memfile("", 0); }

static ssize_t c20_sendread(int fd, void *buf, size_t len)
{
  if (fd == 6) { if (!len) return 0; *(char *)buf = '+'; return 1; }      /* qmail-clean */
  return c20_read(fd, buf, len);
}
#define read c20_sendread
#define write c20_write
#define sleep(n) _exit(0)
#define ndelay_on(fd) 0
#define trigger_set() ((void)0)
#define trigger_pulled(r) 1
#define trigger_selprep(a,b) ((void)0)
#define main send_main
#include "qmail-send.c"
#undef main
#include "qsutil.c"
#undef read
#undef write
#undef sleep

int LLVMFuzzerInitialize(int *argc, char ***argv)
{
  static const char *dirs[] = { "control", "queue", "queue/todo", "queue/mess", "queue/mess/12", "queue/info", "queue/info/12",
                                "queue/local", "queue/local/12", "queue/remote", "queue/remote/12", "queue/bounce", "queue/lock", 0 };
  int i; char q[400];
  c20_target = "send";
  c20_mkhome();
  for (i = 0; dirs[i]; ++i) c20_homedir(dirs[i]);
  c20_homefile("control/me", "mx.example.org\n");
  c20_homefile("control/locals", "local.example\nmx.example.org\n");
  c20_homefile("control/virtualdomains", "virt.example:alias-virt\n.wild.example:wild\nuser@both.example:x\nempty.example:\n");
  c20_homefile("control/percenthack", "hack.example\n");
  c20_homefile("queue/todo/12", "");          /* only the directory entry matters: the bytes come from open_read() */
  c20_homefile("queue/mess/12/12", "Subject: x\n\nbody\n");
  C20_CALL({ if (!getcontrols()) _exit(111); });
  if (c20_code != -1) { fprintf(stderr, "C20-HARNESS: send getcontrols() failed\n"); _Exit(97); }
  snprintf(q, sizeof q, "%s/queue", c20_home);
  if (chdir(q) == -1) { perror("C20-HARNESS: chdir queue"); _Exit(97); }
  numjobs = concurrency[0] + concurrency[1];
  fnmake_init(); comm_init(); job_init(); del_init(); pass_init(); cleanup_init();
  return 0;
}

static const int ok_exits[] = { 0, 111, -1 };
static const size_t chunks[4] = { 0, 1, 33, 500 };

static void reset(void)
{
  int c; unsigned int i; int j;
  if (tododir) { closedir(tododir); tododir = 0; }
  SA_FREE(todoline); SA_FREE(rwline); SA_FREE(bouncetext);
  if (pqdone.p) free(pqdone.p); pqdone.p = 0; pqdone.len = pqdone.a = 0;
  for (c = 0; c < CHANNELS; ++c) {
    if (pqchan[c].p) free(pqchan[c].p); pqchan[c].p = 0; pqchan[c].len = pqchan[c].a = 0;
    for (i = 0; i < concurrency[c]; ++i) { d[c][i].used = 0; SA_FREE(d[c][i].recip); }
    concurrencyused[c] = 0; flagspawnalive[c] = 1; SA_FREE(comm_buf[c]); comm_pos[c] = 0;
    SA_FREE(dline[c]); if (!stralloc_copys(&dline[c], "")) _Exit(97);
  }
  for (j = 0; j < numjobs; ++j) { jo[j].refs = 0; SA_FREE(jo[j].sender); }
  masterdelid = 1; flagexitasap = 0; recent = 1000000000; nexttodorun = 0;
}

static void mode_todo(void) { int k; fd_set r; FD_ZERO(&r); for (k = 0; k < 5; ++k) { todo_do(&r); if (!tododir && k) break; } }

static void mode_del(unsigned fl, char **f, int nf)
{
  int c = (fl >> 2) & 1, k, j, n = 1 + ((fl >> 3) & 3);
  for (k = 0; k < n; ++k) {
    j = job_open(12UL, c); if (j == -1) break;
    jo[j].retry = 0; jo[j].flagdying = (fl >> 5) & 1; jo[j].numtodo = 1;
    if (!stralloc_copys(&jo[j].sender, nf > 0 ? f[0] : "") || !stralloc_0(&jo[j].sender)) _Exit(97);
    del_start(j, (seek_pos)(10 * k), nf > 1 ? f[1] : "r@remote.example");
    comm_buf[c].len = 0;                      /* the spawner has taken the command */
    job_close(j);                             /* pass_dochan drops its own reference once the delivery holds one */
  }
  while (c20_inpos < c20_inlen) del_dochan(c);
}

static void mode_misc(char **f, int nf)
{
  static stralloc sa; datetime_sec dt; char *r = c20_cstr((const uint8_t *)(nf > 0 ? f[0] : ""), strlen(nf > 0 ? f[0] : ""));
  int w = rewrite(r);
  if (w != 0 && w != 1 && w != 2) { fprintf(stderr, "C20-ORACLE: target send: rewrite returned %d\n", w); __builtin_trap(); }
  if (w) c20_write(-1, rwline.s, rwline.len);
  SA_FREE(sa); senderadd(&sa, nf > 1 ? f[1] : "", nf > 0 ? f[0] : ""); c20_write(-1, sa.s, sa.len);
  c20_sinkstr(stripvdomprepend(nf > 0 ? f[0] : ""));
  addbounce(12UL, nf > 0 ? f[0] : "", nf > 2 ? f[2] : "");
  SA_FREE(sa); if (getinfo(&sa, &dt, 12UL)) c20_write(-1, sa.s, sa.len);
  free(r);
}

int LLVMFuzzerTestOneInput(const uint8_t *data, size_t size)
{
  unsigned fl; char *f[3]; int nf = 0, i; const uint8_t *rest; size_t nrest;
  if (size < 1) return 0;
  fl = data[0]; ++data; --size;
  reset();
  switch (fl & 3) {
    case 0: case 3:                                   /* flags, envelope bytes */
      todobytes = data; todolen = size;
      C20_CALL(mode_todo());
      break;
    case 1:                                           /* flags, sender\0 recip\0, report stream */
      nf = c20_fields(data, size, f, 2, &rest, &nrest);
      c20_setin(rest, nrest, chunks[(fl >> 6) & 3]);
      C20_CALL(mode_del(fl, f, nf));
      break;
    default:                                          /* flags, recip\0 sender\0 report\0, info file bytes */
      nf = c20_fields(data, size, f, 3, &rest, &nrest);
      infobytes = rest; infolen = nrest;
      C20_CALL(mode_misc(f, nf));
  }
  c20_check_exit(ok_exits);
  for (i = 0; i < nf; ++i) free(f[i]);
  return 0;
}
