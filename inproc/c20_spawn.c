/* C20 target spawn: the whole main() of spawn.c (getcmd/docmd, the select loop, report truncation) with qmail-lspawn's or
 * qmail-rspawn's report(); fork/exec, pipes, select and the children are scripted.
 * input = flags byte, len(2, big endian) + command stream from qmail-send, then for every started delivery (in order):
 *         exit status byte, crash-signal byte, len(2) + the child's output.
 * Message files are real files below <home>/queue/mess.  Documented exits: 0 (EOF and idle), 111. */
#include "c20.h"
#include <sys/select.h>
#include "sig.h"
#include "wait.h"

/* scripted children */
#define FAKEFD 500
#define MAXKID 40
struct kid { int used, dead, wstat; uint8_t *out; size_t len, pos; };
static struct kid kids[MAXKID]; static int nkids, spawnfail;
static const uint8_t *kidscript; static size_t kidscriptlen;
static int use_rspawn;

static int c20_pipe(int pi[2])
{
  if (nkids >= MAXKID) { errno = EMFILE; return -1; }
  pi[0] = FAKEFD + 2 * nkids; pi[1] = FAKEFD + 2 * nkids + 1; return 0;
}
static int c20_close(int fd) { if (fd >= FAKEFD || fd <= 2) return 0; return close(fd); }
static ssize_t c20_kidread(int fd, void *buf, size_t len)
{
  if (fd == 0) return c20_read(fd, buf, len);
  if (fd >= FAKEFD && (fd - FAKEFD) / 2 < nkids) {
    struct kid *k = &kids[(fd - FAKEFD) / 2]; size_t n = k->len - k->pos;
    if (n > len) n = len; if (n > 100) n = 100;
    if (n) memcpy(buf, k->out + k->pos, n); k->pos += n;
    return (ssize_t)n;
  }
  errno = EBADF; return -1;
}
static int c20_wait_nohang(int *wstat)
{
  int i;
  for (i = 0; i < nkids; ++i) if (kids[i].used && kids[i].dead == 1) { kids[i].dead = 2; *wstat = kids[i].wstat; return 5000 + i; }
  return 0;
}
void sigchld();
static int c20_select(int nfds, fd_set *r, fd_set *w, fd_set *e, void *tv)
{
  int i, n = 0; fd_set in = *r;
  FD_ZERO(r);
  /* children whose output has been consumed die now (SIGCHLD handler runs, as it would between two selects) */
  for (i = 0; i < nkids; ++i) if (kids[i].used && !kids[i].dead && kids[i].pos >= kids[i].len) kids[i].dead = 1;
  sigchld();
  if (FD_ISSET(0, &in)) { FD_SET(0, r); ++n; }
  for (i = 0; i < nkids; ++i) { int fd = FAKEFD + 2 * i; if (fd < FD_SETSIZE && FD_ISSET(fd, &in)) { FD_SET(fd, r); ++n; } }
  if (!n) { fprintf(stderr, "C20-HARNESS: spawn select() with nothing to wait for\n"); _Exit(97); }
  return n;
}

#define pipe c20_pipe
#define close c20_close
#define read c20_kidread
#define write c20_write
#define select c20_select
#define wait_nohang c20_wait_nohang
#define sig_pipeignore() ((void)0)
#define sig_childcatch(f) ((void)0)
#define sig_childblock() ((void)0)
#define sig_childunblock() ((void)0)
#define main spawn_main
#include "spawn.c"
#undef main
#undef read
#undef write
#undef close
#undef pipe
#undef select

/* the two report() implementations, renamed */
#define report rspawn_report
#define spawn rspawn_spawn
#define initialize rspawn_initialize
#define truncreport rspawn_truncreport
#include "qmail-rspawn.c"
#undef report
#undef spawn
#undef initialize
#undef truncreport
#define report lspawn_report
#define spawn lspawn_spawn
#define initialize lspawn_initialize
#define truncreport lspawn_truncreport
#include "qmail-lspawn.c"
#undef report
#undef spawn
#undef initialize
#undef truncreport

int truncreport;
void initialize(int argc, char **argv) { auto_uidq = getuid(); }
void report(substdio *ss, int wstat, char *s, int len)
{
  if (use_rspawn) rspawn_report(ss, wstat, s, len); else lspawn_report(ss, wstat, s, len);
}
int spawn(int fdmess, int fdout, char *s, char *r, int at)
{
  struct kid *k; size_t n;
  c20_sinkstr(s); c20_sinkstr(r); c20_sinkstr(r + at + 1);
  if (spawnfail || nkids >= MAXKID) { errno = EAGAIN; return -1; }
  k = &kids[nkids]; memset(k, 0, sizeof *k); k->used = 1;
  if (kidscriptlen >= 4) {
    k->wstat = (kidscript[1] & 1) ? (kidscript[1] & 127) : (kidscript[0] << 8);
    n = (kidscript[2] << 8) | kidscript[3]; kidscript += 4; kidscriptlen -= 4;
    if (n > kidscriptlen) n = kidscriptlen;
    k->out = malloc(n + 1); if (n) memcpy(k->out, kidscript, n); k->len = n; kidscript += n; kidscriptlen -= n;
    /* qmail-remote.8: "Each report is terminated by a 0 byte": qmail-rspawn's report() relies on it (substdio_puts of the
     * message report).  An unterminated final report is outside the documented child protocol -> terminated here, counted. */
    if (use_rspawn && n && k->out[n - 1]) { k->out[n] = 0; k->len = n + 1; c20_excluded("rspawn_unterminated_report"); }
  } else { k->out = malloc(1); k->len = 0; k->wstat = 0; }
  return 5000 + nkids++;
}

int LLVMFuzzerInitialize(int *argc, char ***argv)
{
  c20_target = "spawn";
  c20_mkhome(); c20_homedir("queue"); c20_homedir("queue/mess"); c20_homedir("queue/mess/0"); c20_homedir("queue/mess/1");
  c20_homefile("queue/mess/0/12", "Subject: x\n\nbody\n"); c20_homefile("queue/mess/1/7", "x\n");
  return 0;
}

static const int ok_exits[] = { 0, 111, -1 };
static char *av[] = { "qmail-spawn", "./Mailbox", 0 };

int LLVMFuzzerTestOneInput(const uint8_t *data, size_t size)
{
  unsigned fl; size_t cl; int i;
  if (size < 3) return 0;
  fl = data[0]; cl = (data[1] << 8) | data[2]; data += 3; size -= 3; if (cl > size) cl = size;
  if (d) { for (i = 0; i < auto_spawn; ++i) if (d[i].output.s) free(d[i].output.s); free(d); d = 0; }
  flagwriting = 1; flagreading = 1; stage = 0; flagabort = 0; delnum = 0;
  SA_FREE(messid); SA_FREE(sender); SA_FREE(recip);
  for (i = 0; i < nkids; ++i) free(kids[i].out);
  nkids = 0; spawnfail = (fl & 2) != 0; use_rspawn = fl & 1;
  truncreport = use_rspawn ? rspawn_truncreport : lspawn_truncreport;
  c20_setin(data, cl, (fl & 4) ? 17 : ((fl & 8) ? 64 : 0));
  kidscript = data + cl; kidscriptlen = size - cl;
  C20_CALL(spawn_main(2, av));
  c20_check_exit(ok_exits);
  /* report() once more on exact-size copies of every child's output (spawn.c keeps it in a stralloc whose slack hides small over-reads) */
  for (i = 0; i < nkids; ++i) {
    char *x = malloc(kids[i].len ? kids[i].len : 1);
    if (kids[i].len) memcpy(x, kids[i].out, kids[i].len);
    SS_INIT(ssout, okwrite, 1, outbuf);
    C20_CALL(report(&ssout, kids[i].wstat, x, (int)kids[i].len));
    free(x);
  }
  return 0;
}
