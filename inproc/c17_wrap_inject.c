/* qmail-inject.c as a library for C17: the argument-recipient path dorecip() = quote2 + token822_parse + rwgeneric + unquote.
 * (no <stdio.h> here: the program defines its own puts()).  Globals localised by objcopy --localize-hidden. */
#include <unistd.h>
#include <setjmp.h>
#include <string.h>
#include <stdlib.h>
#define VQ_API __attribute__((visibility("default")))
static jmp_buf in17_jmp; static int in17_code;
static __attribute__((noreturn)) void in17_exit(int c) { in17_code = c; longjmp(in17_jmp, 1); }
#define _exit(x) in17_exit(x)
#define main inject17_main
#include "qmail-inject.c"
#undef main
#undef _exit

static stralloc sa17 = {0};
static int set17(token822_alloc *ta, stralloc *buf, const char *lead, const char *name)
{
  if (!stralloc_copys(&sa17, lead)) return 0;
  if (!stralloc_cats(&sa17, name)) return 0;
  return token822_parse(ta, &sa17, buf) == 1;      /* exactly what getcontrols() does with the control files */
}

VQ_API int vq17_inject_init(const char *dh, const char *dd, const char *pd)
{
  if (setjmp(in17_jmp)) return 0;
  if (!set17(&defaulthost, &defaulthostbuf, "@", dh)) return 0;
  if (!set17(&defaultdomain, &defaultdomainbuf, ".", dd)) return 0;
  if (!set17(&plusdomain, &plusdomainbuf, ".", pd)) return 0;
  if (!saa_readyplus(&reciplist, 1)) return 0;
  return 1;
}

/* returns 1 and the rewritten envelope recipient, or -1 - exitcode when qmail-inject would have exited */
VQ_API int vq17_dorecip(char *s, char **out, size_t *len)
{
  if (reciplist.len == 1 && reciplist.sa[0].s) { free(reciplist.sa[0].s); reciplist.sa[0].s = 0; }   /* rwappend never frees */
  reciplist.len = 0;
  if (setjmp(in17_jmp)) { *out = 0; *len = 0; return -1 - in17_code; }
  dorecip(s);
  if (reciplist.len != 1) { *out = 0; *len = 0; return 0; }
  *out = reciplist.sa[0].s; *len = reciplist.sa[0].len;
  return 1;
}
