/* qmail-smtpd.c as a library for C17: only addrparse() is used. Every global is localised (objcopy --localize-hidden)
 * except the vq17_* entry point. Modelled on wrap_smtpd.c. */
#include <unistd.h>
#include <setjmp.h>
#include <string.h>
#include <stdlib.h>
#define VQ_API __attribute__((visibility("default")))
static jmp_buf sm17_jmp; static int sm17_code;
static __attribute__((noreturn)) void sm17_exit(int c) { sm17_code = c; longjmp(sm17_jmp, 1); }
#define _exit(x) sm17_exit(x)
#define main smtpd17_main
#include "qmail-smtpd.c"
#undef main
#undef _exit

/* stubs replacing timeoutread.o / timeoutwrite.o / qmail.o (never reached by addrparse) */
ssize_t timeoutread(int t, int fd, char *buf, size_t len) { return 0; }
ssize_t timeoutwrite(int t, int fd, const void *buf, size_t len) { return len; }
int qmail_open(struct qmail *q) { return -1; }
void qmail_put(struct qmail *q, const char *s, size_t n) { }
void qmail_from(struct qmail *q, const char *s) { }
void qmail_to(struct qmail *q, const char *s) { }
void qmail_fail(struct qmail *q) { }
unsigned long qmail_qp(struct qmail *q) { return 0; }
char *qmail_close(struct qmail *q) { return (char *)"Zstub"; }

/* arg = what follows the SMTP verb ("TO:<...>"), NUL terminated and writable.
 * returns addrparse()'s result (1 ok, 0 too long), or -1 - exitcode if the program exited; *out/*len = parsed address without the final NUL */
VQ_API int vq17_addrparse(char *arg, char **out, size_t *len)
{
  int r;
  if (setjmp(sm17_jmp)) { *out = 0; *len = 0; return -1 - sm17_code; }
  r = addrparse(arg);
  *out = addr.s; *len = addr.len ? addr.len - 1 : 0;
  return r;
}
