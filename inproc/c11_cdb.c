/* C11 part B: writer <-> reader differential for the cdb code (cdbmss.c, cdbmake_*.c  vs  cdb_seek.c, cdb_hash.c).
 *   --rand <seed> <count> <tmpfile>     count databases from the seeded generator
 *   --one  <seed> <index> <tmpfile>     re-run exactly the index-th database of that seed (replay)
 * Oracle (independent of the code under test): a plain list of the records in insertion order; for every stored key
 * cdb_seek must return 1 with the length and bytes of the FIRST record carrying that key; for absent keys (random ones,
 * near misses of stored keys, keys hashing into the same table) it must return 0; never -1.
 */
#include "vf.h"
#include <fcntl.h>
#include <errno.h>
#include "cdbmss.h"
#include "cdb.h"

typedef struct { unsigned char *k; unsigned int klen; unsigned char *d; unsigned int dlen; } rec_t;
static rec_t *recs; static size_t nrecs, caprecs;
static char failmsg[600];

static uint32_t ref_hash(const unsigned char *k, unsigned int n)
{ uint32_t h = 5381; while (n--) { h = (h + (h << 5)) ^ *k++; } return h; }

static void recs_reset(void)
{ size_t i; for (i = 0; i < nrecs; ++i) { free(recs[i].k); free(recs[i].d); } nrecs = 0; }

static void recs_add(const unsigned char *k, unsigned int klen, const unsigned char *d, unsigned int dlen)
{
  if (nrecs == caprecs) { caprecs = caprecs * 2 + 64; recs = realloc(recs, caprecs * sizeof *recs); }
  recs[nrecs].k = malloc(klen + 1); memcpy(recs[nrecs].k, k, klen); recs[nrecs].klen = klen;
  recs[nrecs].d = malloc(dlen + 1); memcpy(recs[nrecs].d, d, dlen); recs[nrecs].dlen = dlen;
  ++nrecs;
}

static long ref_find(const unsigned char *k, unsigned int klen)
{ size_t i; for (i = 0; i < nrecs; ++i) if (recs[i].klen == klen && !memcmp(recs[i].k, k, klen)) return (long)i; return -1; }

static unsigned char kbuf[400], dbuf[70000];

static unsigned int gen_key(int fam, int table)
{
  unsigned int n, i;
  for (;;) {
    uint64_t r = vf_rand();
    switch (fam) {
      case 0: n = r % 6; break;                       /* tiny keys: many duplicates */
      case 1: n = r % 301; break;                     /* 0..300 bytes */
      case 2: n = 1 + r % 12; break;
      default: n = r % 40; break;
    }
    for (i = 0; i < n; ++i) { uint64_t x = vf_rand(); kbuf[i] = fam == 0 ? "ab!\0"[x % 4] : (fam == 2 ? (unsigned char)("!joe-list.AB\0\xff"[x % 15]) : (unsigned char)x); }
    if (table < 0 || (ref_hash(kbuf, n) & 255) == (uint32_t)table) return n;
    if (fam == 0) fam = 3;                            /* tiny alphabet cannot hit every table */
  }
}

/* did a probe sequence of the reference table layout wrap around?  (statistics only) */
static int count_wraps(void)
{
  static unsigned int cnt[256]; int wraps = 0, t; size_t i;
  memset(cnt, 0, sizeof cnt);
  for (i = 0; i < nrecs; ++i) ++cnt[ref_hash(recs[i].k, recs[i].klen) & 255];
  for (t = 0; t < 256; ++t) if (cnt[t]) {
    unsigned int len = 2 * cnt[t]; unsigned char *used = calloc(len, 1);
    for (i = 0; i < nrecs; ++i) { uint32_t h = ref_hash(recs[i].k, recs[i].klen); if ((h & 255) == (uint32_t)t) { unsigned int w = (h >> 8) % len; while (used[w]) { if (++w == len) { w = 0; ++wraps; } } used[w] = 1; } }
    free(used);
  }
  return wraps;
}

static int check_key(int fd, const unsigned char *k, unsigned int klen, const char *what)
{
  uint32 dlen = 0xdeadbeef; int r; long want = ref_find(k, klen);
  r = cdb_seek(fd, (char *)k, klen, &dlen);
  if (want < 0) {
    if (r != 0) { snprintf(failmsg, sizeof failmsg, "%s key of %u bytes is not in the database but cdb_seek returned %d (errno %d)", what, klen, r, errno); return 0; }
    return 1;
  }
  if (r != 1) { snprintf(failmsg, sizeof failmsg, "stored key #%ld (%u bytes) : cdb_seek returned %d (errno %d)", want, klen, r, errno); return 0; }
  if (dlen != recs[want].dlen) { snprintf(failmsg, sizeof failmsg, "stored key #%ld: data length %lu, first value has %u", want, (unsigned long)dlen, recs[want].dlen); return 0; }
  if (dlen && cdb_bread(fd, (char *)dbuf, dlen) == -1) { snprintf(failmsg, sizeof failmsg, "stored key #%ld: cdb_bread failed", want); return 0; }
  if (dlen && memcmp(dbuf, recs[want].d, dlen)) { snprintf(failmsg, sizeof failmsg, "stored key #%ld: data differs from the FIRST value stored under the key", want); return 0; }
  return 1;
}

static int one_db(const char *path)
{
  struct cdbmss c; int fd, fam, shape, table = -1; size_t n, i; int dup = 0, wraps;
  uint64_t r = vf_rand();
  recs_reset();
  shape = r % 8;
  switch (shape) {
    case 0: n = (r >> 8) % 4; break;
    case 1: case 2: n = (r >> 8) % 24; break;
    case 3: n = 257 + (r >> 8) % 600; break;                 /* > 256 records: every table in use */
    case 4: n = 2 + (r >> 8) % 9; table = (r >> 40) % 256; break;   /* all keys in ONE table: collisions + wrap-around */
    case 5: n = 1000 + (r >> 8) % 1500; break;               /* > CDBMAKE_HPLIST: second hplist block */
    default: n = (r >> 8) % 80; break;
  }
  fam = (r >> 32) % 4;
  fd = open(path, O_RDWR | O_CREAT | O_TRUNC, 0600);
  if (fd < 0) { perror("open"); exit(2); }
  if (cdbmss_start(&c, fd) == -1) { perror("cdbmss_start"); exit(2); }
  for (i = 0; i < n; ++i) {
    unsigned int klen, dlen, j; uint64_t x = vf_rand();
    if (nrecs && x % 5 == 0) { size_t w = (x >> 8) % nrecs; klen = recs[w].klen; memcpy(kbuf, recs[w].k, klen); ++dup; }   /* duplicate key */
    else if (x % 37 == 1) klen = 0;                                                                                        /* empty key */
    else klen = gen_key(table >= 0 ? 3 : fam, table);
    dlen = (x >> 16) % 23 == 0 ? 5000 + (x >> 24) % 60000 : (x >> 24) % 90;
    for (j = 0; j < dlen; ++j) dbuf[j] = (unsigned char)(i * 7 + j + (x >> 40));
    if (cdbmss_add(&c, kbuf, klen, dbuf, dlen) == -1) { perror("cdbmss_add"); exit(2); }
    recs_add(kbuf, klen, dbuf, dlen);
  }
  if (cdbmss_finish(&c) == -1) { perror("cdbmss_finish"); exit(2); }
  /* the library never frees its bookkeeping */
  { struct cdbmake_hplist *x = c.cdbm.head, *nx; while (x) { nx = x->next; free(x); x = nx; } free(c.cdbm.split); }
  close(fd);
  fd = open(path, O_RDONLY);
  if (fd < 0) { perror("reopen"); exit(2); }
  ++vf_evals;
  wraps = count_wraps();
  if (dup || wraps) ++vf_nontrivial;
  if (dup) ++vf_cls[0];
  if (wraps) ++vf_cls[1];
  if (n > 256) ++vf_cls[2];
  if (n == 0) ++vf_cls[3];
  for (i = 0; i < nrecs; ++i) { if (!check_key(fd, recs[i].k, recs[i].klen, "stored")) { close(fd); return 0; } ++vf_cls[4]; }
  /* absent keys: random, near misses, same-table */
  {
    size_t nabs = nrecs > 200 ? 1000 : 120;
    for (i = 0; i < nabs; ++i) {
      unsigned int klen; uint64_t x = vf_rand();
      if (nrecs && x % 3 == 0) {
        size_t w = (x >> 8) % nrecs; klen = recs[w].klen; memcpy(kbuf, recs[w].k, klen);
        switch ((x >> 32) % 4) {
          case 0: if (klen) --klen; break;                              /* one byte short */
          case 1: kbuf[klen++] = (unsigned char)(x >> 40); break;       /* one byte long */
          case 2: if (klen) kbuf[(x >> 40) % klen] ^= 1 << ((x >> 50) % 8); break;   /* one bit flipped */
          default: if (klen) kbuf[klen - 1] ^= 0x20; break;             /* case of the last byte */
        }
      }
      else if (x % 3 == 1) klen = gen_key(3, table >= 0 ? table : (int)((x >> 8) % 256));
      else if (x % 41 == 2) klen = 0;
      else klen = gen_key(fam, -1);
      if (!check_key(fd, kbuf, klen, "absent")) { close(fd); return 0; }
      if (ref_find(kbuf, klen) < 0) ++vf_cls[5];
    }
  }
  close(fd);
  return 1;
}

int main(int argc, char **argv)
{
  vf_clsname[0] = "db_with_duplicate_keys"; vf_clsname[1] = "db_with_wrapped_probe"; vf_clsname[2] = "db_over_256_records"; vf_clsname[3] = "db_empty";
  vf_clsname[4] = "stored_key_lookups"; vf_clsname[5] = "absent_key_lookups";
  if (argc >= 5 && !strcmp(argv[1], "--rand")) {
    unsigned long long seed = strtoull(argv[2], 0, 10), cnt = strtoull(argv[3], 0, 10), c;
    for (c = 0; c < cnt; ++c) {
      vf_rng_state = seed * 0x9E3779B97F4A7C15ULL + c * 0xD1B54A32D192ED03ULL;     /* every database is reproducible from (seed, index) */
      if (!one_db(argv[4])) { printf("VIOLATION-CASE seed=%llu index=%llu records=%zu msg=%s\n", seed, c, nrecs, failmsg); vf_dump_stats(stdout); unlink(argv[4]); return 1; }
    }
    vf_dump_stats(stdout);
    unlink(argv[4]);
    return 0;
  }
  if (argc >= 5 && !strcmp(argv[1], "--one")) {
    unsigned long long seed = strtoull(argv[2], 0, 10), c = strtoull(argv[3], 0, 10);
    vf_rng_state = seed * 0x9E3779B97F4A7C15ULL + c * 0xD1B54A32D192ED03ULL;
    if (!one_db(argv[4])) { printf("VIOLATION-CASE seed=%llu index=%llu records=%zu msg=%s\n", seed, c, nrecs, failmsg); unlink(argv[4]); return 1; }
    printf("replay ok\n"); unlink(argv[4]);
    return 0;
  }
  fprintf(stderr, "usage\n");
  return 2;
}
