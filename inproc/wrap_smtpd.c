/* qmail-smtpd.c as a library: every global becomes local (objcopy --localize-hidden) except the vq_smtpd_* entry points. */
#include <unistd.h>
#include <setjmp.h>
#include <string.h>
#include <stdlib.h>
#define VQ_API __attribute__((visibility("default")))
static jmp_buf sm_jmp; static int sm_code;
static __attribute__((noreturn)) void sm_exit(int c) { sm_code = c; longjmp(sm_jmp, 1); }
#define _exit(x) sm_exit(x)
#define main smtpd_main
#include "qmail-smtpd.c"
#undef main
#undef _exit

/* ---- stubs replacing timeoutread.o / timeoutwrite.o / qmail.o ---- */
static const unsigned char *in_s; static size_t in_n, in_pos; static const size_t *in_chunks; static size_t in_nchunks, in_ci;
static unsigned char *wout; static size_t wout_n, wout_cap;
static unsigned char *qq; static size_t qq_n, qq_cap; static int qq_fail, qq_closed;
const char *vq_qq_result = "";

ssize_t timeoutread(int t, int fd, char *buf, size_t len)
{
  size_t k = in_n - in_pos;
  if (in_ci < in_nchunks) { if (in_chunks[in_ci] < k) k = in_chunks[in_ci]; ++in_ci; }
  if (k > len) k = len;
  memcpy(buf, in_s + in_pos, k); in_pos += k;
  return k;
}
ssize_t timeoutwrite(int t, int fd, const void *buf, size_t len)
{
  if (wout_n + len + 1 > wout_cap) { wout_cap = (wout_n + len + 1) * 2; wout = realloc(wout, wout_cap); }
  memcpy(wout + wout_n, buf, len); wout_n += len;
  return len;
}
static void qq_add(const char *s, size_t n)
{
  if (qq_n + n + 1 > qq_cap) { qq_cap = (qq_n + n + 1) * 2; qq = realloc(qq, qq_cap); }
  memcpy(qq + qq_n, s, n); qq_n += n;
}
VQ_API int qmail_open(struct qmail *q) { q->flagerr = 0; return 0; }
VQ_API void qmail_put(struct qmail *q, const char *s, size_t n) { qq_add(s, n); }
VQ_API void qmail_from(struct qmail *q, const char *s) { }
VQ_API void qmail_to(struct qmail *q, const char *s) { }
VQ_API void qmail_fail(struct qmail *q) { qq_fail = 1; }
VQ_API unsigned long qmail_qp(struct qmail *q) { return 4242; }
VQ_API char *qmail_close(struct qmail *q) { qq_closed = 1; return (char *)(qq_fail ? "Zfail" : vq_qq_result); }

/* decode a DATA stream: returns 0 = END, 1 = _exit(code) called; outputs stored bytes, consumed count, reply bytes, hops */
VQ_API int vq_smtpd_blast(const unsigned char *s, size_t n, const size_t *chunks, size_t nchunks,
                          unsigned char **stored, size_t *nstored, size_t *consumed,
                          unsigned char **reply, size_t *nreply, int *exitcode, int *hops)
{
  in_s = s; in_n = n; in_pos = 0; in_chunks = chunks; in_nchunks = nchunks; in_ci = 0;
  wout_n = 0; qq_n = 0; qq_fail = 0; qq_closed = 0;
  if (!qq) { qq_cap = 64; qq = malloc(qq_cap); } if (!wout) { wout_cap = 64; wout = malloc(wout_cap); }
  substdio_fdbuf(&ssin, saferead, 0, ssinbuf, sizeof ssinbuf);
  substdio_fdbuf(&ssout, safewrite, 1, ssoutbuf, sizeof ssoutbuf);
  bytestooverflow = 0; databytes = 0;
  *hops = 0;
  if (setjmp(sm_jmp)) {
    *stored = qq; *nstored = qq_n; *consumed = in_pos - ssin.p; *reply = wout; *nreply = wout_n; *exitcode = sm_code;
    return 1;
  }
  blast(hops);
  *stored = qq; *nstored = qq_n; *consumed = in_pos - ssin.p; *reply = wout; *nreply = wout_n; *exitcode = -1;
  return 0;
}
