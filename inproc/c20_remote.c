/* C20 target remote: qmail-remote.c smtp() (smtpcode() reply parser, outsmtptext, quit, blast) and addrmangle()/quote()
 * with scripted arbitrary server bytes.
 * input = flags byte, sender\0 rcpt1\0 rcpt2\0, msglen byte, message, then the server's byte stream.
 * Documented exit status: 0 only (results are reported on stdout). */
#include "c20.h"
#include "sig.h"
#define sig_pipeignore() ((void)0)
#define main remote_main
#include "qmail-remote.c"
#undef main

/* network side: the SMTP server is the fuzz input; the message comes from a second memory reader */
static const uint8_t *srv; static size_t srvlen, srvpos, srvchunk;
ssize_t timeoutread(int t, int fd, char *buf, size_t len)
{
  size_t k = srvlen - srvpos;
  if (k > len) k = len;
  if (srvchunk && k > srvchunk) k = srvchunk;
  if (k) memcpy(buf, srv + srvpos, k);
  srvpos += k;
  return (ssize_t)k;                /* 0 = connection closed -> dropped() */
}
ssize_t timeoutwrite(int t, int fd, const void *buf, size_t len) { return c20_write(fd, buf, len); }
int timeoutconn(int s, struct ip_address *ip, unsigned int port, int timeout) { errno = ECONNREFUSED; return -1; }
int tcpto(struct ip_address *ip) { return 0; }
void tcpto_err(struct ip_address *ip, int flagerr) { }

static substdio c20_report; static char c20_reportbuf[256];

int LLVMFuzzerInitialize(int *argc, char ***argv) { c20_target = "remote"; subfdoutsmall = &c20_report; return 0; }

static const int ok_exits[] = { 0, -1 };

static void go(char **f, int nf)
{
  int i;
  if (!stralloc_copys(&helohost, "mx.example.org")) temp_nomem();
  if (!stralloc_copys(&host, "remote.example")) temp_nomem();
  addrmangle(&sender, nf > 0 ? f[0] : "");
  if (!saa_readyplus(&reciplist, 0)) temp_nomem();
  for (i = 1; i < nf; ++i) {
    if (!saa_readyplus(&reciplist, 1)) temp_nomem();
    reciplist.sa[reciplist.len] = sauninit;
    addrmangle(reciplist.sa + reciplist.len, f[i]);
    ++reciplist.len;
  }
  smtp();
}

int LLVMFuzzerTestOneInput(const uint8_t *data, size_t size)
{
  unsigned fl; char *f[3]; int nf, i; const uint8_t *rest; size_t nrest, ml; unsigned int k;
  if (size < 1) return 0;
  fl = data[0]; ++data; --size;
  SA_FREE(smtptext); SA_FREE(sender); SA_FREE(canonhost); SA_FREE(canonbox); SA_FREE(host); SA_FREE(helohost); SA_FREE(recip);
  if (reciplist.sa) { for (k = 0; k < reciplist.len; ++k) if (reciplist.sa[k].s) free(reciplist.sa[k].s); free(reciplist.sa); }
  reciplist.sa = 0; reciplist.len = 0; reciplist.a = 0;
  flagcritical = 0; partner.d[0] = 192; partner.d[1] = 0; partner.d[2] = 2; partner.d[3] = fl;
  SS_INIT(ssin, c20_read, 0, inbuf); SS_INIT(smtpto, safewrite, -1, smtptobuf); SS_INIT(smtpfrom, saferead, -1, smtpfrombuf);
  SS_INIT(c20_report, c20_write, 1, c20_reportbuf);
  nf = c20_fields(data, size, f, 1 + (fl & 3) % 3, &rest, &nrest);
  ml = 0;
  if (nrest) { ml = rest[0]; ++rest; --nrest; if (ml > nrest) ml = nrest; }
  c20_setin(rest, ml, (fl & 4) ? 5 : 0);
  srv = rest + ml; srvlen = nrest - ml; srvpos = 0; srvchunk = (fl & 8) ? 1 : ((fl & 16) ? 50 : 0);
  C20_CALL(go(f, nf));
  c20_check_exit(ok_exits);
  if (c20_code == -1) { fprintf(stderr, "C20-ORACLE: target remote: smtp() returned (it must not)\n"); __builtin_trap(); }
  for (i = 0; i < nf; ++i) free(f[i]);
  return 0;
}
