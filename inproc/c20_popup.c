/* C20 target popup: qmail-popup.c pop3_greet() + commands() loop + USER/PASS/APOP handlers; pipe/fork/exec/wait of
 * doanddie() are scripted (the checkpassword child "exits" with the status taken from the flags byte).
 * input = flags byte + raw POP3 client bytes.  Exits: qmail-popup.8 documents none; die() is _exit(1), so 0 and 1 are accepted. */
#include "c20.h"
#include "sig.h"
#include "wait.h"
static int c20_pipe(int pi[2]) { pi[0] = 3; pi[1] = 700; return 0; }
static int c20_close(int fd) { return 0; }
static int kidstat;
static int c20_fork(void) { return 4711; }
static int c20_wait_pid(int *wstat, int pid) { *wstat = kidstat; return pid; }
#define sig_alarmcatch(f) ((void)0)
#define sig_pipeignore() ((void)0)
#define pipe c20_pipe
#define close c20_close
#define fork c20_fork
#define write c20_write
#define wait_pid c20_wait_pid
#define puts popup_puts
#define main popup_main
#include "qmail-popup.c"
#undef main
#undef close
#undef write
#include "commands.c"

ssize_t timeoutread(int t, int fd, char *buf, size_t len) { return c20_read(fd, buf, len); }
ssize_t timeoutwrite(int t, int fd, const void *buf, size_t len) { return c20_write(fd, buf, len); }

int LLVMFuzzerInitialize(int *argc, char ***argv) { c20_target = "popup"; return 0; }

static const int ok_exits[] = { 0, 1, -1 };
static const size_t chunks[4] = { 0, 1, 5, 60 };
static char *kidargs[] = { "checkpassword", "qmail-pop3d", "Maildir", 0 };

static void session(void) { pop3_greet(); commands(&ssin, pop3commands); die(); }

int LLVMFuzzerTestOneInput(const uint8_t *data, size_t size)
{
  unsigned fl;
  if (size < 1) return 0;
  fl = data[0];
  SA_FREE(username); SA_FREE(cmd); seenuser = 0; hostname = "pop.example.org"; childargs = kidargs;
  kidstat = (fl & 1) ? ((fl & 2) ? 11 : (1 << 8)) : 0;
  SS_INIT(ssin, saferead, 0, ssinbuf); SS_INIT(ssout, safewrite, 1, ssoutbuf);
  c20_setin(data + 1, size - 1, chunks[(fl >> 6) & 3]);
  C20_CALL(session());
  c20_check_exit(ok_exits);
  return 0;
}
