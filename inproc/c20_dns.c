/* C20 target dns: dns.c dns_mxip / dns_ip / dns_ptr with res_query/res_search replaced by a stub that serves
 * wire-format answers decoded from the fuzz input straight into dns.c's own heap buffer (malloc(PACKETSZ+1) = 513 bytes,
 * later realloc to 65536), so that an over-read at the buffer end is an ASan heap-buffer-overflow.
 *
 * input = entry byte, host name (NUL-terminated), then answer records served one per lookup:
 *     mode(1) hlen(1) tlen(1) head[hlen] tail[tlen]
 *   mode & 7  : answer size  0/6 exact (head||tail), 1: 512, 2: anslen, 3: anslen-1, 4: 65535, 5: 513, 7: 511
 *               padded answers are head || one filler RR of an unused type || tail, i.e. the tail ENDS exactly at the size
 *   mode & 8  : set the TC bit;  mode & 0xC0 == 0xC0: lookup fails (h_errno TRY_AGAIN / NO_DATA, errno ECONNREFUSED / 0)
 * The stub obeys the resolver contract: it never returns more than anslen, and never more than 65535 (TCP length field).
 * (F7 - findip/findmx reading rdata beyond the buffer end - was found by this target and fixed in /repo 2d89f0c; the minimal
 * inputs are corpus/C20/dns/regress-f7-*.)  No exits (library code).  Return values must be one of the documented DNS_* codes. */
#include "c20.h"
#include <netdb.h>
#include <netinet/in.h>
#include <arpa/nameser.h>
#include <resolv.h>
static int c20_res_query(const char *name, int class, int type, unsigned char *answer, int anslen);
#define res_query c20_res_query
#define res_search c20_res_query
#include "dns.c"
#undef res_query
#undef res_search

struct resp { unsigned mode; const uint8_t *head; size_t hlen; const uint8_t *tail; size_t tlen; };
static struct resp resps[24]; static int nresp, iresp;

static int c20_res_query(const char *name, int class, int type, unsigned char *answer, int anslen)
{
  struct resp *r; size_t n, cap, want, raw, gap;
  c20_sinkstr(name);
  errno = 0;
  if (iresp >= nresp) { h_errno = HOST_NOT_FOUND; return -1; }
  r = &resps[iresp++];
  if ((r->mode & 0xC0) == 0xC0) { h_errno = (r->mode & 1) ? TRY_AGAIN : NO_DATA; errno = (r->mode & 2) ? ECONNREFUSED : 0; return -1; }
  raw = r->hlen + r->tlen;
  switch (r->mode & 7) {
    case 1: want = 512; break;      case 2: want = anslen; break;  case 3: want = anslen - 1; break;
    case 4: want = 65535; break;    case 5: want = 513; break;     case 7: want = 511; break;
    default: want = raw;
  }
  cap = anslen < 65535 ? anslen : 65535;
  n = want < cap ? want : cap;
  if (n == 0) { h_errno = NO_DATA; return -1; }
  if (raw >= n) {                       /* no room for padding: head||tail cut at n */
    size_t h = r->hlen < n ? r->hlen : n;
    memcpy(answer, r->head, h);
    if (n > h) memcpy(answer + h, r->tail, n - h);
  } else {
    gap = n - raw;
    memcpy(answer, r->head, r->hlen);
    memset(answer + r->hlen, 0, gap);
    if (gap >= 11) {                    /* filler RR: root name, TYPE 65280, CLASS IN, TTL 0, RDLENGTH gap-11 */
      unsigned char *f = answer + r->hlen;
      f[1] = 0xff; f[2] = 0x00; f[4] = 1; f[9] = (gap - 11) >> 8; f[10] = (gap - 11) & 255;
    }
    memcpy(answer + r->hlen + gap, r->tail, r->tlen);
  }
  if ((r->mode & 8) && n >= 3) answer[2] |= 0x02;
  return (int)n;
}

int LLVMFuzzerInitialize(int *argc, char ***argv) { c20_target = "dns"; return 0; }

static ipalloc ia; static stralloc host;

int LLVMFuzzerTestOneInput(const uint8_t *data, size_t size)
{
  unsigned entry; size_t i, hl; int r;
  if (size < 2) return 0;
  entry = data[0]; ++data; --size;
  /* reset dns.c's statics so that every iteration starts with the 513-byte buffer */
  if (response.buf) free(response.buf); response.buf = 0; responsebuflen = 0; responselen = 0; responseend = responsepos = 0;
  numanswers = 0; memset(name, 0, sizeof name); SA_FREE(glue); lookup = c20_res_query;
  if (ia.ix) free(ia.ix); ia.ix = 0; ia.len = ia.a = 0; SA_FREE(host);
  for (hl = 0; hl < size && hl < 80 && data[hl]; ++hl) ;
  if (!stralloc_copyb(&host, (char *)data, hl)) return 0;
  data += hl; size -= hl; if (size) { ++data; --size; }
  nresp = iresp = 0;
  while (size >= 3 && nresp < 24) {
    struct resp *p = &resps[nresp++];
    p->mode = data[0]; p->hlen = data[1]; p->tlen = data[2]; data += 3; size -= 3;
    if (p->hlen > size) p->hlen = size; p->head = data; data += p->hlen; size -= p->hlen;
    if (p->tlen > size) p->tlen = size; p->tail = data; data += p->tlen; size -= p->tlen;
  }
  switch (entry & 3) {
    case 0: case 3: r = dns_mxip(&ia, &host, (unsigned long)(entry >> 2) * 2654435761UL); break;
    case 1: r = dns_ip(&ia, &host); break;
    default: {
      struct ip_address ipa; ipa.d[0] = entry; ipa.d[1] = 0; ipa.d[2] = 2; ipa.d[3] = entry >> 2;
      r = dns_ptr(&host, &ipa);
      if (r == 0) c20_write(-1, host.s, host.len);
    }
  }
  if (r != 0 && r != 1 && r != DNS_MEM && r != DNS_SOFT && r != DNS_HARD) {
    fprintf(stderr, "C20-ORACLE: target dns: undocumented return value %d\n", r); __builtin_trap();
  }
  for (i = 0; i < ia.len; ++i) c20_write(-1, &ia.ix[i], sizeof ia.ix[i]);
  return 0;
}
