/* C09: qmail-remote.c as a library whose network is a scripted SMTP server (globals localised by
 * objcopy --localize-hidden).  timeoutread()/timeoutwrite() are the script player, so the program's own
 * saferead/safewrite/dropped()/get()/smtpcode()/smtp()/quit()/blast() run unchanged.
 *
 * The scripted server behaves like a lock-step SMTP server: the bytes of phase p (0 = greeting, 1 = HELO,
 * 2 = MAIL, 3.. = RCPT, then DATA, then the final dot) become readable only after the client has sent p complete
 * "units" (a CRLF-terminated command line; after the DATA line one unit = everything up to the line ".").
 * A read with nothing readable is what a real client would experience as a stall until timeoutremote expires:
 * it returns -1/ETIMEDOUT; it is counted in info[C9_STALLS] when the client had not even sent the command (a script
 * that simply ends early is a server that falls silent: a legitimate stall at that phase).
 */
#include <unistd.h>
#include <setjmp.h>
#include <string.h>
#include <stdlib.h>
#include <errno.h>
#define VQ_API __attribute__((visibility("default")))
static jmp_buf c9_jmp; static int c9_code;
static __attribute__((noreturn)) void c9_exit(int c) { c9_code = c; longjmp(c9_jmp, 1); }
#define _exit(x) c9_exit(x)
#define main remote_main
#include "qmail-remote.c"
#undef main
#undef _exit

enum { C9_RETURNED = 0, C9_CRITICAL, C9_STALLS, C9_NREADS, C9_NWRITES, C9_WFAIL_HIT, C9_WFAIL_OFF, C9_WFAIL_LEN,
       C9_UNITS, C9_PHASE_AT_EXIT, C9_BADARGS, C9_NINFO };
#define C9_MAXPH 10

/* script */
static int s_nph; static const unsigned char *const *s_data; static const size_t *s_len; static const int *s_end;
static const size_t *s_chunks; static size_t s_nchunks, s_ci;
static int s_wfail_phase; static long s_wfail_k; static int s_wfail_ret; static size_t s_wmax;
/* player state */
static int p_cur, p_dead, p_deadret; static size_t p_pos;
static long p_units, p_stalls, p_nreads, p_nwrites, p_wfail_hit, p_wfail_off, p_wfail_len, p_badargs;
static long p_wcount[C9_MAXPH + 2];
static int u_mode; static size_t u_ll; static unsigned char u_l[4];
static unsigned char *c9_sent; static size_t c9_sent_n, c9_sent_cap;
static unsigned char *c9_rep; static size_t c9_rep_n, c9_rep_cap;
static const unsigned char *b_s; static size_t b_n, b_pos, b_max;

static void grow(unsigned char **b, size_t *cap, size_t need)
{
  if (need + 1 > *cap) { *cap = (need + 1) * 2 + 64; *b = realloc(*b, *cap); }
}

/* count the units the client has completed */
static void units_feed(const unsigned char *s, size_t n)
{
  size_t i;
  for (i = 0; i < n; ++i) {
    unsigned char ch = s[i];
    if (ch != '\n') { if (u_ll < 4) u_l[u_ll] = ch; ++u_ll; continue; }
    if (u_mode == 0) {
      ++p_units;
      /* "DATA" CR (or bare "DATA"): the server now expects the message */
      if ((u_ll == 5 || u_ll == 4) && (u_l[0] | 32) == 'd' && (u_l[1] | 32) == 'a' && (u_l[2] | 32) == 't' && (u_l[3] | 32) == 'a') u_mode = 1;
    } else {
      if (u_ll == 2 && u_l[0] == '.' && u_l[1] == '\r') { ++p_units; u_mode = 0; }
    }
    u_ll = 0;
  }
}

ssize_t timeoutread(int t, int fd, char *buf, size_t len)
{
  size_t k;
  ++p_nreads;
  if (t != timeout || fd != smtpfd || len == 0) ++p_badargs;
  if (p_dead) { errno = ECONNRESET; return p_deadret; }
  if (p_units < p_cur) { ++p_stalls; p_dead = 1; p_deadret = -1; errno = ETIMEDOUT; return -1; }   /* reply awaited for a command never sent */
  if (p_cur >= s_nph) { p_dead = 1; p_deadret = -1; errno = ETIMEDOUT; return -1; }                  /* script exhausted: the server stays silent */
  k = s_len[p_cur] - p_pos;
  if (k == 0) {
    p_dead = 1;
    if (s_end[p_cur] == 1) { p_deadret = 0; return 0; }
    p_deadret = -1; errno = s_end[p_cur] == 2 ? ETIMEDOUT : ECONNRESET; return -1;
  }
  if (s_ci < s_nchunks) { if (s_chunks[s_ci] && s_chunks[s_ci] < k) k = s_chunks[s_ci]; ++s_ci; }
  if (k > len) k = len;
  memcpy(buf, s_data[p_cur] + p_pos, k); p_pos += k;
  if (p_pos == s_len[p_cur] && s_end[p_cur] == 0) { ++p_cur; p_pos = 0; }
  return k;
}

ssize_t timeoutwrite(int t, int fd, const void *buf, size_t len)
{
  size_t k = len; int ph = p_cur <= C9_MAXPH ? p_cur : C9_MAXPH + 1;
  long idx = p_wcount[ph]++;
  ++p_nwrites;
  if (t != timeout || fd != smtpfd || len == 0) ++p_badargs;
  if (!p_wfail_hit && ph == s_wfail_phase && idx == s_wfail_k) {
    p_wfail_hit = 1; p_wfail_off = c9_sent_n; p_wfail_len = len; errno = EPIPE; return s_wfail_ret;
  }
  if (s_wmax && k > s_wmax) k = s_wmax;
  grow(&c9_sent, &c9_sent_cap, c9_sent_n + k);
  memcpy(c9_sent + c9_sent_n, buf, k); c9_sent_n += k;
  units_feed(buf, k);
  return k;
}

static ssize_t body_read(int fd, char *buf, size_t len)
{
  size_t k = b_n - b_pos;
  if (b_max && k > b_max) k = b_max;
  if (k > len) k = len;
  memcpy(buf, b_s + b_pos, k); b_pos += k;
  return k;
}
static ssize_t rep_write(int fd, const char *buf, size_t len)
{
  grow(&c9_rep, &c9_rep_cap, c9_rep_n + len);
  memcpy(c9_rep + c9_rep_n, buf, len); c9_rep_n += len;
  return len;
}

static char c9_repbuf[256];
static int c9_recips_init;

/* Run one SMTP conversation.  Returns the exit status qmail-remote used (or -1 if smtp() returned). */
VQ_API int vq_c09_smtp(int nrcpt, const char *const *recips, const char *sndr, const char *helo,
                       const unsigned char *body, size_t nbody, size_t bodymax,
                       int nph, const unsigned char *const *phdata, const size_t *phlen, const int *phend,
                       const size_t *chunks, size_t nchunks,
                       int wfail_phase, long wfail_k, int wfail_ret, size_t wmax,
                       unsigned char **report, size_t *nreport, unsigned char **sent, size_t *nsent,
                       long *info, long *wcount)
{
  int i; volatile int returned = 0;
  s_nph = nph; s_data = phdata; s_len = phlen; s_end = phend; s_chunks = chunks; s_nchunks = nchunks; s_ci = 0;
  s_wfail_phase = wfail_phase; s_wfail_k = wfail_k; s_wfail_ret = wfail_ret; s_wmax = wmax;
  p_cur = 0; p_dead = 0; p_deadret = 0; p_pos = 0; p_units = 0; p_stalls = 0; p_nreads = 0; p_nwrites = 0;
  p_wfail_hit = 0; p_wfail_off = 0; p_wfail_len = 0; p_badargs = 0; memset(p_wcount, 0, sizeof p_wcount);
  u_mode = 0; u_ll = 0;
  c9_sent_n = 0; c9_rep_n = 0; grow(&c9_sent, &c9_sent_cap, 16); grow(&c9_rep, &c9_rep_cap, 16);
  b_s = body; b_n = nbody; b_pos = 0; b_max = bodymax;
  c9_code = -1;

  /* every global smtp() and its callees touch */
  substdio_fdbuf(&ssin, body_read, 0, inbuf, sizeof inbuf);
  substdio_fdbuf(&smtpto, safewrite, -1, smtptobuf, sizeof smtptobuf);
  substdio_fdbuf(&smtpfrom, saferead, -1, smtpfrombuf, sizeof smtpfrombuf);
  substdio_fdbuf(subfdoutsmall, rep_write, 1, c9_repbuf, sizeof c9_repbuf);
  flagcritical = 0; smtpfd = 7; timeout = 1200;
  smtptext.len = 0;
  partner.d[0] = 127; partner.d[1] = 0; partner.d[2] = 0; partner.d[3] = 1;

  if (setjmp(c9_jmp) == 0) {
    /* what main() does with its arguments */
    if (!stralloc_copys(&helohost, helo)) abort();
    if (!stralloc_copys(&host, "dst.example")) abort();
    addrmangle(&sender, (char *)sndr);
    if (!saa_readyplus(&reciplist, 0)) abort();
    reciplist.len = 0;
    for (i = 0; i < nrcpt; ++i) {
      if (!saa_readyplus(&reciplist, 1)) abort();
      if (i >= c9_recips_init) { reciplist.sa[reciplist.len] = sauninit; c9_recips_init = i + 1; }
      addrmangle(reciplist.sa + reciplist.len, (char *)recips[i]);
      ++reciplist.len;
    }
    smtp();
    returned = 1;
  }
  *report = c9_rep; *nreport = c9_rep_n; *sent = c9_sent; *nsent = c9_sent_n;
  info[C9_RETURNED] = returned; info[C9_CRITICAL] = flagcritical; info[C9_STALLS] = p_stalls; info[C9_NREADS] = p_nreads;
  info[C9_NWRITES] = p_nwrites; info[C9_WFAIL_HIT] = p_wfail_hit; info[C9_WFAIL_OFF] = p_wfail_off; info[C9_WFAIL_LEN] = p_wfail_len;
  info[C9_UNITS] = p_units; info[C9_PHASE_AT_EXIT] = p_cur; info[C9_BADARGS] = p_badargs;
  for (i = 0; i < C9_MAXPH + 2; ++i) wcount[i] = p_wcount[i];
  return returned ? -1 : c9_code;
}
