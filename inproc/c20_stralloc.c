/* C20 target stralloc: op sequences on stralloc / substdio / getln against a trivial shadow model (lengths and bytes),
 * incl. the CVE-2005-1513 overflow guards (__builtin_*_overflow in readyplus / catb / copyb) with n near UINT_MAX.
 * The guard ops are only issued where the guarded function must return 0 WITHOUT touching the source buffer
 * (n = UINT_MAX for a fresh stralloc; n >= UINT_MAX-40 for an allocated one), so the source pointer is never read.
 * input = op bytes with inline arguments.  No exits. */
#include "c20.h"
#include <limits.h>
#include "stralloc.h"
#include "substdio.h"
#include "getln.h"

#define MODELMAX (1 << 16)
static stralloc sa[2]; static unsigned char *model[2]; static size_t mlen[2];
static const uint8_t *p; static size_t left;

static void fail(const char *what) { fprintf(stderr, "C20-ORACLE: target stralloc: %s\n", what); __builtin_trap(); }
static unsigned take(void) { if (!left) return 0; --left; return *p++; }
static void check(int i)
{
  if (sa[i].s && sa[i].len > sa[i].a) fail("len > a");
  if (sa[i].len != mlen[i]) fail("length differs from the model");
  if (mlen[i] && memcmp(sa[i].s, model[i], mlen[i])) fail("bytes differ from the model");
}
static void mset(int i, const void *s, size_t n) { if (n > MODELMAX) fail("model overflow"); if (n) memmove(model[i], s, n); mlen[i] = n; }
static void mcat(int i, const void *s, size_t n) { if (mlen[i] + n > MODELMAX) fail("model overflow"); if (n) memmove(model[i] + mlen[i], s, n); mlen[i] += n; }

static ssize_t wr_op(int fd, const char *buf, size_t len) { mcat(1, buf, len); return len; }

int LLVMFuzzerInitialize(int *argc, char ***argv)
{
  c20_target = "stralloc"; model[0] = malloc(MODELMAX + 1); model[1] = malloc(MODELMAX + 1); return 0;
}

int LLVMFuzzerTestOneInput(const uint8_t *data, size_t size)
{
  int steps = 0;
  SA_FREE(sa[0]); SA_FREE(sa[1]); mlen[0] = mlen[1] = 0;
  p = data; left = size;
  while (left && ++steps < 400) {
    unsigned op = take(), i = op >> 7, n; char *src; int r;
    switch (op & 15) {
      case 0: n = take(); if (n > left) n = left; src = c20_cstr(p, n); p += n; left -= n;       /* copyb / catb with exact-size sources */
              if (mlen[i] + n > MODELMAX) { free(src); return 0; }
              if (op & 16) { if (!stralloc_catb(&sa[i], src, n)) fail("catb failed"); mcat(i, src, n); }
              else { if (!stralloc_copyb(&sa[i], src, n)) fail("copyb failed"); mset(i, src, n); }
              free(src); break;
      case 1: n = take(); if (n > left) n = left; src = c20_cstr(p, n); p += n; left -= n;       /* copys / cats */
              if (mlen[i] + strlen(src) > MODELMAX) { free(src); return 0; }
              if (op & 16) { if (!stralloc_cats(&sa[i], src)) fail("cats failed"); mcat(i, src, strlen(src)); }
              else { if (!stralloc_copys(&sa[i], src)) fail("copys failed"); mset(i, src, strlen(src)); }
              free(src); break;
      case 2: { char ch = take(); if (mlen[i] + 1 > MODELMAX) return 0; if (!stralloc_append(&sa[i], &ch)) fail("append failed"); mcat(i, &ch, 1); break; }
      case 3: if (mlen[i] + 1 > MODELMAX) return 0; if (!stralloc_0(&sa[i])) fail("stralloc_0 failed"); mcat(i, "", 1); break;
      case 4: if (mlen[i] + mlen[!i] > MODELMAX) return 0;                                           /* copy / cat between the two */
              if (op & 16) { if (!sa[!i].s) break; if (!stralloc_cat(&sa[i], &sa[!i])) fail("cat failed"); mcat(i, model[!i], mlen[!i]); }
              else { if (!sa[!i].s) break; if (!stralloc_copy(&sa[i], &sa[!i])) fail("copy failed"); mset(i, model[!i], mlen[!i]); }
              break;
      case 5: n = take() * ((op & 16) ? 37 : 1);                                                    /* ready / readyplus keep the contents */
              if (op & 32) { if (!stralloc_readyplus(&sa[i], n)) fail("readyplus failed"); if (sa[i].a < sa[i].len + n) fail("readyplus: a too small"); }
              else { if (!stralloc_ready(&sa[i], n)) fail("ready failed"); if (sa[i].a < n) fail("ready: a too small"); }
              if (!sa[i].s) fail("ready left s null");
              break;
      case 6: n = take(); if (n > mlen[i]) n = mlen[i]; sa[i].len = n; mlen[i] = n; break;            /* callers truncate by assigning len */
      case 7: { /* the overflow guards: the call must refuse (return 0) and must not copy anything */
              static char one[1]; unsigned int big = sa[i].s ? UINT_MAX - take() % 40 : UINT_MAX; unsigned which = (op >> 4) & 3;
              if (which >= 2 && !sa[i].s) break;            /* ready(UINT_MAX) on a fresh stralloc is a legal 4 GB request */
              if (which == 0) r = stralloc_copyb(&sa[i], one, big);
              else if (which == 1) r = stralloc_catb(&sa[i], one, big);
              else if (which == 2) r = stralloc_readyplus(&sa[i], big);
              else r = stralloc_ready(&sa[i], big);
              if (r) fail("length overflow accepted");
              break; }
      case 8: n = take(); if (n > left) n = left; src = c20_cstr(p, n);                               /* starts */
              if (sa[i].s) { r = stralloc_starts(&sa[i], src); if (r != (mlen[i] >= strlen(src) && !memcmp(model[i], src, strlen(src)))) fail("starts differs from the model"); }
              free(src); break;
      case 9: { /* getln over a chunked memory reader: lines must tile the input exactly */
              substdio ss; char ibuf[16]; int match = 1, sep = take(); size_t total = 0, ilen;
              unsigned bl = 1 + take() % 16, ch = 1 + take() % 9;
              ilen = left > 300 ? 300 : left;
              c20_setin(p, ilen, ch);
              substdio_fdbuf(&ss, c20_read, -1, ibuf, bl);
              while (match) {
                if (getln(&ss, &sa[i], &match, sep) == -1) fail("getln failed");
                if (total + sa[i].len > ilen || memcmp(p + total, sa[i].s, sa[i].len)) fail("getln line differs from the input");
                if (match && (!sa[i].len || (unsigned char)sa[i].s[sa[i].len - 1] != sep)) fail("getln match without separator");
                if (!match && sa[i].len && memchr(sa[i].s, sep, sa[i].len)) fail("getln missed a separator");
                total += sa[i].len;
              }
              if (total != ilen) fail("getln lost bytes");
              mset(i, sa[i].s, sa[i].len); p += ilen; left -= ilen; break; }
      case 10: { /* substdio_put / bput / puts / flush into a writer: output must equal the concatenation */
              substdio ss; char obuf[32]; unsigned bl = 1 + take() % 32, k; size_t before = mlen[0];
              if (mlen[0] > 2000) break;
              SA_FREE(sa[1]); mlen[1] = 0;
              substdio_fdbuf(&ss, wr_op, -1, obuf, bl);
              for (k = 0; k < 6 && left; ++k) {
                unsigned how = take(); n = take(); if (n > left) n = left; src = c20_cstr(p, n); p += n; left -= n;
                if (mlen[0] + n > 3000) { free(src); break; }
                if ((how & 3) == 0) substdio_put(&ss, src, n); else if ((how & 3) == 1) substdio_bput(&ss, src, n);
                else if ((how & 3) == 2) { substdio_puts(&ss, src); n = strlen(src); } else substdio_putflush(&ss, src, n);
                memmove(model[0] + mlen[0], src, n); mlen[0] += n; free(src);
              }
              substdio_flush(&ss);
              if (mlen[1] != mlen[0] - before || memcmp(model[1], model[0] + before, mlen[1])) fail("substdio output differs from what was put");
              mlen[0] = before; mlen[1] = 0; break; }
      default: break;
    }
    check(0); check(1);
  }
  return 0;
}
