/* C20 target control: control_readfile / control_readline / control_readint / control_rldef on generated files, then
 * constmap_init + constmap lookups (with and without the colon split) on what was read, as qmail-smtpd / qmail-send /
 * qmail-remote use them.  open_read() is replaced by an in-memory file.
 * input = flags byte, key length byte, key, file bytes.  No exits (library code). */
#include "c20.h"
#include "stralloc.h"
#include "control.h"
#include "constmap.h"
#include "open.h"

static const uint8_t *filebytes; static size_t filelen; static int filemissing, mefile;
int open_read(const char *fn)
{
  if (!strcmp(fn, "control/me")) { if (!mefile) { errno = ENOENT; return -1; } return c20_memfile("me.example.org\n", 15); }
  if (filemissing) { errno = ENOENT; return -1; }
  return c20_memfile(filebytes, filelen);
}

int LLVMFuzzerInitialize(int *argc, char ***argv) { c20_target = "control"; return 0; }

static void bad(const char *what, int r) { fprintf(stderr, "C20-ORACLE: target control: %s returned %d\n", what, r); __builtin_trap(); }

int LLVMFuzzerTestOneInput(const uint8_t *data, size_t size)
{
  static stralloc sa; static struct constmap cm;
  unsigned fl, kl; const uint8_t *key; int r, i; size_t j, st; char *v;
  if (size < 2) return 0;
  fl = data[0]; kl = data[1]; data += 2; size -= 2; if (kl > size) kl = size;
  key = data; data += kl; size -= kl;
  filebytes = data; filelen = size; filemissing = (fl & 0x40) != 0; mefile = (fl & 0x20) != 0;
  SA_FREE(sa);
  r = control_init(); if (r < -1 || r > 1) bad("control_init", r);
  switch (fl & 3) {
    case 0: r = control_readfile(&sa, "control/x", (fl >> 2) & 1); if (r < -1 || r > 1) bad("control_readfile", r); break;
    case 1: r = control_readline(&sa, "control/x"); if (r < -1 || r > 1) bad("control_readline", r); break;
    case 2: r = control_readint(&i, "control/x"); if (r < -1 || r > 1) bad("control_readint", r); return 0;
    default: r = control_rldef(&sa, "control/x", (fl >> 2) & 1, (fl & 8) ? "default.example" : 0); if (r < -1 || r > 1) bad("control_rldef", r);
  }
  if (r != 1) return 0;
  c20_write(-1, sa.s, sa.len);
  if (fl & 3) return 0;
  /* a control file as a constant map */
  { int colon = (fl >> 4) & 1;
    if (!constmap_init(&cm, sa.s, sa.len, colon)) return 0;
    v = constmap(&cm, (char *)key, kl); if (v && colon) c20_sinkstr(v);
    for (j = 0, st = 0; j < sa.len; ++j)                    /* every line, every suffix after a dot, as the callers do */
      if (!sa.s[j]) {
        size_t k;
        for (k = st; k <= j; ++k) if (k == st || k == j || sa.s[k] == '.' || sa.s[k] == ':' || sa.s[k] == '@') {
          v = constmap(&cm, sa.s + k, j - k); if (v && colon) c20_sinkstr(v);
        }
        st = j + 1;
      }
    constmap_free(&cm);
  }
  return 0;
}
