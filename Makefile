# setup: builds only what does not depend on /repo (the checks rebuild the rest from the working tree)
CC=cc
all: shim/vshim.so shim/standin

shim/vshim.so: shim/vshim.c
	$(CC) -O1 -g -shared -fPIC -o $@.tmp shim/vshim.c -ldl && mv -f $@.tmp $@

shim/standin: shim/standin.c
	$(CC) -O1 -g -o $@.tmp shim/standin.c && mv -f $@.tmp $@

clean:
	rm -f shim/vshim.so shim/standin shim/*.o
