# the temporary name carries the shell's pid: two builds started at the same moment (a check's ensure_shim() and a manual make) must not
# write into one file - a half-written vshim.so makes ld.so skip the preload silently and every program then runs WITHOUT the interposer
# setup: builds only what does not depend on /repo (the checks rebuild the rest from the working tree)
CC=cc
all: shim/vshim.so shim/standin

shim/vshim.so: shim/vshim.c
	t=$@.tmp.$$$$; $(CC) -O1 -g -shared -fPIC -o $$t shim/vshim.c -ldl && mv -f $$t $@

shim/standin: shim/standin.c
	t=$@.tmp.$$$$; $(CC) -O1 -g -o $$t shim/standin.c && mv -f $$t $@

clean:
	rm -f shim/vshim.so shim/standin shim/*.o
