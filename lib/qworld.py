"""qworld - the driven world: real qmail-send + real qmail-clean + real qmail-queue in a sandbox home,
both spawners played by the driver, virtual clock, every quiescent point of the daemon a decision point.
See DESIGN.md 3.2."""
import os, socket, struct, signal, fcntl, time, select, errno, json, re
from . import vlib, sandbox

WATCHDOG = 20.0


class Inconclusive(Exception):
    """watchdog expired / harness lost control: never a violation"""


class BusyLoop(Exception):
    """the daemon produced megabytes of log output or thousands of delivery commands without ever blocking: it is spinning
    (deterministic evidence - volume, not time)"""


def spawn(argv, env, fdmap, cwd="/"):
    """fork+exec with an exact descriptor layout {target_fd: source_fd}; own session; everything else closed."""
    pid = os.fork()
    if pid == 0:
        try:
            os.setsid()
            high = {}
            for t, s in fdmap.items():
                high[t] = fcntl.fcntl(s, fcntl.F_DUPFD, 300)
            for t, s in high.items():
                os.dup2(s, t, inheritable=True)
            keep = set(fdmap)
            mx = max(keep) + 1
            for fd in range(0, mx):
                if fd not in keep:
                    try:
                        os.close(fd)
                    except OSError:
                        pass
            os.closerange(mx, 1024)
            os.chdir(cwd)
            os.execve(argv[0], argv, env)
        except BaseException:
            pass
        finally:
            os._exit(127)
    return pid


class Cmd:
    __slots__ = ("chan", "delnum", "msgid", "n", "sender", "recip", "vtime", "seq", "answered")

    def __init__(self, chan, delnum, msgid, sender, recip, vtime, seq):
        self.chan, self.delnum, self.msgid, self.sender, self.recip, self.vtime, self.seq = chan, delnum, msgid, sender, recip, vtime, seq
        try:
            self.n = int(msgid.rsplit(b"/", 1)[-1])
        except ValueError:
            self.n = None
        self.answered = None

    def as_json(self):
        return {"chan": self.chan, "delnum": self.delnum, "msgid": self.msgid.decode("latin-1"), "sender": self.sender.decode("latin-1"),
                "recip": self.recip.decode("latin-1"), "vtime": self.vtime}


class World:
    def __init__(self, tree, path, controls=None, limits=(120, 120), clean_real=True):
        sandbox.ensure_shim()
        self.tree = tree
        self.h = sandbox.Home(tree, path)
        self.h.link_bins(["qmail-queue", "qmail-clean", "qmail-send"])
        self.controls = {"me": "me.example\n"}
        self.controls.update(controls or {})
        for k, v in self.controls.items():
            self.h.control(k, v)
        self.limits = limits
        self.clockf = os.path.join(self.h.dir, "clock")
        with open(self.clockf, "wb") as f:
            f.write(struct.pack("<q", 0))
        self.offset = 0
        self.base = int(time.time())     # the virtual clock is base + offset: it moves only when the driver moves it
        self.ctlpath = os.path.join(self.h.dir, "ctl")
        self.shadow = os.path.join(self.h.dir, "shadow")
        os.makedirs(self.shadow, exist_ok=True)
        self.crashflag = os.path.join(self.h.dir, "crashflag")
        self.lsock = socket.socket(socket.AF_UNIX, socket.SOCK_STREAM)
        if os.path.exists(self.ctlpath):
            os.unlink(self.ctlpath)
        self.lsock.bind(self.ctlpath)
        self.lsock.listen(4)
        self.lsock.settimeout(WATCHDOG)
        self.send_pid = None
        self.clean_pid = None
        self.conn = None
        self.connbuf = b""
        self.cmds = []            # every Cmd ever seen
        self.outstanding = []     # Cmds not yet answered (current daemon incarnation)
        self.history = []         # plain-data events
        self.log = b""
        self.seq = 0
        self.incarnation = 0
        self.exit_status = None
        self.mess_seen = {}       # n -> {"mess": bytes, "first_q": int}
        self.env_ino = {}
        self.visible = set()
        self.qcount = 0
        self.extra_env = {}
        self.alive = False

    # ------------------------------------------------------------ clock
    def vnow(self):
        return self.base + self.offset

    def advance(self, dt):
        if dt < 0:
            raise ValueError
        self.offset += int(dt)
        with open(self.clockf, "r+b") as f:
            f.write(struct.pack("<q", self.offset))
        self.history.append(("advance", int(dt), self.vnow()))

    # ------------------------------------------------------------ processes
    def env(self, role, **extra):
        e = self.h.env(role=role, uid=self.h.uids["s"], VSHIM_CLOCK=self.clockf, VSHIM_SHADOW=self.shadow,
                       VSHIM_CRASHFLAG=self.crashflag, VSHIM_FIXTIME=self.base, **extra)
        return e

    def start(self, crash=None, fault=None):
        """start qmail-send + qmail-clean; returns after the concurrency bytes were written"""
        if os.path.exists(self.crashflag):
            os.unlink(self.crashflag)
        self.incarnation += 1
        p = {}
        for name in ("log", "lcmd", "lrep", "rcmd", "rrep", "creq", "crep"):
            p[name] = os.pipe()
        extra = dict(self.extra_env)
        if crash is not None:
            extra["VSHIM_CRASH"] = crash
        if fault is not None:
            extra["VSHIM_FAULT"] = fault
            extra["VSHIM_FAULTONCE"] = os.path.join(self.h.dir, "faultonce")
        env_s = self.env("send", VSHIM_DRIVE="qmail-send", VSHIM_CTL=self.ctlpath, **extra)
        env_c = self.env("clean", **extra)
        env_c["VSHIM_UID"] = str(self.h.uids["q"])
        self.clean_pid = spawn([self.tree.path("qmail-clean")], env_c, {0: p["creq"][0], 1: p["crep"][1], 2: p["log"][1]})
        self.send_pid = spawn([self.tree.path("qmail-send")], env_s,
                              {0: p["log"][1], 1: p["lcmd"][1], 2: p["lrep"][0], 3: p["rcmd"][1], 4: p["rrep"][0],
                               5: p["creq"][1], 6: p["crep"][0]})
        for name, idx in (("log", 1), ("lcmd", 1), ("lrep", 0), ("rcmd", 1), ("rrep", 0), ("creq", 0), ("creq", 1), ("crep", 0), ("crep", 1)):
            os.close(p[name][idx])
        self.fd_log = p["log"][0]
        self.fd_cmd = [p["lcmd"][0], p["rcmd"][0]]
        self.fd_rep = [p["lrep"][1], p["rrep"][1]]
        for fd in [self.fd_log] + self.fd_cmd:
            os.set_blocking(fd, False)
        self.cmdbuf = [b"", b""]
        self.flood_log = self.flood_cmds = 0
        self.outstanding = []
        self.spawner_alive = [True, True]
        for c in (0, 1):
            try:
                os.write(self.fd_rep[c], bytes([self.limits[c]]))
            except OSError:
                pass          # the daemon is already gone (crash point before it read the byte)
        self.conn = None
        self.connbuf = b""
        self.exit_status = None
        self.alive = True
        self.history.append(("start", self.incarnation, self.vnow()))

    def _reap(self, block=False):
        if self.send_pid is None:
            return self.exit_status
        try:
            pid, st = os.waitpid(self.send_pid, 0 if block else os.WNOHANG)
        except ChildProcessError:
            pid, st = self.send_pid, 0
        if pid == 0:
            return None
        self.exit_status = os.waitstatus_to_exitcode(st)
        self.send_pid = None
        self.alive = False
        self.history.append(("exit", self.exit_status, self.vnow()))
        return self.exit_status

    def _drain(self):
        """read pending log bytes and delivery commands (non-blocking)"""
        try:
            for _ in range(8):          # bounded: a spinning daemon can produce output faster than we read it
                d = os.read(self.fd_log, 65536)
                if not d:
                    break
                self.log = (self.log + d)[-262144:]
                self.flood_log += len(d)
        except (BlockingIOError, OSError):
            pass
        new = []
        for c in (0, 1):
            try:
                for _ in range(8):
                    d = os.read(self.fd_cmd[c], 65536)
                    if not d:
                        break
                    self.cmdbuf[c] += d
            except (BlockingIOError, OSError):
                pass
            while True:
                b = self.cmdbuf[c]
                if len(b) < 2:
                    break
                parts = b[1:].split(b"\0", 3)
                if len(parts) < 4:
                    break
                cmd = Cmd(c, b[0], parts[0], parts[1], parts[2], self.vnow(), self.seq)
                self.seq += 1
                self.cmdbuf[c] = parts[3]
                self.cmds.append(cmd)
                self.outstanding.append(cmd)
                new.append(cmd)
                self.history.append(("cmd", cmd.as_json()))
                self.flood_cmds += 1
        if self.flood_log > 6 * 1024 * 1024 or self.flood_cmds > 4000:
            raise BusyLoop("%d bytes of log output and %d delivery commands since the last quiescent point; log tail: %r" % (
                self.flood_log, self.flood_cmds, self.log[-300:]))
        return new

    def wait_event(self):
        """Block until the daemon reports a quiescent point, a signal interruption, or exits.
        Returns ("Q", info) | ("I",) | ("exit", status). Raises Inconclusive on watchdog."""
        t_end = time.time() + WATCHDOG
        while True:
            if self.conn is None:
                # daemon has not connected yet (or a fresh incarnation)
                r, _, _ = select.select([self.lsock], [], [], 0.05)
                if r:
                    self.conn, _ = self.lsock.accept()
                    self.conn.setblocking(False)
                elif self._reap() is not None:
                    self._drain()
                    return ("exit", self.exit_status)
                elif time.time() > t_end:
                    raise Inconclusive("daemon did not reach select()")
                continue
            nl = self.connbuf.find(b"\n")
            if nl >= 0:
                line, self.connbuf = self.connbuf[:nl], self.connbuf[nl + 1:]
                f = line.split()
                if f[0] == b"I":
                    self.history.append(("eintr", self.vnow()))
                    return ("I",)
                if f[0] == b"P":
                    # breakpoint inside the daemon's work (VSHIM_PAUSE): the daemon waits for resume()
                    self.history.append(("pause", line[2:].decode("latin-1"), self.vnow()))
                    return ("P", line[2:])
                info = {"timeout": int(f[1]), "rfds": [] if f[2] == b"-" else [int(x) for x in f[2].split(b",")],
                        "wfds": [] if f[3] == b"-" else [int(x) for x in f[3].split(b",")], "spins": int(f[4]), "vnow": int(f[5]),
                        "req_timeout": int(f[6]) if len(f) > 6 else int(f[1])}
                self.qcount += 1
                self._drain()
                self.flood_log = self.flood_cmds = 0
                self._observe_queue()
                self.history.append(("Q", info["timeout"], info["vnow"], info["spins"], info["rfds"]))
                return ("Q", info)
            r, _, _ = select.select([self.conn], [], [], 0.05)
            if r:
                try:
                    d = self.conn.recv(4096)
                except BlockingIOError:
                    continue
                except ConnectionResetError:
                    d = b""
                if not d:
                    self.conn.close()
                    self.conn = None
                    st = None
                    t2 = time.time() + 5
                    while st is None and time.time() < t2:
                        st = self._reap()
                        if st is None:
                            time.sleep(0.002)
                    self._drain()
                    if st is None:
                        raise Inconclusive("control connection closed but daemon alive")
                    return ("exit", st)
                self.connbuf += d
            else:
                self._drain()
                if time.time() > t_end:
                    raise Inconclusive("no event from daemon within watchdog")

    def resume(self, how=b"R"):
        try:
            self.conn.send(how)
        except OSError:
            pass

    def signal(self, sig):
        self.history.append(("signal", int(sig), self.vnow()))
        os.kill(self.send_pid, sig)

    def report(self, cmd, text):
        """answer an outstanding command: text = b'K..' | b'Z..' | b'D..' | anything"""
        data = bytes([cmd.delnum]) + text + b"\0"
        self.raw_report(cmd.chan, data)
        cmd.answered = text
        if cmd in self.outstanding:
            self.outstanding.remove(cmd)
        self.history.append(("report", cmd.as_json(), vlib.jsonable(text[:200])))

    def raw_report(self, chan, data):
        try:
            os.write(self.fd_rep[chan], data)
        except OSError:
            pass              # daemon gone: the next wait_event() reports its exit

    def spawner_die(self, chan):
        if self.spawner_alive[chan]:
            os.close(self.fd_rep[chan])
            self.spawner_alive[chan] = False
            self.outstanding = [c for c in self.outstanding if c.chan != chan]   # nobody will ever answer these
            self.history.append(("spawner_died", chan))

    def inject(self, sender, rcpts, body, uid=None, env_raw=None):
        """run the real qmail-queue to completion; returns (exit status, message number or None)"""
        msgf = os.path.join(self.h.dir, "inj.msg")
        envf = os.path.join(self.h.dir, "inj.env")
        open(msgf, "wb").write(body)
        env_bytes = env_raw if env_raw is not None else b"F" + sender + b"\0" + b"".join(b"T" + r + b"\0" for r in rcpts) + b"\0"
        open(envf, "wb").write(env_bytes)
        before = set(os.listdir(os.path.join(self.h.queue, "todo")))
        e = self.h.env(role="inj", uid=uid if uid is not None else 4242, VSHIM_CLOCK=self.clockf, VSHIM_FIXTIME=self.base,
                       VSHIM_SHADOW=self.shadow)
        import subprocess
        with open(msgf, "rb") as f0, open(envf, "rb") as f1:
            p = subprocess.Popen([self.tree.path("qmail-queue")], stdin=f0, stdout=f1, stderr=subprocess.DEVNULL, env=e, cwd="/",
                                 start_new_session=True)
            try:
                rc = p.wait(timeout=WATCHDOG)
            except subprocess.TimeoutExpired:
                p.kill()
                p.wait()
                raise Inconclusive("qmail-queue hung")
        after = set(os.listdir(os.path.join(self.h.queue, "todo")))
        new = sorted(after - before)
        n = int(new[0]) if new else None
        self.history.append(("inject", rc, n, vlib.jsonable(sender), [vlib.jsonable(r) for r in rcpts]))
        if n is not None:
            self._observe_queue()
        return rc, n

    # ------------------------------------------------------------ observation
    def _scan_trace_for_envelopes(self):
        """envelopes of messages queued by anybody: the interposer keeps a copy of every file at fsync time (shadow/<inode>);
        the trace tells which inode was intd/<n>"""
        try:
            with open(self.h.trace, "rb") as f:
                f.seek(getattr(self, "_trace_off", 0))
                data = f.read()
        except FileNotFoundError:
            return
        nl = data.rfind(b"\n")
        if nl < 0:
            return
        self._trace_off = getattr(self, "_trace_off", 0) + nl + 1
        for line in data[:nl].split(b"\n"):
            if b"\tlink\t" in line and b"\ttodo/" in line:
                m = re.search(rb"\tlink\tintd/(\d+)\ttodo/(\d+)\t0\t0", line)
                if m:
                    self.visible.add(int(m.group(2)))      # the only step that makes a message visible to the daemon
            if b"\tfsync\t" in line and b"/queue/intd/" in line:
                m = re.search(rb"ino:(\d+):[^\t]*/queue/intd/(\d+)", line)
                if m:
                    self.env_ino[int(m.group(2))] = int(m.group(1))

    def envelope_of(self, n):
        """raw envelope bytes (u..\\0p..\\0F..\\0T..\\0...) that qmail-queue fsynced for message n, or None"""
        ino = self.env_ino.get(n)
        if ino is None:
            return None
        try:
            return open(os.path.join(self.shadow, str(ino)), "rb").read()
        except FileNotFoundError:
            return None

    def _observe_queue(self):
        """remember the content of every message file and envelope the first time it is seen"""
        q = self.h.queue
        self._scan_trace_for_envelopes()
        for i in range(self.h.split):
            d = os.path.join(q, "mess", str(i))
            for f in os.listdir(d):
                if not f.isdigit():
                    continue
                n = int(f)
                if n in self.mess_seen and self.mess_seen[n].get("complete"):
                    # the birth time is whatever info/<n> says NOW: re-preprocessing (todo clean-up failed, crash in S4) recreates the file
                    try:
                        self.mess_seen[n]["birth"] = int(os.stat(self.h.qpath("info", n)).st_mtime)
                    except FileNotFoundError:
                        pass
                    continue
                rec = self.mess_seen.setdefault(n, {"first_q": self.qcount})
                try:
                    if "todo" not in rec:
                        tp = os.path.join(q, "todo", f)
                        if os.path.exists(tp):
                            rec["todo"] = open(tp, "rb").read()
                        elif n in self.visible and self.envelope_of(n) is not None:
                            rec["todo"] = self.envelope_of(n)
                    ip = self.h.qpath("info", n)
                    if os.path.exists(ip) and "info" not in rec:
                        rec["info"] = open(ip, "rb").read()
                        rec["birth"] = int(os.stat(ip).st_mtime)
                    if "todo" in rec or "info" in rec:
                        rec["mess"] = open(os.path.join(d, f), "rb").read()
                        rec["complete"] = "info" in rec
                except FileNotFoundError:
                    pass

    def chan_records(self, n):
        """-> {0: [(mark, addr)], 1: [...]} from local/<n> and remote/<n> (missing file -> None)"""
        out = {}
        for c, name in ((0, "local"), (1, "remote")):
            p = self.h.qpath(name, n)
            try:
                b = open(p, "rb").read()
            except FileNotFoundError:
                out[c] = None
                continue
            recs = [x for x in b.split(b"\0") if x]
            out[c] = [(x[:1], x[1:]) for x in recs]
        return out

    def queue_empty(self):
        st, bad, pids = self.h.snapshot()
        return not st

    # ------------------------------------------------------------ teardown
    def kill_all(self):
        for pid in (self.send_pid, self.clean_pid):
            if pid:
                try:
                    os.killpg(pid, signal.SIGKILL)
                except (ProcessLookupError, PermissionError):
                    pass
                try:
                    os.kill(pid, signal.SIGKILL)      # the child may not have reached setsid() yet
                except (ProcessLookupError, PermissionError):
                    pass
        for pid in (self.send_pid, self.clean_pid):
            if pid:
                try:
                    os.waitpid(pid, 0)
                except ChildProcessError:
                    pass
        if self.send_pid is not None:
            self.send_pid = None
        self.clean_pid = None
        self.alive = False
        for fd in [getattr(self, "fd_log", None)] + list(getattr(self, "fd_cmd", [])) + [f for f, a in zip(getattr(self, "fd_rep", []), getattr(self, "spawner_alive", [])) if a]:
            if fd is not None:
                try:
                    os.close(fd)
                except OSError:
                    pass
        self.fd_cmd, self.fd_rep, self.fd_log = [], [], None
        self.spawner_alive = [False, False]
        if self.conn is not None:
            try:
                self.conn.close()
            except OSError:
                pass
            self.conn = None

    def stop_clean(self):
        """after the daemon exited: reap qmail-clean (it exits on EOF of its request pipe)"""
        if self.clean_pid:
            t_end = time.time() + 5
            while time.time() < t_end:
                try:
                    pid, st = os.waitpid(self.clean_pid, os.WNOHANG)
                except ChildProcessError:
                    pid = self.clean_pid
                if pid:
                    self.clean_pid = None
                    break
                time.sleep(0.002)
        self.kill_all()

    def close(self):
        self.kill_all()
        try:
            self.lsock.close()
        except OSError:
            pass

    def reset_queue(self):
        """fresh queue for the next scenario in the same home"""
        self.h.clean_queue()
        self.h.clear_trace()
        if os.path.exists(os.path.join(self.h.dir, "faultonce")):
            os.unlink(os.path.join(self.h.dir, "faultonce"))
        for f in os.listdir(self.shadow):
            os.unlink(os.path.join(self.shadow, f))
        self.cmds, self.outstanding, self.history, self.log = [], [], [], b""
        self.mess_seen = {}
        self.env_ino = {}
        self.visible = set()
        self._trace_off = 0
        self.qcount = 0
        self.offset = 0
        self.base = int(time.time())
        with open(self.clockf, "r+b") as f:
            f.write(struct.pack("<q", 0))
