"""Gate-mode scheduler: every queue-relevant system call of every gated process asks this scheduler first, so at most one
gated process runs between two decisions and the interleaving is exactly the decision tape (DESIGN.md 3.1 / 4).
Used by C16-A (systematic enumeration of injector x daemon schedules), C02 and C12 (generated tapes)."""
import os, socket, select, time, signal, subprocess, struct
from . import vlib, sandbox, qworld

WATCHDOG = 20.0


class Proc:
    def __init__(self, conn):
        self.conn = conn
        self.buf = b""
        self.pid = None
        self.key = None
        self.state = "running"     # running | req | blk | dead
        self.msg = None            # (kind, call, path)
        self.blk_epoch = -1
        self.granted_as = None
        self.steps = 0


class Deadlock(Exception):
    pass


class Scheduler:
    def __init__(self, sockpath):
        self.sockpath = sockpath
        if os.path.exists(sockpath):
            os.unlink(sockpath)
        self.lsock = socket.socket(socket.AF_UNIX, socket.SOCK_STREAM)
        self.lsock.bind(sockpath)
        self.lsock.listen(16)
        self.procs = []
        self._epoch = 0
        self.noop = set()          # blocked processes whose last re-poll changed nothing: not enabled until somebody makes progress
        self.decisions = []        # (n_enabled, chosen_index, [labels])
        self.steps = []            # (key, call, path) in execution order
        self.consecutive = (None, 0)

    @property
    def epoch(self):
        return self._epoch

    @epoch.setter
    def epoch(self, v):
        """external progress (the driver wrote to a pipe, started a process, ...): every blocked process may re-poll"""
        self._epoch = v
        self.noop.clear()

    def close(self):
        for p in self.procs:
            try:
                if p.conn is not None:
                    p.conn.close()
            except OSError:
                pass
        self.procs = []
        try:
            self.lsock.close()
        except OSError:
            pass

    def _pump(self, timeout):
        """read whatever the processes sent; accept new connections"""
        rl = [self.lsock] + [p.conn for p in self.procs if p.state != "dead" and not getattr(p, "conn_closed", False)]
        r, _, _ = select.select(rl, [], [], timeout)
        for s in r:
            if s is self.lsock:
                c, _ = self.lsock.accept()
                self.procs.append(Proc(c))
                self.noop.clear()
                continue
            p = next(x for x in self.procs if x.conn is s)
            try:
                d = s.recv(4096)
            except (ConnectionResetError, OSError):
                d = b""
            if not d:
                if p.state == "execing":
                    # the old image's connection closed on exec: the new image is running until it connects (or the pid dies)
                    p.conn_closed = True
                    try:
                        s.close()
                    except OSError:
                        pass
                    continue
                p.state = "dead"
                self.noop.discard(p)
                self.epoch += 1
                try:
                    s.close()
                except OSError:
                    pass
                continue
            p.buf += d
            while b"\n" in p.buf:
                line, p.buf = p.buf.split(b"\n", 1)
                f = line.decode("latin-1").split(" ", 4)
                if len(f) < 5:
                    continue
                kind, pid, key, call, path = f
                if kind == "EXE":
                    p.pid, p.key = int(pid), key
                    p.state = "execing"
                    continue
                if kind == "FRK":
                    child = Proc(None)
                    child.pid, child.key, child.state, child.conn_closed = int(path), key, "execing", True
                    if not any(o.pid == child.pid and o.state != "dead" for o in self.procs):
                        self.procs.append(child)
                    continue
                # a new image of a process that announced an exec: the old entry is replaced
                for o in self.procs:
                    if o is not p and o.state == "execing" and o.pid == int(pid):
                        o.state = "dead"
                p.pid, p.key = int(pid), key
                newmsg = (kind, call, sandbox.unesc(path))
                pure_noop = (p.granted_as == "BLK" and kind == "BLK" and p.msg is not None and newmsg == p.msg)
                p.msg = newmsg
                if kind == "REQ":
                    p.state = "req"
                    self.noop.clear()          # it ran ungated code (pipe writes, ...) before asking again
                else:
                    p.state = "blk"
                    if not pure_noop:
                        self.noop.clear()
                    self.noop.add(p)
                p.granted_as = None
        return bool(r)

    def running(self):
        out = []
        for p in self.procs:
            if p.state == "running":
                out.append(p)
            elif p.state == "execing":
                try:
                    os.kill(p.pid, 0)
                    alive = open("/proc/%d/stat" % p.pid).read().split(")")[-1].split()[0] != "Z"
                except (ProcessLookupError, FileNotFoundError, PermissionError):
                    alive = False
                if alive:
                    out.append(p)
                else:
                    p.state = "dead"
                    self.noop.clear()
        return out

    def settle(self):
        """wait until no gated process is running (each is waiting for us, or dead)"""
        t_end = time.time() + WATCHDOG
        while self.running():
            self._pump(0.05)
            if time.time() > t_end:
                raise qworld.Inconclusive("a gated process did not reach its next gate within the watchdog: %r" % [(p.key, p.msg) for p in self.running()])

    def enabled(self):
        out = [p for p in self.procs if p.state == "req"]
        out += [p for p in self.procs if p.state == "blk" and p not in self.noop]
        return sorted(out, key=lambda p: (p.key or "", p.pid or 0))

    def grant(self, p):
        self.steps.append((p.key, p.msg[1], p.msg[2], p.msg[0]))
        was_req = p.state == "req"
        p.granted_as = p.msg[0]
        if was_req:
            self.noop.clear()
        p.state = "running"
        p.steps += 1
        try:
            p.conn.send(b"G")
        except OSError:
            p.state = "dead"
        self.settle()

    def alive(self, keypart):
        return [p for p in self.procs if p.state != "dead" and p.key and keypart in p.key]


def label(p):
    path = p.msg[2]
    # message numbers differ from run to run: abstract them away
    import re
    path = re.sub(r"\d+", "N", path.rsplit("/queue/", 1)[-1]) if "/" in path else path
    return "%s:%s:%s" % ((p.key or "?").split(".")[0], p.msg[1], path[-30:])
