"""Scenario runner + ledger of obligations for the driven world (C03, C04, C10, C14, C15 layer 3, C16-B, C18 part 3).
A scenario is plain JSON data (see gen_scenario in props/qs_common.py); run_scenario() executes it against the real
qmail-send/qmail-clean/qmail-queue and returns a Result with tagged violations. One action per quiescent point."""
import os, re, signal, struct, json, math
from . import vlib, sandbox, qworld

REPORTMAX = 10000
SLEEP_TODO = 1500
INTRO_BOUNCE = b"I'm afraid I wasn't able to deliver your message to the following addresses.\nThis is a permanent error; I've given up. Sorry it didn't work out.\n"
INTRO_DOUBLE = b"I tried to deliver a bounce message to this address, but the bounce bounced!\n"
MARK_BOUNCE = b"--- Below this line is a copy of the message.\n"
MARK_DOUBLE = b"--- Below this line is the original bounce.\n"
DYING = b"I'm not going to try again; this message has been in the queue too long.\n"


def L(s):
    return s.encode("latin-1") if isinstance(s, str) else s


class Result:
    def __init__(self):
        self.viol = []          # (tag, message)
        self.known = []         # (tag, signature, message): genuine defects recognised by a named predicate (known-findings.txt decides)
        self.classes = set()
        self.inconclusive = False
        self.stats = {}
        self.nq = 0

    def v(self, tag, msg):
        self.viol.append((tag, msg))


def isqrt(x):
    return math.isqrt(x) if x > 0 else 0


def strip_prepend(recip, vdoms):
    """documented: the virtual-domain prepend is removed from the recipient shown in the bounce"""
    at = recip.rfind(b"@")
    if at < 0:
        return recip
    dom = recip[at + 1:].lower()
    cands = [dom] + [dom[i:] for i in range(len(dom)) if dom[i:i + 1] == b"."] + [b""]
    for c in cands:
        if c in vdoms:
            pre = vdoms[c]
            if not pre:
                return recip
            if recip[:len(pre) + 1].lower() == pre.lower() + b"-" or recip[:len(pre) + 1] == pre + b"-":
                if recip[:len(pre)] == pre:
                    return recip[len(pre) + 1:]
            return recip
    return recip


def parse_vdoms(text):
    out = {}
    for line in L(text).split(b"\n"):
        line = line.rstrip(b" \t")
        if not line or line.startswith(b"#"):
            continue
        k, _, v = line.partition(b":")
        out.setdefault(k.lower(), v)
    return out


def report_paragraph_text(text):
    """what the bounce shows for a report text (qmail-send.9: text, blank lines inside replaced so the paragraph stays one)"""
    t = text
    if t and not t.endswith(b"\n"):
        t += b"\n"
    return t


def squash(par):
    """normal form used to compare a paragraph with the expected text: a newline that follows a newline may appear as '/'"""
    out = bytearray()
    prev_nl = False
    for ch in par:
        c = bytes([ch])
        if prev_nl and c in (b"\n", b"/"):
            out += b"/"
            prev_nl = (c == b"\n") or prev_nl
            continue
        out += c
        prev_nl = (c == b"\n")
    return bytes(out)


class Ledger:
    def __init__(self, sc, res, world):
        self.sc, self.res, self.w = sc, res, world
        self.msgs = {}           # n -> dict(kind, sender, rcpts(list), idx(message index or None), records{chan:[addr]}, accepted_q)
        self.reports = {}        # (n, chan, addr) -> list of (letter, text, dying?, incarnation, lost_waived)
        self.cmdcount = {}       # (n, chan, addr) -> number of commands seen
        self.bounces_owed = {}   # n -> list of (chan, addr, text, waived)
        self.notices = []        # dicts for daemon-queued messages
        self.crashed_lost = False
        self.term_sent = False
        self.term_q = None
        self.gone = set()
        self.vdoms = parse_vdoms(sc["controls"].get("virtualdomains", ""))
        self.life = int(sc["controls"].get("queuelifetime", "604800").strip() or 604800)
        self.passes = {}         # (n, chan) -> list of pass dicts
        # "eintr": a blocking call is interrupted by a signal once (-1/EINTR) - no failure at all, every clause stays in force
        self.fault_or_crash = sc["mode"]["kind"] not in ("none", "eintr")
        self.disorder = False    # set when spawner died / garbage reports make exact counting unsound
        self.configured = [self._conc("concurrencylocal", 10), self._conc("concurrencyremote", 20)]
        self.first_seen_q = {}
        self.last_scan_v = None
        self.qq_by_pid = {}

    def _conc(self, name, dflt):
        v = self.sc["controls"].get(name)
        if v is None:
            return dflt
        try:
            return int(v.strip().split("\n")[0])
        except ValueError:
            return dflt

    def limit(self, c):
        return min(self.configured[c], self.sc["limits"][c], 255)

    # ---------------------------------------------------------------- bookkeeping
    def accepted(self, n, kind, sender, rcpts, idx=None):
        self.msgs[n] = {"kind": kind, "sender": sender, "rcpts": list(rcpts), "idx": idx, "records": None, "q": self.w.qcount}

    def on_cmd(self, cmd):
        k = (cmd.n, cmd.chan, cmd.recip)
        self.cmdcount[k] = self.cmdcount.get(k, 0) + 1
        if self.term_sent:
            self.res.v("C04", "delivery command issued after TERM: %r" % cmd.as_json())
        m = self.msgs.get(cmd.n)
        if m is None:
            self.res.v("C18", "delivery command for unknown message id %r" % cmd.as_json())
            return
        # pass accounting for C15
        pk = (cmd.n, cmd.chan)
        pl = self.passes.setdefault(pk, [])
        if not pl or pl[-1]["left"] <= 0 or pl[-1]["inc"] != self.w.incarnation:
            trec = self._t_records(cmd.n, cmd.chan)
            prev = pl[-1] if pl else None
            birth = self.w.mess_seen.get(cmd.n, {}).get("birth")
            due = None
            if prev is not None and prev["inc"] == self.w.incarnation and not prev.get("blocked") and birth is not None:
                due = retry_time(birth, prev["start"], cmd.chan)
            pl.append({"start": cmd.vtime, "left": max(trec, 1), "size": max(trec, 1), "blocked": self._chan_busy(cmd.chan, cmd), "inc": self.w.incarnation,
                       "due": due, "seq": cmd.seq, "q": self.w.qcount,
                       "after_alrm": self.alrm_pending.pop(pk, False) if hasattr(self, "alrm_pending") else False})
            getattr(self, "alrm_due", {}).pop(pk, None)
        pl[-1]["left"] -= 1
        pl[-1]["last_cmd"] = cmd.vtime

    def _chan_busy(self, chan, cmd):
        return sum(1 for c in self.w.outstanding if c.chan == chan and c is not cmd) >= self.limit(chan) - 0

    def _t_records(self, n, chan):
        recs = self.w.chan_records(n).get(chan)
        if not recs:
            return 0
        return sum(1 for m, a in recs if m == b"T")

    def on_report(self, cmd, text, dying):
        k = (cmd.n, cmd.chan, cmd.recip)
        letter = text[:1]
        self.reports.setdefault(k, []).append((letter, text[1:], dying, self.w.incarnation))
        if letter == b"D" or (letter == b"Z" and dying):
            t = text[1:][:REPORTMAX - 2]
            alt = None
            if letter == b"Z":
                # an over-long report loses its last byte when the "not going to try again" sentence is appended: unspecified, both accepted
                alt = text[1:][:REPORTMAX - 3] + DYING if len(text) - 1 > REPORTMAX - 3 else None
                t = t + DYING
            self.bounces_owed.setdefault(cmd.n, []).append({"chan": cmd.chan, "addr": cmd.recip, "text": t, "alt": alt, "waived": False, "noticed": False,
                                                             # the tag is taken off by the table in force when the failure is recorded
                                                             "shown": strip_prepend(cmd.recip, self.vdoms)})

    def note_term(self):
        """TERM: passes that could not finish reading their list (channel saturated ever since their last command) are abandoned"""
        for (n, c), pl in self.passes.items():
            if pl and pl[-1]["inc"] == self.w.incarnation and not pl[-1].get("eof_possible"):
                pl[-1]["open_at_term"] = True

    def note_alrm(self):
        """ALRM makes everything due at once: remember which (message, channel) pairs are idle and could be served"""
        cand = []
        for n, recs in getattr(self, "last_records", {}).items():
            for c in (0, 1):
                if not recs.get(c) or not any(mk == b"T" for mk, a in recs[c]):
                    continue
                pl = self.passes.get((n, c))
                if not pl or pl[-1]["left"] > 0 or pl[-1]["inc"] != self.w.incarnation:
                    continue
                if any(cm.n == n and cm.chan == c for cm in self.w.outstanding):
                    continue
                if self.limit(c) == 0 or not self.w.spawner_alive[c]:
                    continue
                cand.append((n, c, len(pl)))
        free = {c: self.limit(c) - sum(1 for cm in self.w.outstanding if cm.chan == c) for c in (0, 1)}
        need = {c: sum(sum(1 for mk, a in self.last_records[n][c] if mk == b"T") for n, cc, k in cand if cc == c) for c in (0, 1)}
        jobs_free = sum(self.limit(x) for x in (0, 1)) - len({(cm.n, cm.chan) for cm in self.w.outstanding})
        if self.w.outstanding or any(need[c] > free[c] for c in (0, 1)) or len(cand) > jobs_free or 0 in (self.limit(0), self.limit(1)):
            self.alrm_expect = None      # slots would bind: nothing exact can be asserted
        else:
            self.alrm_expect = {"cand": cand, "q": self.w.qcount, "inc": self.w.incarnation}

    def check_alrm(self, info):
        exp = getattr(self, "alrm_expect", None)
        if not exp or info["req_timeout"] <= 0 or info["timeout"] != info["req_timeout"]:
            return
        if self.w.qcount <= exp["q"]:
            return
        self.alrm_expect = None
        if exp["inc"] != self.w.incarnation or self.term_sent:
            return
        for n, c, k in exp["cand"]:
            pl = self.passes.get((n, c), [])
            if len(pl) <= k:
                self.res.v("C15", "ALRM was delivered but message %d channel %d (idle, free slots) got no delivery attempt before the daemon blocked again for %d s" % (n, c, info["req_timeout"]))
            else:
                self.res.classes.add("alrm_served")

    def is_dying(self, cmd):
        """was the pass this command belongs to started after birth + lifetime?  (None = unknown)"""
        m = self.w.mess_seen.get(cmd.n, {})
        birth = m.get("birth")
        pl = self.passes.get((cmd.n, cmd.chan))
        if birth is None or not pl:
            return None
        p = pl[-1]
        if p.get("blocked"):
            return None
        return p["start"] > birth + self.life

    # ---------------------------------------------------------------- quiescent-point invariants
    def observe(self, info):
        w, res = self.w, self.res
        snap, bad, pids = w.h.snapshot()
        self.last_records = {}
        if bad:
            res.v("C02", "stray files in queue: %r" % bad[:5])
        for n, files in snap.items():
            recs = w.chan_records(n)
            self.last_records[n] = recs
            m = self.msgs.get(n)
            if m is None:
                # a message the daemon queued itself (bounce): discovered through the queue
                ms = w.mess_seen.get(n, {})
                if "info" in ms or "todo" in ms:
                    self._discover_notice(n, ms, recs)
                    m = self.msgs.get(n)
            if m is None:
                continue
            if ("local" in files or "remote" in files) and not ({"mess", "info"} <= files) and "todo" not in files:
                res.v("C03", "message %d has recipient lists but lost mess/info: %r" % (n, sorted(files)))
            if "info" in files and "todo" not in files and m["records"] is None:
                # first observation after preprocessing
                m["records"] = {c: [a for mk, a in (recs[c] or [])] for c in (0, 1)}
                tot = sum(len(v) for v in m["records"].values())
                if tot != len(m["rcpts"]):
                    res.v("C03", "message %d: %d recipients accepted but %d records after preprocessing (%r vs %r)" % (
                        n, len(m["rcpts"]), tot, m["rcpts"], m["records"]))
                else:
                    allr = [a for c in (0, 1) for a in m["records"][c]]
                    for r in m["rcpts"]:
                        if r and not any(r.lower() in a.lower() or r.split(b"@")[0].lower() in a.lower() for a in allr):
                            res.v("C03", "message %d: accepted recipient %r not found among preprocessed records %r" % (n, r, allr))
            if m["records"] is None:
                continue
            for c in (0, 1):
                if recs[c] is None:
                    continue
                # I1: marks only after reports
                dcount, tcount = {}, {}
                for mk, a in recs[c]:
                    if mk == b"D":
                        dcount[a] = dcount.get(a, 0) + 1
                    elif mk == b"T":
                        tcount[a] = tcount.get(a, 0) + 1
                    else:
                        res.v("C03", "message %d: unknown record mark %r" % (n, mk))
                if sorted(a for mk, a in recs[c]) != sorted(m["records"][c]) and not self.crashed_lost:
                    res.v("C03", "message %d channel %d: record list changed: %r -> %r" % (n, c, m["records"][c], recs[c]))
                for a, dn in dcount.items():
                    reps = self.reports.get((n, c, a), [])
                    fin = sum(1 for l, t, dy, inc in reps if l in (b"K", b"D") or (l == b"Z" and dy is not False))
                    if dn > fin:
                        msg = "message %d recipient %r marked done %d times but only %d K/D reports were given (reports: %r)" % (
                            n, a, dn, fin, [(l, dy) for l, t, dy, inc in reps])
                        res.v("C03", msg)
                        if any(l == b"Z" and dy is False for l, t, dy, inc in reps):
                            res.v("C15", "temporary failure treated as permanent although the message is younger than queuelifetime: " + msg)
                # converse (fault- and crash-free histories): every final report is reflected by a mark before the daemon blocks again
                if not self.fault_or_crash and not self.disorder:
                    for a in set(x for mk, x in recs[c]):
                        reps = self.reports.get((n, c, a), [])
                        sure = sum(1 for l, t, dy, inc in reps if l in (b"K", b"D") or (l == b"Z" and dy is True))
                        if dcount.get(a, 0) < sure:
                            zd = any(l == b"Z" and dy is True for l, t, dy, inc in reps)
                            res.v("C15" if zd else "C04", "message %d recipient %r: %d final reports (K, D, or Z in a pass started after birth+queuelifetime) but only %d records marked done%s (reports %r)" % (
                                n, a, sure, dcount.get(a, 0), ": an expired message keeps being retried" if zd else ": a finished recipient stays scheduled", [(l, dy) for l, t, dy, inc in reps]))
                # C04: outstanding attempts never exceed unmarked records
                for a in set(list(dcount) + list(tcount)):
                    outn = sum(1 for cm in w.outstanding if cm.n == n and cm.chan == c and cm.recip == a)
                    if outn > tcount.get(a, 0):
                        res.v("C04", "message %d recipient %r: %d attempts outstanding but only %d unmarked records (marks %r)" % (
                            n, a, outn, tcount.get(a, 0), recs[c]))
        # messages that left the queue since the last observation
        for n, m in self.msgs.items():
            if n in snap or n in self.gone:
                continue
            if m["q"] == w.qcount:
                continue
            self.gone.add(n)
            self._message_gone(n, m)
        # C04 concurrency limits and delivery numbers
        for c in (0, 1):
            outs = [cm for cm in w.outstanding if cm.chan == c]
            if len(outs) > self.limit(c):
                res.v("C04", "channel %d: %d attempts outstanding, limit min(configured %d, announced %d)" % (c, len(outs), self.configured[c], self.sc["limits"][c]))
            nums = [cm.delnum for cm in outs]
            if len(set(nums)) != len(nums):
                res.v("C04", "channel %d: delivery numbers not distinct: %r" % (c, nums))
            if any(x >= max(self.limit(c), 1) for x in nums):
                res.v("C04", "channel %d: delivery number out of range %r (limit %d)" % (c, nums, self.limit(c)))
        self._check_timeout(info, snap)
        self.check_alrm(info)
        # a pass whose last command was issued can only read the end of its list while the channel has a free slot (del_avail):
        # remember whether the daemon ever had that chance
        for (n, c), pl in self.passes.items():
            if pl and pl[-1]["inc"] == self.w.incarnation and pl[-1]["left"] <= 0 and not pl[-1].get("eof_possible"):
                if sum(1 for cm in self.w.outstanding if cm.chan == c) < self.limit(c) and not self.term_sent:
                    pl[-1]["eof_possible"] = True

    def discover_all(self):
        for n, ms in list(self.w.mess_seen.items()):
            if n not in self.msgs and ("info" in ms or "todo" in ms):
                self._discover_notice(n, ms, self.w.chan_records(n))

    def _discover_notice(self, n, ms, recs):
        info = ms.get("info", b"")
        sender = info[1:].split(b"\0")[0] if info[:1] == b"F" else None
        env = None
        if "todo" in ms:
            env = sandbox.parse_envelope(ms["todo"].split(b"\0", 2)[2] if ms["todo"].startswith(b"u") else ms["todo"])
            if env is None:
                self.res.v("C14", "daemon-queued message %d has a malformed envelope %r" % (n, ms["todo"][:80]))
        rcpts = []
        if env:
            sender, rcpts = env
        else:
            for c in (0, 1):
                rcpts += [a for mk, a in (recs[c] or [])]
        self.accepted(n, "notice", sender if sender is not None else b"?", rcpts)
        self.msgs[n]["q"] = self.w.qcount - 1
        self.notices.append({"n": n, "mess": ms.get("mess", b""), "sender": sender, "rcpts": rcpts})
        self._check_notice(n, ms.get("mess", b""), sender, rcpts)

    # ---------------------------------------------------------------- bounce content (C14) and obligations (C03)
    def _check_notice(self, b, mess, sender, rcpts):
        res = self.res
        mrecv = re.match(rb"Received: \(qmail (\d+) invoked for bounce\); [^\n]*\n", mess)
        if not mrecv:
            res.v("C14", "daemon-queued message %d lacks the 'invoked for bounce' Received line: %r" % (b, mess[:80]))
            return
        body_all = mess[mrecv.end():]
        # which original does it copy?  the notice ends with Return-Path: <sender>\n + original message bytes
        orig = None
        for n, m in self.msgs.items():
            if n == b or m.get("noticed_by") == b:
                continue
            om = self.w.mess_seen.get(n, {}).get("mess")
            if om is None:
                continue
            if body_all.endswith(om) and self.bounces_owed.get(n) and any(not o["noticed"] for o in self.bounces_owed[n]):
                if orig is None or len(om) > len(self.w.mess_seen[orig]["mess"]):
                    orig = n
        if orig is None:
            if self.fault_or_crash:
                # a failing unlink(bounce/<n>) after the notice was queued makes the daemon send the same notice again later
                # (documented consequence of the retry; INTERNALS section 6): accepted under an injected fault / crash only
                for n, m in self.msgs.items():
                    om = self.w.mess_seen.get(n, {}).get("mess")
                    if n != b and om is not None and body_all.endswith(om) and m.get("notices"):
                        m["notices"].append(b)
                        res.classes.add("duplicate_notice_after_fault")
                        return
            res.v("C14", "daemon-queued message %d does not end with a copy of any message with pending failures" % b)
            return
        m = self.msgs[orig]
        om = self.w.mess_seen[orig]["mess"]
        osender = m["sender"]
        double = (osender == b"")
        base = osender[:-4] if osender.endswith(b"-@[]") and len(osender) >= 5 else osender
        if osender == b"#@[]":
            res.v("C14", "a notice was queued for message %d whose sender is #@[] (must be discarded)" % orig)
        exp_sender = b"#@[]" if double else b""
        exp_rcpt = (L(self.sc["controls"].get("doublebounceto", "postmaster").split("\n")[0]) + b"@" +
                    L(self.sc["controls"].get("doublebouncehost", self.sc["controls"].get("me", "me.example")).split("\n")[0])) if double else base
        if sender != exp_sender:
            res.v("C14", "notice %d for message %d has envelope sender %r, expected %r" % (b, orig, sender, exp_sender))
        if list(rcpts) != [exp_rcpt]:
            res.v("C14", "notice %d for message %d goes to %r, expected exactly [%r]" % (b, orig, rcpts, exp_rcpt))
        owed = [o for o in self.bounces_owed.get(orig, []) if not o["noticed"]]
        head, sep, body = body_all[:len(body_all) - len(om)].partition(b"\n\n")
        # trailer: marker paragraph + Return-Path line
        marker = MARK_DOUBLE if double else MARK_BOUNCE
        from .quoting import quote2_ref
        trailer = marker + b"\n" + b"Return-Path: <" + quote2_ref(base if not double else b"") + b">\n"
        if not body.endswith(trailer):
            res.v("C14", "notice %d: the text before the original copy does not end with the marker paragraph and Return-Path line: %r" % (b, body[-160:]))
            return
        mid = body[:len(body) - len(trailer)]
        intro_end = mid.find(b"\n\n")
        intro = mid[:intro_end + 1] if intro_end >= 0 else mid
        if (INTRO_DOUBLE if double else INTRO_BOUNCE) not in intro or not intro.startswith(b"Hi. This is the qmail-send program at "):
            res.v("C14", "notice %d: unexpected introduction paragraph %r" % (b, intro[:200]))
        rest = mid[intro_end + 2:] if intro_end >= 0 else b""
        pars = [p for p in re.split(rb"\n\n+", rest) if p.strip(b"\n")]
        pars = [p.strip(b"\n") + b"\n" for p in pars]
        exp = []
        for o in owed:
            shown = o.get("shown", strip_prepend(o["addr"], self.vdoms)).replace(b"\n", b"_")
            exp.append((b"<" + shown + b">:\n", o))
        recip_pars = [p for p in pars if p.startswith(b"<")]
        if len(pars) != len(exp):
            res.v("C14", "notice %d for message %d: %d paragraphs between introduction and marker, expected exactly %d (one per failed recipient); paragraphs=%r owed=%r" % (
                b, orig, len(pars), len(exp), [p[:60] for p in pars], [(o["addr"], o["text"][:40]) for o in owed]))
        else:
            for p, (hdr, o) in zip(pars, exp):
                if not p.startswith(hdr):
                    res.v("C14", "notice %d: paragraph %r does not start with %r" % (b, p[:80], hdr))
                    continue
                want = report_paragraph_text(o["text"])
                got = p[len(hdr):]
                if squash(hdr + got).rstrip(b"\n/") != squash(hdr + want).rstrip(b"\n/"):
                    if o.get("alt") is not None and squash(hdr + got).rstrip(b"\n/") == squash(hdr + report_paragraph_text(o["alt"])).rstrip(b"\n/"):
                        self.res.stats["slack"] = self.res.stats.get("slack", 0) + 1
                    else:
                        res.v("C14", "notice %d: failure text for %r is %r (%d bytes), expected %r (%d bytes)" % (b, o["addr"], got[:120], len(got), want[:120], len(want)))
        # header
        bf = L(self.sc["controls"].get("bouncefrom", "MAILER-DAEMON").split("\n")[0])
        bh = L(self.sc["controls"].get("bouncehost", self.sc["controls"].get("me", "me.example")).split("\n")[0])
        from .quoting import quote_ref
        hl = head.split(b"\n")
        want_from = b"From: " + quote_ref(bf) + b"@" + bh
        want_to = b"To: " + quote2_ref(exp_rcpt)
        if want_from not in hl:
            res.v("C14", "notice %d: header lacks %r (header %r)" % (b, want_from, head[:200]))
        if want_to not in hl:
            res.v("C14", "notice %d: header lacks %r (header %r)" % (b, want_to, head[:200]))
        for o in owed:
            o["noticed"] = True
        m.setdefault("notices", []).append(b)
        self.res.classes.add("double_bounce" if double else "bounce")

    def _message_gone(self, n, m):
        res = self.res
        if m["records"] is None and m["rcpts"] and not self.crashed_lost:
            # never observed preprocessed: can only happen if it finished between two quiescent points, impossible with recipients
            res.v("C03", "message %d with recipients %r left the queue without ever being preprocessed" % (n, m["rcpts"]))
            return
        for c in (0, 1):
            for a in set((m["records"] or {}).get(c, [])):
                mult = m["records"][c].count(a)
                reps = self.reports.get((n, c, a), [])
                fin = sum(1 for l, t, dy, inc in reps if l in (b"K", b"D") or (l == b"Z" and dy is not False))
                if fin < mult:
                    msg = "message %d left the queue but recipient %r (x%d) got only %d final reports: dropped (reports %r)" % (
                        n, a, mult, fin, [(l, dy) for l, t, dy, inc in reps])
                    res.v("C03", msg)
                    res.v("C03-drop", msg)         # the safety core of C03: in force under every kind of injected failure (memory included)
                    if any(l == b"Z" and dy is False for l, t, dy, inc in reps):
                        res.v("C15", "a temporary failure ended the recipient although the message is younger than queuelifetime: " + msg)
        if m["sender"] == b"#@[]":
            self.res.classes.add("triple_bounce_discard") if self.bounces_owed.get(n) else None
            return
        pend = [o for o in self.bounces_owed.get(n, []) if not o["noticed"] and not o["waived"]]
        if pend:
            self._pending_gone = getattr(self, "_pending_gone", [])
            self._pending_gone.append((n, self.w.qcount))

    def final(self):
        """end of history: every failure of a departed message must have been noticed"""
        res = self.res
        for n, m in self.msgs.items():
            if n not in self.gone:
                continue
            if m["sender"] == b"#@[]":
                continue
            for o in self.bounces_owed.get(n, []):
                if not o["noticed"] and not o["waived"]:
                    msg = "message %d left the queue; recipient %r failed permanently (%r) but no bounce naming it was queued" % (n, o["addr"], o["text"][:60])
                    res.v("C03", msg)
                    res.v("C03-drop", msg)
                    res.v("C14", msg)
                    res.v("C14-owed", msg)         # the C14 clause that stays sound across a crash (image kept) and restart
        # nothing of a departed message may stay behind: a bounce record that outlives its message (e.g. of a discarded double bounce)
        # would be taken for the record of the next message that is given the same number - a notice about somebody else's failure
        snap_end, _bad, _pids = self.w.h.snapshot()
        for n, files in snap_end.items():
            if files == {"bounce"}:
                msg = "bounce/%d is still there although message %d has left the queue (state 'bounce only' is none of S1-S5; the next message numbered %d inherits the record)" % (n, n, n)
                res.v("C02", msg)
                res.v("C14", msg)
        # at most 2 daemon-queued messages per original in fault-free histories (C14)
        if not self.fault_or_crash and not self.disorder:
            for n, m in self.msgs.items():
                if len(m.get("notices", [])) > 1:
                    res.v("C14", "message %d produced %d notices in a fault-free history (failures of one message travel in one notice)" % (n, len(m["notices"])))

    # ---------------------------------------------------------------- timeouts (C16-B / C15)
    def _check_timeout(self, info, snap):
        res = self.res
        tmo = info["req_timeout"]
        if info["spins"] > 64:
            res.v("C16", "busy loop: %d consecutive zero-timeout select() calls without any other system call" % info["spins"])
        if tmo <= 0:
            res.v("C16", "daemon blocked with a non-positive timeout %d" % tmo)
        if tmo > 86400 + 1:
            res.v("C16", "daemon asked to sleep %d s, more than SLEEP_FOREVER+fuzz" % tmo)
        if info["timeout"] != info["req_timeout"]:
            return   # continuation of the same select() call
        now = info["vnow"]
        if self.term_sent:
            return
        hw = getattr(self, "hup_wake", None)
        self.hup_wake = None
        if hw and hw["inc"] == self.w.incarnation and self.w.qcount == hw["q"] + 1 and now < hw["abs"]:
            # the select() interrupted by HUP was due to return at hw["abs"]; nothing became due in between (now < abs), no report, no
            # injection, so the daemon's earliest due event is unchanged: "it never sleeps past its earliest due event"
            self.res.classes.add("hup_during_sleep")
            if now + tmo > hw["abs"]:
                res.v("C16", "after a HUP that interrupted its sleep the daemon plans to wake at %d, %d s later than before the signal (%d); now %d, timeout %d"
                      % (now + tmo, now + tmo - hw["abs"], hw["abs"], now, tmo))
        # a message all of whose recipient lists are finished (state mess+info only, no notice owed) is due for removal NOW: the daemon never
        # blocks with a positive timeout while one is there. Also judged (tag C16-done) under a single failing stat(), for messages that have
        # been through a delivery and that the failing stat() did not concern (added after seeded change C16-I)
        md = self.sc["mode"]
        stat_fault = md["kind"] == "fault" and md.get("cls") == "stat"
        if not self.disorder and not self.w.outstanding and (not self.fault_or_crash or stat_fault):
            for n, files in snap.items():
                if set(files) != {"mess", "info"}:
                    continue
                if stat_fault:
                    if not any(k[0] == n and any(r[3] == self.w.incarnation for r in v) for k, v in self.reports.items()):
                        continue
                    # the failing stat() concerned this very message (messdone looks at local/remote/todo/info/bounce first): it is put
                    # aside for SLEEP_SYSFAIL, documented
                    hit = [e for e in self.w.h.read_trace() if e["call"] == "stat" and e["a"] and e["a"][-1] == "FAULT"]
                    if not hit or any(e["a"][0].endswith("/%d" % n) for e in hit):
                        continue
                self.res.classes.add("finished_message_seen_at_block")
                msg = "message %d is finished (mess+info only) but the daemon blocks for %d s instead of removing it: it sleeps past a due event" % (n, tmo)
                if not self.fault_or_crash:
                    res.v("C16", msg)
                res.v("C16-done", msg)
        # never sleep past the earliest due retry of a message that is not in a job and has a free slot
        for (n, c), pl in self.passes.items():
            if n not in snap or not pl:
                continue
            p = pl[-1]
            if p["left"] > 0 or p.get("blocked") or p["inc"] != self.w.incarnation:
                continue
            if any(cm.n == n and cm.chan == c for cm in self.w.outstanding):
                continue
            if not self.w.spawner_alive[c] or self.limit(c) == 0:
                continue
            recs = self.last_records.get(n, {}).get(c)
            if not recs or not any(mk == b"T" for mk, a in recs):
                continue
            # a free job slot is needed too: jobs are held by every (message, channel) with outstanding attempts or an open pass;
            # a zero-concurrency channel may hold one forever, so nothing is asserted then
            if 0 in (self.limit(0), self.limit(1)):
                continue
            jobs = {(cm.n, cm.chan) for cm in self.w.outstanding} | {k for k, v in self.passes.items() if v and v[-1]["left"] > 0 and v[-1]["inc"] == self.w.incarnation}
            if len(jobs) >= sum(self.limit(x) for x in (0, 1)):
                continue
            if sum(1 for cm in self.w.outstanding if cm.chan == c) >= self.limit(c):
                continue
            birth = self.w.mess_seen.get(n, {}).get("birth")
            if birth is None:
                continue
            due = retry_time(birth, p["start"], c)
            if due <= now:
                # already due with a free slot, yet the daemon blocks with a positive timeout
                res.v("C15", "message %d channel %d is due since %d (now %d) with a free slot, but the daemon blocks for %d s" % (n, c, due, now, tmo))
            elif tmo > due - now + 1:
                res.v("C16", "daemon sleeps %d s past its earliest due event: message %d channel %d is due in %d s" % (tmo, n, c, due - now))
            self.res.classes.add("q_with_future_due")
        # "the schedule survives a clean restart": a (message, channel) whose last pass belongs to an EARLIER incarnation, every stop since then
        # having been a clean TERM exit, is due at the retry time fixed by that pass - or at the instant of an ALRM that found it waiting -
        # and is served / slept for exactly as if the daemon had never stopped (added after seeded change C15-I)
        if self.fault_or_crash or self.disorder:
            return
        for (n, c), pl in self.passes.items():
            if n not in snap or not pl:
                continue
            p = pl[-1]
            if p["inc"] == self.w.incarnation or p["inc"] < getattr(self, "clean_from", 0):
                continue
            if p["left"] > 0 or p.get("blocked") or p.get("open_at_term"):
                continue
            if any(cm.n == n and cm.chan == c for cm in self.w.outstanding):
                continue
            if not self.w.spawner_alive[c] or 0 in (self.limit(0), self.limit(1)):
                continue
            recs = self.last_records.get(n, {}).get(c)
            if not recs or not any(mk == b"T" for mk, a in recs):
                continue
            jobs = {(cm.n, cm.chan) for cm in self.w.outstanding} | {k for k, v in self.passes.items() if v and v[-1]["left"] > 0 and v[-1]["inc"] == self.w.incarnation}
            if len(jobs) >= sum(self.limit(x) for x in (0, 1)) or sum(1 for cm in self.w.outstanding if cm.chan == c) >= self.limit(c):
                continue
            birth = self.w.mess_seen.get(n, {}).get("birth")
            if birth is None:
                continue
            due = retry_time(birth, p["start"], c)
            ad = getattr(self, "alrm_due", {}).get((n, c))
            if ad is not None:
                due = min(due, ad)
            self.res.classes.add("schedule_across_clean_restart_checked")
            if due <= now:
                res.v("C15", "message %d channel %d was due at %d (%s) before the clean restart and still is (now %d, free slot), but the restarted daemon blocks for %d s without trying it"
                      % (n, c, due, "made due by ALRM" if ad is not None and ad == due else "retry time of its last pass", now, tmo))
            elif tmo > due - now + 1:
                res.v("C16", "restarted daemon sleeps %d s past its earliest due event: message %d channel %d is due in %d s (schedule persisted by the clean stop)" % (tmo, n, c, due - now))


def retry_time(birth, start, chan):
    age = start - birth
    n = isqrt(age) if age > 0 else 0
    n += (10, 20)[chan]
    return birth + n * n


# ==================================================================== runner

def run_scenario(tree, wpath, sc, maxq=None, world=None):
    res = Result()
    w = world or qworld.World(tree, wpath, controls=sc["controls"], limits=tuple(sc["limits"]))
    if world is not None:
        w.kill_all()
        w.reset_queue()
        for f in os.listdir(os.path.join(w.h.dir, "control")):
            os.unlink(os.path.join(w.h.dir, "control", f))
        w.controls = dict(sc["controls"])
        for k, v in w.controls.items():
            w.h.control(k, v)
        w.limits = tuple(sc["limits"])
    w.extra_env = {k: v for k, v in getattr(w, "extra_env", {}).items() if not k.startswith(("SI_", "QMAILQUEUE"))}
    if sc.get("qq_refuse"):
        # the daemon runs behind a QMAILQUEUE filter that refuses its first injections (the failure notices) with the scripted exit statuses
        # and then lets everything through to the real qmail-queue: an obligation to bounce survives every refusal, permanent ones included
        import shutil
        sd = os.path.join(w.h.dir, "qq-filter")
        shutil.rmtree(sd, ignore_errors=True)
        os.makedirs(sd)
        w.extra_env.update({"QMAILQUEUE": sandbox.STANDIN, "SI_DIR": sd, "SI_EXIT_SEQ": ",".join(str(x) for x in sc["qq_refuse"]) + ",0",
                            "SI_PASS": tree.path("qmail-queue") if tree is not None else w.tree.path("qmail-queue")})
        res.classes.add("queue_filter_refuses_notice")
    led = Ledger(sc, res, w)
    led.alrm_pending = {}
    led.alrm_due = {}
    led.clean_from = 0
    w.partial = None
    mode = sc["mode"]
    crash = fault = None
    if mode["kind"] == "crash":
        crash = "%s:%d" % (mode["key"], mode["k"])
    elif mode["kind"] in ("fault", "eintr"):
        fault = "%s:%s:%d:%s" % (mode["key"], mode["cls"], mode["k"], mode["err"])
    tape = list(sc.get("tape", []))
    plan = list(sc.get("plan", []))
    acts = set(sc.get("actions", ["answer", "inject", "advance"]))
    pending = list(enumerate(sc["messages"]))
    texts = [L(t) for t in sc.get("texts", ["ok"])] or [b"ok"]
    attempt = {}            # (mi, ri) or ("b", level) -> attempts so far
    nrec = sum(len(m["rcpts"]) for m in sc["messages"])
    maxz = max([len(s) for s in sc.get("scripts", {}).values()] + [1])
    maxq = maxq or (60 + 8 * (nrec + 2) * (maxz + 2) + 3 * len(tape) + (60 if sc["mode"]["kind"] != "none" else 0))
    used = {"hup": 0, "alrm": 0, "term": 0, "spawndie": 0, "garbage": 0, "restart": 0}
    crashed_done = False
    reached_mode = False
    finishing = False
    ncmd_seen = 0
    idle_advances = 0
    inc0 = w.incarnation
    fault_inc = mode.get("inc", 1) if mode["kind"] == "fault" else 1     # which start of the daemon (1 = the first) runs under the fault
    try:
        for mi, m in [pm for pm in pending if pm[1].get("preplaced_id")]:
            # a fully pre-processed message put into the queue under a chosen number (message numbers are inode numbers: on file systems with
            # 64-bit inodes they exceed 2^32, which the scratch file system never hands out). Only plain local / remote recipients.
            pending.remove((mi, m))
            n = int(m["preplaced_id"])
            hh = w.h
            loc = {x.strip().lower() for x in sc["controls"].get("locals", "").split("\n") if x.strip()}
            byc = {0: b"", 1: b""}
            for r in m["rcpts"]:
                byc[0 if r.rsplit("@", 1)[-1].lower() in loc else 1] += b"T" + L(r) + b"\0"
            files = {"mess": b"Received: (qmail 1 invoked by uid 4242); 1 Jan 2020 00:00:00 -0000\n" + L(m.get("body", "x\n")), "info": b"F" + L(m["sender"]) + b"\0"}
            if byc[0]:
                files["local"] = byc[0]
            if byc[1]:
                files["remote"] = byc[1]
            for name, data in files.items():
                fp = hh.qpath(name, n)
                with open(fp, "wb") as f_:
                    f_.write(data)
                os.chmod(fp, 0o644 if name == "mess" else 0o600)
                os.utime(fp, (w.vnow(), w.vnow()))
            led.accepted(n, "input", L(m["sender"]), [L(r) for r in m["rcpts"]], mi)
            w._observe_queue()
            res.classes.add("message_number_beyond_32_bits" if n >= 2 ** 32 else "preplaced_message")
        bl = sc.get("backlog")
        if bl:
            # mail accepted while the daemon was down for a long time ("backlog": {"n": messages, "age": seconds}): the first n messages are
            # queued before the daemon starts and the clock is moved on, so they are older than the 36-hour collection limit when the
            # start-up sweep and the todo scan race each other - fully accepted mail is not debris
            for _ in range(min(int(bl["n"]), len(pending))):
                mi, m = pending.pop(0)
                rc, n = w.inject(L(m["sender"]), [L(r) for r in m["rcpts"]], L(m.get("body", "Subject: x\n\nbody\n")))
                if rc == 0 and n is not None:
                    led.accepted(n, "input", L(m["sender"]), [L(r) for r in m["rcpts"]], mi)
            w.advance(int(bl["age"]))
            res.classes.add("backlog_older_than_36h" if bl["age"] > 129600 else "backlog_before_start")
        w.start(crash=crash, fault=fault if fault_inc == 1 else None)
        while True:
            if w.qcount > maxq or (idle_advances > 8 and 0 in (led.limit(0), led.limit(1)) and not finishing):
                st, bad, pids = w.h.snapshot()
                if 0 in (led.limit(0), led.limit(1)):
                    # "0 means no deliveries": a zero-concurrency channel legitimately blocks its messages (and may hold a job slot)
                    res.classes.add("stuck_zero_concurrency")
                    break
                res.v("C03", "bound of %d quiescent points exceeded with messages still queued: %r (every message must leave the queue in bounded time)" % (maxq, {k: sorted(v) for k, v in st.items()}))
                res.v("C15", "bound of %d quiescent points exceeded with messages still queued" % maxq)
                break
            if mode["kind"] == "crash" and not crashed_done and os.path.exists(w.crashflag):
                # machine crash: everything stops now
                w.kill_all()
                crashed_done = reached_mode = True
                res.classes.add("crash_reached")
                led_after_crash(led, w, mode)
                led.term_sent = False
                finishing = False
                w.start()
                continue
            try:
                ev = w.wait_event()
            except qworld.Inconclusive:
                if mode["kind"] == "crash" and not crashed_done and os.path.exists(w.crashflag):
                    continue
                raise
            led.discover_all()
            if len(w.cmds) > ncmd_seen:
                idle_advances = 0
            for cmd in w.cmds[ncmd_seen:]:
                led.on_cmd(cmd)
            ncmd_seen = len(w.cmds)
            if ev[0] == "I":
                continue
            if ev[0] == "exit":
                st = ev[1]
                if mode["kind"] == "crash" and not crashed_done and os.path.exists(w.crashflag):
                    w.kill_all()
                    crashed_done = reached_mode = True
                    res.classes.add("crash_reached")
                    led_after_crash(led, w, mode)
                    led.clean_from = w.incarnation + 1
                    led.term_sent = False
                    finishing = False
                    w.start()
                    continue
                w.stop_clean()
                if finishing:
                    if st != 0:
                        res.v("C04", "daemon exit status %r after TERM with nothing outstanding, expected 0" % st)
                    break
                if led.term_sent:
                    if st != 0:
                        res.v("C04", "daemon exit status %r after TERM, expected 0" % st)
                    if w.outstanding and all(w.spawner_alive):
                        res.v("C04", "daemon exited after TERM while %d attempts were outstanding" % len(w.outstanding))
                    led.term_sent = False
                    res.classes.add("term_restart")
                    if st != 0:
                        led.clean_from = w.incarnation + 1
                elif used["spawndie"] and not all(w.spawner_alive):
                    res.classes.add("spawner_death_restart")
                    led.clean_from = w.incarnation + 1
                elif st == -9 and b"BUSYLOOP" in open(w.h.trace, "rb").read()[-4000:]:
                    res.v("C16", "busy loop: the daemon issued more than 100000 zero-timeout select() calls in a row")
                    break
                elif mode["kind"] == "fault":
                    res.classes.add("exit_under_fault_%s" % st)
                    led.clean_from = w.incarnation + 1
                else:
                    res.v("C03", "daemon exited unexpectedly with status %r; log tail %r" % (st, w.log[-300:]))
                    break
                for cm in list(w.outstanding):
                    pass
                w.outstanding = []
                used["restart"] += 1
                if used["restart"] > 6:
                    break
                # a restarted daemon runs under the injected fault when the mode names this start ("inc"): start-up code paths under failure
                w.start(fault=fault if fault is not None and w.incarnation - inc0 + 1 == fault_inc and fault_inc > 1 else None)
                continue
            # ---- quiescent point
            info = ev[1]
            res.stats["max_outstanding"] = max(res.stats.get("max_outstanding", 0), len(w.outstanding))
            led.observe(info)
            if info["timeout"] == info["req_timeout"]:
                res.nq += 1
            if mode["kind"] == "fault" and not reached_mode:
                pass
            if getattr(w, "partial", None):
                # second half of a report that was split across two writes (C18: reports may arrive in pieces)
                cmd, rest, text, dying = w.partial
                w.partial = None
                led.on_report(cmd, text, dying)
                w.raw_report(cmd.chan, rest)
                cmd.answered = text
                if cmd in w.outstanding:
                    w.outstanding.remove(cmd)
                w.history.append(("report_second_half", cmd.as_json()))
                w.resume()
                continue
            # enabled actions
            enabled = []
            if finishing or led.term_sent:
                if w.outstanding:
                    enabled = [("answer", i) for i in range(len(w.outstanding))]
                else:
                    enabled = [("advance_due",)]
            else:
                if "answer" in acts:
                    enabled += [("answer", i) for i in range(min(len(w.outstanding), 4))]
                if "answer2" in acts and len(w.outstanding) >= 2:
                    enabled.append(("answer2",))          # two reports reach the daemon in the same loop iteration
                if pending and "inject" in acts:
                    enabled.append(("inject",))
                if "advance" in acts:
                    enabled.append(("advance_due",))
                    enabled.append(("advance_part",))
                if "hup" in acts and used["hup"] < 2:
                    enabled.append(("hup",))
                if "alrm" in acts and used["alrm"] < 2:
                    enabled.append(("alrm",))
                if "term" in acts and used["term"] < sc.get("term_max", 1):
                    enabled.append(("term",))
                if "spawndie" in acts and used["spawndie"] < 1 and w.outstanding:
                    enabled.append(("spawndie",))
                if "garbage" in acts and used["garbage"] < 3:
                    enabled.append(("garbage",))
            act = None
            if plan and not finishing:
                # symbolic step of a fixed history ("inject", "answer", "advance_part:99", "hup", ...): taken as soon as it is enabled;
                # until then the drain policy below moves the world on
                name, _, parg = plan[0].partition(":")
                cand = [e for e in enabled if e[0] == name]
                if cand:
                    plan.pop(0)
                    act, arg = cand[0], int(parg or 0)
            if act is not None:
                pass
            elif tape and not finishing and not plan:
                act = enabled[tape.pop(0) % len(enabled)]
                arg = tape.pop(0) if tape else 0
            else:
                arg = 0
                # drain policy
                if pending:
                    act = ("inject",)
                elif w.outstanding:
                    act = ("answer", 0)
                elif queue_done(w, led):
                    if finishing:
                        act = ("advance_due",)
                    else:
                        finishing = True
                        led.term_sent = True
                        led.term_q = w.qcount
                        w.signal(signal.SIGTERM)
                        continue
                else:
                    act = ("advance_due",)
            # ---- perform
            if act[0] in ("answer", "answer2"):
                for cmd in ([w.outstanding[act[1]]] if act[0] == "answer" else list(w.outstanding[:2])):
                    text, dying = choose_report(sc, led, cmd, attempt, texts)
                    led.on_report(cmd, text, dying)
                    w.report(cmd, text)
                    if text[:1] not in (b"K",):
                        res.classes.add("outcome_" + (text[:1].decode("latin-1") if text[:1] in (b"Z", b"D") else "garbage"))
                if act[0] == "answer2":
                    res.classes.add("two_reports_in_one_iteration")
                w.resume()
            elif act[0] == "inject":
                mi, m = pending.pop(0)
                rc, n = w.inject(L(m["sender"]), [L(r) for r in m["rcpts"]], L(m.get("body", "Subject: x\n\nbody\n")))
                if rc == 0 and n is not None:
                    led.accepted(n, "input", L(m["sender"]), [L(r) for r in m["rcpts"]], mi)
                elif rc == 0:
                    res.v("C01", "qmail-queue exit 0 but no todo entry appeared")
                w.resume()
            elif act[0] == "advance_due":
                idle_advances += 1
                w.advance(max(info["timeout"], 1))
                w.resume()
            elif act[0] == "advance_part":
                d = 1 + arg % max(info["timeout"], 1)
                w.advance(min(d, info["timeout"]))
                res.classes.add("partial_advance")
                w.resume()
            elif act[0] == "hup":
                used["hup"] += 1
                apply_hup(sc, w)
                if "virtualdomains" in sc.get("hup_controls", {}):
                    led.vdoms = parse_vdoms(sc["hup_controls"]["virtualdomains"])      # re-read before the daemon looks at any later report
                res.classes.add("hup")
                # HUP only makes the daemon re-read two control files: the instant at which it planned to wake must not move later
                if 0 < info["req_timeout"] < 86400:
                    led.hup_wake = {"abs": info["vnow"] + info["timeout"], "q": w.qcount, "inc": w.incarnation}
                w.signal(signal.SIGHUP)
            elif act[0] == "alrm":
                used["alrm"] += 1
                res.classes.add("alrm")
                for (n, c), pl in led.passes.items():
                    led.alrm_pending[(n, c)] = True
                led.alrm_at = w.vnow()
                for (n, c), pl in led.passes.items():
                    # waiting in the priority queue (not in a job) when the ALRM arrives: due from this instant on, also across clean restarts
                    if pl and not any(cm.n == n and cm.chan == c for cm in w.outstanding) and not (pl[-1]["inc"] == w.incarnation and pl[-1]["left"] > 0):
                        led.alrm_due[(n, c)] = w.vnow()
                led.note_alrm()
                w.signal(signal.SIGALRM)
            elif act[0] == "term":
                used["term"] += 1
                led.note_term()
                led.term_sent = True
                res.classes.add("term")
                w.signal(signal.SIGTERM)
            elif act[0] == "spawndie":
                used["spawndie"] += 1
                led.disorder = True
                ch = w.outstanding[arg % len(w.outstanding)].chan
                w.spawner_die(ch)
                res.classes.add("spawner_death")
                w.resume()
            elif act[0] == "garbage":
                used["garbage"] += 1
                if arg % 7 == 6 and w.outstanding and all(w.spawner_alive):
                    cmd = w.outstanding[(arg // 7) % len(w.outstanding)]
                    text, dying = choose_report(sc, led, cmd, attempt, texts)
                    data = bytes([cmd.delnum]) + text + b"\0"
                    cut = 1 + (arg // 49) % (len(data) - 1)
                    w.raw_report(cmd.chan, data[:cut])
                    w.partial = (cmd, data[cut:], text, dying)
                    res.classes.add("split_report")
                    res.classes.add("hostile_report")
                else:
                    hostile_report(sc, w, led, arg, res)
                w.resume()
        led.final()
        check_attempt_counts(sc, led, res)
        check_retry_schedule(sc, led, res)
        if mode["kind"] == "crash" and not crashed_done:
            res.classes.add("crash_not_reached")
        if mode["kind"] == "fault":
            tr = open(w.h.trace, "rb").read()
            if b"\tFAULT\n" in tr or b"\tSHORT\n" in tr:
                res.classes.add("fault_reached")
            else:
                res.classes.add("fault_not_reached")
    except qworld.BusyLoop as e:
        msg = "the daemon is spinning instead of blocking: " + str(e)[:500]
        for tag in ("C16", "C15", "C03", "C04"):
            res.v(tag, msg)
    except qworld.Inconclusive as e:
        res.inconclusive = True
        res.stats["inconclusive_reason"] = str(e)
    finally:
        res.stats["log_tail"] = w.log[-400:].decode("latin-1")
        res.stats["ncmds"] = len(w.cmds)
        if world is None:
            w.close()
        else:
            w.kill_all()
    res.ledger = led
    return res


def queue_done(w, led=None):
    st, bad, pids = w.h.snapshot()
    for n, files in st.items():
        if files & {"todo", "info", "local", "remote", "bounce"}:
            if led is not None and "todo" not in files and "info" in files:
                # a message whose only unfinished recipients sit on a channel with concurrency 0 (or a dead spawner) can never
                # progress: "0 means no deliveries" (qmail-send.9); it is not stuck by the daemon's fault
                recs = w.chan_records(n)
                blocked = True
                for c in (0, 1):
                    if recs[c] is not None and led.limit(c) > 0:
                        blocked = False
                if ("local" in files or "remote" in files) and blocked:
                    continue
            return False
    return True


def led_after_crash(led, w, mode):
    """apply the post-crash image"""
    if mode.get("image") == "lost":
        led.crashed_lost = True
        q = w.h.queue
        for root, dirs, files in os.walk(q):
            if root.endswith("/lock") or root.endswith("/pid"):
                continue
            for f in files:
                p = os.path.join(root, f)
                try:
                    st = os.stat(p)
                except FileNotFoundError:
                    continue
                import stat as _s
                if not _s.S_ISREG(st.st_mode):
                    continue
                sp = os.path.join(w.shadow, str(st.st_ino))
                synced = open(sp, "rb").read() if os.path.exists(sp) else b""
                cur = open(p, "rb").read()
                if cur != synced:
                    mt = (st.st_atime, st.st_mtime)
                    with open(p, "r+b") as fh:
                        fh.seek(0)
                        fh.write(synced)
                        fh.truncate(len(synced))
                    os.utime(p, mt)
        # un-fsynced bounce records are documented as not crash-proof: obligations recorded so far are waived
        for n, lst in led.bounces_owed.items():
            for o in lst:
                if not o["noticed"]:
                    o["waived"] = True
    # a final report whose effect (the mark) did not survive the crash was never acknowledged by the daemon: the recipient is still
    # pending and will be attempted again, so the bounce obligation recorded for that report is void (the next report decides)
    for n, lst in led.bounces_owed.items():
        recs = w.chan_records(n)
        for c in (0, 1):
            if recs[c] is None:
                continue
            for a in {o["addr"] for o in lst if o["chan"] == c}:
                marks = sum(1 for mk, x in recs[c] if mk == b"D" and x == a)
                reps = led.reports.get((n, c, a), [])
                fin = sum(1 for l, t, dy, inc in reps if l in (b"K", b"D") or (l == b"Z" and dy is not False))
                lost = fin - marks
                for o in reversed(lst):
                    if lost <= 0:
                        break
                    if o["chan"] == c and o["addr"] == a and not o["noticed"] and not o["waived"]:
                        o["waived"] = True
                        lost -= 1
    led.disorder = True
    w.outstanding = []


def choose_report(sc, led, cmd, attempt, texts):
    """scripted outcome for this attempt -> (report bytes, dying?)"""
    m = led.msgs.get(cmd.n)
    key = None
    script = "K"
    if m and m["kind"] == "input":
        # associate with the input recipient: longest input address contained in the command's recipient
        best = None
        for ri, r in enumerate(m["rcpts"]):
            rl = r.lower()
            if rl and rl in cmd.recip.lower() or (rl.split(b"@")[0] and rl.split(b"@")[0] in cmd.recip.lower()):
                if best is None or len(r) > len(m["rcpts"][best]):
                    best = ri
        if best is None:
            best = 0
        key = (m["idx"], best)
        script = sc.get("scripts", {}).get("%d:%d" % key, "K")
    elif m:
        lvl = 0 if m["sender"] == b"" else 1
        key = ("b", lvl, cmd.n)
        bs = sc.get("bscript", "")
        script = bs[lvl] if lvl < len(bs) else "K"
    a = attempt.get(key, 0)
    attempt[key] = a + 1
    letter = script[a] if a < len(script) else ("K" if script[-1:] not in ("D",) else "D")
    if a >= len(script) and script.endswith("Z"):
        letter = "K"
    text = texts[(a + (key[1] if key and isinstance(key[1], int) else 0)) % len(texts)]
    dying = led.is_dying(cmd)
    if letter == "G":
        return b"Q" + text, dying      # unknown letter: report mangled, will defer
    if letter == "E":
        return b"", dying              # empty report (just the delivery number and NUL is ignored by the daemon: len<=1)
    return L(letter) + text, dying


def apply_hup(sc, w):
    for k, v in sc.get("hup_controls", {}).items():
        w.h.control(k, v)


def hostile_report(sc, w, led, arg, res):
    """C18 part 3: bytes on the report channels that no delivery is waiting for"""
    chan = arg % 2
    used = {c.delnum for c in w.outstanding if c.chan == chan}
    kind = (arg // 2) % 5
    free = [d for d in range(256) if d not in used]
    dn = free[(arg // 10) % len(free)]
    if kind == 0:
        data = bytes([dn]) + b"Kforged success" + b"\0"
    elif kind == 1:
        data = bytes([255]) + b"Dforged failure" + b"\0"
    elif kind == 2:
        data = bytes([dn]) + b"Z" + b"x" * 12000 + b"\0"
    elif kind == 3:
        data = bytes([dn]) + b"\0"
    else:
        data = bytes([dn]) + b"D" + b"<victim@example.org>:\nforged\n\n" + b"\0"
    if not w.spawner_alive[chan]:
        return
    w.raw_report(chan, data)
    w.history.append(("hostile", chan, vlib.jsonable(data[:40])))
    res.classes.add("hostile_report")
    # hostile reports carry delivery numbers that are not in use: they must not change any state (checked by the ledger:
    # marks without reports -> C03/C18, slots freed -> C04 limits, bounce paragraphs -> C14)


def check_attempt_counts(sc, led, res):
    """crash- and fault-free histories: every recipient that ends K got exactly one K, every D exactly one D (C04.4)"""
    if led.fault_or_crash or led.disorder:
        return
    for (n, c, a), reps in led.reports.items():
        m = led.msgs.get(n)
        if not m or m["records"] is None:
            continue
        mult = m["records"][c].count(a)
        fin = sum(1 for l, t, dy, inc in reps if l in (b"K", b"D") or (l == b"Z" and dy))
        unknown = sum(1 for l, t, dy, inc in reps if l == b"Z" and dy is None)
        if fin > mult and not unknown:
            res.v("C04", "message %d recipient %r (x%d) received %d final (K/D) attempts: a finished recipient was attempted again (reports %r)" % (
                n, a, mult, fin, [l for l, t, dy, inc in reps]))
        ncmd = led.cmdcount.get((n, c, a), 0)
        if ncmd != len(reps) and n in led.gone:
            res.v("C04", "message %d recipient %r: %d commands but %d reports" % (n, a, ncmd, len(reps)))


def check_due_order(sc, led, res):
    """C15: due messages on one channel are served earliest-due first (ties free). Compared: passes that started in the same
    quiescent interval (same clock value), both with a due time known from their previous pass and both already due."""
    for c in (0, 1):
        starts = sorted((p for (n, cc), pl in led.passes.items() if cc == c for p in [dict(x, n=n) for x in pl]), key=lambda p: p["seq"])
        for a, b in zip(starts, starts[1:]):
            if a["q"] != b["q"] or a["inc"] != b["inc"] or a["start"] != b["start"]:
                continue
            if a.get("after_alrm") or b.get("after_alrm") or a["due"] is None or b["due"] is None:
                continue
            if a["blocked"] or b["blocked"]:
                continue
            if a["due"] <= a["start"] and b["due"] <= b["start"]:
                res.classes.add("due_order_checked")
                if a["due"] > b["due"]:
                    res.v("C15", "channel %d: message %d (due %d) was served before message %d (due %d) although both were due at %d: not earliest-due first" % (
                        c, a["n"], a["due"], b["n"], b["due"], a["start"]))


def check_retry_schedule(sc, led, res):
    """C15 layer 3: a pass of (message, channel) never starts before the retry time fixed by the previous pass"""
    check_due_order(sc, led, res)
    for (n, c), pl in led.passes.items():
        birth = led.w.mess_seen.get(n, {}).get("birth")
        if birth is None:
            continue
        for prev, nxt in zip(pl, pl[1:]):
            if prev["inc"] != nxt["inc"]:
                res.classes.add("retry_across_restart")
                # only a clean stop (TERM) persists the schedule; after a crash or a lost spawner the interrupted
                # pass was never closed, so the message is legitimately due at once
                if led.fault_or_crash or led.disorder:
                    continue
            if nxt.get("after_alrm"):
                res.classes.add("retry_after_alrm")
                continue
            lo = prev["start"]
            if prev.get("blocked"):
                continue
            due = retry_time(birth, lo, c)
            res.classes.add("retry_checked")
            if nxt["start"] < due:
                msg = "message %d channel %d: pass started at %d (age %d), next pass at %d, before the back-off time %d = birth + (isqrt(%d)+%d)^2" % (
                    n, c, prev["start"], prev["start"] - birth, nxt["start"], due, max(prev["start"] - birth, 0), (10, 20)[c])
                if prev["inc"] != nxt["inc"] and prev.get("open_at_term"):
                    # genuine, recorded: TERM while the pass was still open (its channel saturated) - the retry time is not persisted
                    res.known.append(("C15", "term_during_open_pass", msg))
                    res.classes.add("known_term_during_open_pass")
                else:
                    res.v("C15", msg)
                    res.v("C15-early", msg)        # the clause that stays sound under a single injected I/O failure
            if due <= prev["start"]:
                res.v("C15", "retry time %d is not in the future of the pass start %d" % (due, prev["start"]))
