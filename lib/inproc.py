"""Building and running the in-process C harnesses against a scratch tree."""
import os, json, subprocess, re
from . import vlib

SMTPD_LIBS = ("rcpthosts.o commands.o ip.o ipme.o ipalloc.o control.o constmap.o received.o date822fmt.o "
              "cdb.a fd.a wait.a datetime.a getln.a open.a sig.a case.a env.a stralloc.a substdio.a error.a str.a fs.a auto_qmail.o")
REMOTE_LIBS = ("control.o constmap.o timeoutconn.o tcpto.o dns.o ip.o ipalloc.o ipme.o quote.o ndelay.a case.a sig.a open.a "
               "lock.a getln.a stralloc.a substdio.a error.a str.a fs.a auto_qmail.o -lresolv")

SAN = "-fsanitize=address,undefined -fno-sanitize-recover=undefined"


def wrap_object(tree, src, out, fuzzer=False, extra=""):
    """Compile a program wrapper with hidden visibility and localise its globals."""
    san = SAN.replace("-fsanitize=", "-fsanitize=fuzzer-no-link,") if fuzzer else SAN
    cmd = ("clang -g -O1 -fno-omit-frame-pointer -fvisibility=hidden %s -Wno-everything -I%s -I%s/inproc %s -c %s -o %s && "
           "objcopy --localize-hidden %s" % (san, tree.dir, vlib.VERIF, extra, src, out, out))
    p = vlib.sh(cmd, cwd=tree.dir)
    if p.returncode != 0:
        raise vlib.HarnessError("wrapper compile failed (%s):\n%s" % (src, p.stdout.decode(errors="replace")[-3000:]))
    return out


def link(tree, out, objs, libs, fuzzer=False, defs="", cxx=False):
    san = SAN.replace("-fsanitize=", "-fsanitize=fuzzer,") if fuzzer else SAN
    comp = "clang++ -std=gnu++17" if cxx else "clang"
    cmd = "%s -g -O1 -fno-omit-frame-pointer %s -Wno-everything -I%s -I%s/inproc %s %s %s -o %s" % (
        comp, san, tree.dir, vlib.VERIF, defs, " ".join(objs), libs, out)
    p = vlib.sh(cmd, cwd=tree.dir)
    if p.returncode != 0:
        raise vlib.HarnessError("harness link failed:\n%s\n%s" % (cmd, p.stdout.decode(errors="replace")[-3000:]))
    return out


def dedup_libs(*libsets):
    seen, out = set(), []
    for ls in libsets:
        for l in ls.split():
            if l not in seen:
                seen.add(l)
                out.append(l)
    objs = [l for l in out if l.endswith(".o")]
    ars = [l for l in out if l.endswith(".a")]
    rest = [l for l in out if not l.endswith((".o", ".a"))]
    return " ".join(objs + ars + ars + rest)


def parse_stats(out):
    """Parse 'STATS {json}' and 'VIOLATION-CASE ...' lines of a harness."""
    stats, viols = None, []
    for line in out.split("\n"):
        if line.startswith("STATS "):
            try:
                stats = json.loads(line[6:])
            except Exception:
                pass
        elif line.startswith("VIOLATION-CASE "):
            viols.append(line[len("VIOLATION-CASE "):])
    return stats, viols


def run_shards(cmds, timeout=None):
    """Run commands in parallel (one per core); returns list of (rc, stdout)."""
    import concurrent.futures as cf

    def one(c):
        try:
            p = subprocess.run(c, stdout=subprocess.PIPE, stderr=subprocess.STDOUT, timeout=timeout,
                               env=dict(os.environ, ASAN_OPTIONS="detect_leaks=0:abort_on_error=0", UBSAN_OPTIONS="print_stacktrace=1"))
            return p.returncode, p.stdout.decode(errors="replace")
        except subprocess.TimeoutExpired as e:
            return None, (e.stdout or b"").decode(errors="replace")
    with cf.ThreadPoolExecutor(max_workers=vlib.NCPU) as ex:
        return list(ex.map(one, cmds))


def merge_c_stats(ctx, results, what, sample_prefix=""):
    """Fold harness outputs into ctx.stats; returns list of violation strings."""
    viols = []
    for rc, out in results:
        st, v = parse_stats(out)
        if st:
            ctx.stats.evaluations += st["evaluations"]
            ctx.stats.nontrivial_extra += st["nontrivial"]
            ctx.stats.slack += st.get("slack", 0)
            for k, n in st.get("classes", {}).items():
                ctx.stats.cls(what + ":" + k, n)
            for s in st.get("samples", []):
                if len(ctx.stats.samples) < 10:
                    ctx.stats.samples.append({"harness": what, "input_hex": s})
        viols += v
        if rc is None:
            ctx.stats.inconclusive += 1
        elif rc not in (0, 1) or (rc == 1 and not v):
            # sanitizer abort or crash: report with the tail of the output
            viols.append("CRASH rc=%s %s" % (rc, out[-1500:]))
    return viols


def ddmin(data, fails, budget=3000):
    """Delta-debug a failing byte string (fails(bytes) -> bool). At most `budget` evaluations of the predicate: a failure that depends on a
    position modulo a buffer size shrinks one byte per quadratic round, so the shrink is best effort (the unshrunk input is a valid replay)."""
    n = 2
    data = bytes(data)
    calls = [0]
    seen = set()

    def f(cand):
        if cand in seen:
            return False          # already tried (uniform inputs give the same candidate for every position)
        seen.add(cand)
        calls[0] += 1
        return fails(cand)

    while len(data) >= 2 and calls[0] < budget:
        chunk = max(1, len(data) // n)
        reduced = False
        for i in range(0, len(data), chunk):
            if calls[0] >= budget:
                break
            cand = data[:i] + data[i + chunk:]
            if f(cand):
                data = cand
                n = max(n - 1, 2)
                reduced = True
                break
        if not reduced:
            if chunk == 1:
                break
            n = min(n * 2, len(data))
    return data
