"""Virtual /var/qmail homes and process running under vshim."""
import os, sys, stat, subprocess, shutil, signal, time, urllib.parse
from . import vlib

SHIM = os.path.join(vlib.VERIF, "shim", "vshim.so")

UIDS = {"alias": 7001, "qmaild": 7002, "qmaill": 7003, "root": 0, "qmailp": 7004,
        "qmailq": 7005, "qmailr": 7006, "qmails": 7007}
GIDS = {"qmail": 7100, "nofiles": 7101}

BINARIES = ["qmail-local", "qmail-lspawn", "qmail-getpw", "qmail-remote", "qmail-rspawn", "qmail-clean",
            "qmail-send", "qmail-queue", "qmail-inject", "qmail-newu", "qmail-pw2u", "qmail-pop3d", "qmail-popup",
            "qmail-qmqpd", "qmail-qmtpd", "qmail-smtpd", "qmail-newmrh", "forward", "preline", "condredirect",
            "bouncesaying", "except", "maildirmake", "qmail-qread", "qmail-qstat", "qmail-tcpto", "qmail-tcpok", "qmail-showctl"]


def ensure_shim():
    if not os.path.exists(SHIM) or os.path.getmtime(SHIM) < os.path.getmtime(os.path.join(vlib.VERIF, "shim", "vshim.c")):
        p = vlib.sh(["make", "-C", vlib.VERIF])
        if p.returncode != 0:
            raise vlib.HarnessError("shim build failed: " + p.stdout.decode()[-1000:])


class Home:
    """A sandbox qmail home: queue tree, control/, users/, alias/, bin/ -> built binaries."""

    def __init__(self, tree, path, users=None, extra_passwd=()):
        self.tree = tree
        self.dir = path
        self.split = int(tree.conf("conf-split"))
        self.qmailpath = tree.conf("conf-qmail")
        confusers = [l.strip() for l in open(tree.path("conf-users")).read().split("\n")[:8]]
        confgroups = [l.strip() for l in open(tree.path("conf-groups")).read().split("\n")[:2]]
        self.usernames = dict(zip(["a", "d", "l", "o", "p", "q", "r", "s"], confusers))
        self.groupnames = dict(zip(["q", "n"], confgroups))
        self.uids = {}
        base = 7001
        for k, name in self.usernames.items():
            self.uids[k] = 0 if name == "root" else base
            base += 1
        self.gids = {"q": 7100, "n": 7101}
        os.makedirs(path, exist_ok=True)
        for d in ["control", "users", "alias", "bin", "queue"]:
            os.makedirs(os.path.join(path, d), exist_ok=True)
        q = os.path.join(path, "queue")
        for d in ["pid", "intd", "todo", "bounce", "lock"]:
            os.makedirs(os.path.join(q, d), exist_ok=True)
        for d in ["mess", "info", "local", "remote"]:
            for i in range(self.split):
                os.makedirs(os.path.join(q, d, str(i)), exist_ok=True)
        open(os.path.join(q, "lock", "sendmutex"), "ab").close()
        with open(os.path.join(q, "lock", "tcpto"), "wb") as f:
            f.write(b"\0" * 1024)
        trig = os.path.join(q, "lock", "trigger")
        if not os.path.exists(trig):
            os.mkfifo(trig, 0o622)
        self.passwd = os.path.join(path, "passwd")
        self.group = os.path.join(path, "group")
        lines = []
        for k, name in self.usernames.items():
            home = os.path.join(path, "alias") if k == "a" else path
            lines.append("%s:x:%d:%d::%s:/bin/sh" % (name, self.uids[k], self.gids["n" if k in "adlpr" else "q"], home))
        for l in extra_passwd:
            lines.append(l)
        open(self.passwd, "w").write("\n".join(lines) + "\n")
        open(self.group, "w").write("".join("%s:x:%d:\n" % (self.groupnames[k], self.gids[k]) for k in self.gids))
        self.trace = os.path.join(path, "trace")
        self.queue = q

    def link_bins(self, names=None, overrides=None):
        overrides = overrides or {}
        for b in names or BINARIES:
            dst = os.path.join(self.dir, "bin", b)
            if os.path.lexists(dst):
                os.unlink(dst)
            src = overrides.get(b) or self.tree.path(b)
            if os.path.exists(src):
                os.symlink(src, dst)

    def env(self, role="-", uid=None, trace=True, **extra):
        e = {"PATH": "/usr/bin:/bin", "LD_PRELOAD": SHIM, "VSHIM_HOME": self.dir, "VSHIM_QMAIL": self.qmailpath,
             "VSHIM_PASSWD": self.passwd, "VSHIM_GROUP": self.group, "VSHIM_ROLE": role}
        if os.environ.get("VERIF_SANITIZE"):
            # sanitised builds: reports go to files (C20 collects them), leaks are not errors (the programs exit to free)
            for k in ("ASAN_OPTIONS", "UBSAN_OPTIONS", "VSHIM_SANLOG"):
                if os.environ.get(k):
                    e[k] = os.environ[k]
        if trace:
            e["VSHIM_TRACE"] = self.trace
        if uid is not None:
            e["VSHIM_UID"] = str(uid)
            e["VSHIM_GID"] = str(extra.pop("gid", self.gids["q"]))
        for k, v in extra.items():
            if v is not None:
                e[k] = str(v)
        return e

    def control(self, name, content):
        p = os.path.join(self.dir, "control", name)
        if content is None:
            if os.path.exists(p):
                os.unlink(p)
            return
        if isinstance(content, str):
            content = content.encode("latin-1")
        open(p, "wb").write(content)

    def clear_trace(self):
        try:
            os.unlink(self.trace)
        except FileNotFoundError:
            pass

    def read_trace(self):
        return parse_trace(self.trace)

    def clean_queue(self):
        q = self.queue
        for d in ["pid", "intd", "todo", "bounce"]:
            dd = os.path.join(q, d)
            for f in os.listdir(dd):
                os.unlink(os.path.join(dd, f))
        for d in ["mess", "info", "local", "remote"]:
            for i in range(self.split):
                dd = os.path.join(q, d, str(i))
                for f in os.listdir(dd):
                    os.unlink(os.path.join(dd, f))

    def snapshot(self):
        """{n: set(of 'mess','intd','todo','info','local','remote','bounce')}, plus misplaced files and pid files."""
        q = self.queue
        st = {}
        bad = []
        for d in ["intd", "todo", "bounce"]:
            for f in os.listdir(os.path.join(q, d)):
                if f.isdigit():
                    st.setdefault(int(f), set()).add(d)
                else:
                    bad.append(d + "/" + f)
        for d in ["mess", "info", "local", "remote"]:
            for i in range(self.split):
                for f in os.listdir(os.path.join(q, d, str(i))):
                    if f.isdigit() and int(f) % self.split == i:
                        st.setdefault(int(f), set()).add(d)
                    else:
                        bad.append("%s/%d/%s" % (d, i, f))
        pids = os.listdir(os.path.join(q, "pid"))
        return st, bad, pids

    def qpath(self, d, n):
        if d in ("mess", "info", "local", "remote"):
            return os.path.join(self.queue, d, str(n % self.split), str(n))
        return os.path.join(self.queue, d, str(n))


def unesc(s):
    return urllib.parse.unquote_to_bytes(s).decode("latin-1")


MUTATING = {"open", "write", "fsync", "ftruncate", "link", "unlink", "rename", "mkdir", "utimes"}


def parse_trace(path):
    """-> list of dicts {pid,key,call,args}"""
    out = []
    try:
        data = open(path, "rb").read().decode("latin-1")
    except FileNotFoundError:
        return out
    for line in data.split("\n"):
        if not line:
            continue
        f = line.split("\t")
        if len(f) < 3:
            continue
        out.append({"pid": int(f[0]), "key": f[1], "call": f[2], "a": f[3:]})
    return out


def is_mut(ev):
    c = ev["call"]
    if c not in MUTATING:
        return False
    if c == "open":
        import os as _os
        try:
            fl = int(ev["a"][1])
        except Exception:
            return False
        return bool(fl & (_os.O_CREAT | _os.O_TRUNC | _os.O_APPEND)) or (fl & _os.O_ACCMODE) != _os.O_RDONLY
    return True


FAULT_CLASS = {"lstat": "stat"}


def fault_sites(events, key=None):
    """[(class, k, event)] for every faultable call in trace order (per process of `key`)."""
    cnt = {}
    out = []
    for ev in events:
        if key and not (ev["key"] == key or ev["key"].endswith("." + key) or ev["key"].startswith(key + ".")):
            continue
        c = FAULT_CLASS.get(ev["call"], ev["call"])
        if c in ("open", "read", "write", "pwrite", "fsync", "link", "unlink", "stat", "fstat", "utimes", "close",
                 "ftruncate", "rename", "flock", "mkdir", "opendir", "lseek", "chdir", "fork", "pipe", "malloc"):
            k = cnt.get((ev["pid"], c), 0)
            cnt[(ev["pid"], c)] = k + 1
            out.append((c, k, ev))
    return out


STANDIN = os.path.join(vlib.VERIF, "shim", "standin")


def _devnull():
    return open(os.devnull, "r+b")


def stuck_with_zombies(pid):
    """A process that sleeps while dead children of its own wait to be reaped will never get another SIGCHLD for them: if that state is
    found when the watchdog expires (i.e. it has lasted for the whole watchdog period), the process is stuck for good - a deterministic
    diagnosis of a hang, unlike the expiry itself. -> number of zombie children if the process sleeps, else 0."""
    try:
        st = open("/proc/%d/stat" % pid).read().rsplit(")", 1)[1].split()
        if st[0] != "S":
            return 0
        n = 0
        for d in os.listdir("/proc"):
            if not d.isdigit():
                continue
            try:
                f = open("/proc/%s/stat" % d).read().rsplit(")", 1)[1].split()
            except (OSError, IndexError):
                continue
            if f[0] == "Z" and int(f[1]) == pid:
                n += 1
        return n
    except (OSError, IndexError, ValueError):
        return 0


def stuck_without_children(pid):
    """True if the process sleeps and has no child process at all, alive or dead: with its whole input already available (a file) nothing
    but a signal from outside can ever wake it again."""
    try:
        st = open("/proc/%d/stat" % pid).read().rsplit(")", 1)[1].split()
        if st[0] != "S":
            return False
        for d in os.listdir("/proc"):
            if d.isdigit():
                try:
                    f = open("/proc/%s/stat" % d).read().rsplit(")", 1)[1].split()
                except (OSError, IndexError):
                    continue
                if int(f[1]) == pid:
                    return False
        return True
    except (OSError, IndexError, ValueError):
        return False


def run_proc(argv, env, stdin=b"", timeout=20, cwd="/", extra_fds=None, stdin_file=None, on_timeout=None):
    """Run a program to completion with `stdin` bytes. Children never inherit the check's stdout/stderr.
    Returns (status, stdout_bytes, stderr_bytes); status < 0 = killed by that signal; None = watchdog expired
    (always to be counted as inconclusive, never as a violation)."""
    import tempfile
    d = vlib.scratch_root()
    with tempfile.TemporaryFile(dir=d) as fo, tempfile.TemporaryFile(dir=d) as fe:
        if stdin_file is not None:
            fi = open(stdin_file, "rb")
        else:
            fi = tempfile.TemporaryFile(dir=d)
            fi.write(stdin)
            fi.seek(0)
        try:
            p = subprocess.Popen(argv, stdin=fi, stdout=fo, stderr=fe, env=env, cwd=cwd, start_new_session=True,
                                 pass_fds=tuple(extra_fds or ()))
            try:
                rc = p.wait(timeout=timeout)
            except subprocess.TimeoutExpired:
                rc = None
                if on_timeout is not None:
                    on_timeout(p.pid)
            try:
                os.killpg(p.pid, signal.SIGKILL)
            except ProcessLookupError:
                pass
            if rc is None:
                p.wait()
        finally:
            fi.close()
        fo.seek(0)
        fe.seek(0)
        return rc, fo.read(), fe.read()


class Session:
    """Interactive child: the driver writes to its stdin and reads replies from its stdout through pipes.
    stderr goes to a file. Always kill() in a finally."""

    def __init__(self, argv, env, cwd="/", pass_fds=()):
        import tempfile
        self.errf = tempfile.TemporaryFile(dir=vlib.scratch_root())
        self.p = subprocess.Popen(argv, stdin=subprocess.PIPE, stdout=subprocess.PIPE, stderr=self.errf, env=env, cwd=cwd,
                                  start_new_session=True, bufsize=0, pass_fds=pass_fds)
        self.buf = b""
        self.eof = False
        os.set_blocking(self.p.stdout.fileno(), False)

    def send(self, data):
        try:
            self.p.stdin.write(data)
            return True
        except (BrokenPipeError, OSError):
            return False

    def close_stdin(self):
        try:
            self.p.stdin.close()
        except Exception:
            pass

    def _fill(self, timeout):
        import select
        r, _, _ = select.select([self.p.stdout], [], [], timeout)
        if not r:
            return False
        try:
            d = os.read(self.p.stdout.fileno(), 65536)
        except BlockingIOError:
            return True
        if not d:
            self.eof = True
            return False
        self.buf += d
        return True

    def read_until(self, pred, timeout=20):
        """Read until pred(buffer) returns an end index (int) or EOF/timeout. Returns the consumed bytes or None on watchdog."""
        t_end = time.time() + timeout
        while True:
            k = pred(self.buf)
            if k:
                out, self.buf = self.buf[:k], self.buf[k:]
                return out
            if self.eof:
                out, self.buf = self.buf, b""
                return out
            left = t_end - time.time()
            if left <= 0:
                return None
            self._fill(left)

    def read_line(self, timeout=20):
        return self.read_until(lambda b: (b.find(b"\n") + 1) or None, timeout)

    def read_all(self, timeout=20):
        t_end = time.time() + timeout
        while not self.eof:
            left = t_end - time.time()
            if left <= 0:
                return None
            self._fill(left)
        out, self.buf = self.buf, b""
        return out

    def wait(self, timeout=20):
        try:
            return self.p.wait(timeout=timeout)
        except subprocess.TimeoutExpired:
            return None

    def kill(self):
        try:
            os.killpg(self.p.pid, signal.SIGKILL)
        except ProcessLookupError:
            pass
        try:
            self.p.wait(timeout=5)
        except Exception:
            pass
        for f in (self.p.stdin, self.p.stdout, self.errf):
            try:
                f.close()
            except Exception:
                pass


def standin_env(recdir, read="", qq=False, exit=0, kill=None, fd6=None, out=None, exec_=False, exit_seq=None, linger_ms=None):
    """Environment entries that script shim/standin (see shim/standin.c)."""
    os.makedirs(recdir, exist_ok=True)
    e = {"SI_DIR": recdir}
    if read:
        e["SI_READ"] = read
    if qq:
        e["SI_QQ"] = "1"
    if exit:
        e["SI_EXIT"] = str(exit)
    if exit_seq:
        e["SI_EXIT_SEQ"] = ",".join(str(x) for x in exit_seq)
    if kill:
        e["SI_KILL"] = str(kill)
    if fd6 is not None:
        e["SI_FD6_HEX"] = fd6.hex()
    if out is not None:
        e["SI_OUT_HEX"] = out.hex()
    if exec_:
        e["SI_EXEC"] = "1"
    if linger_ms:
        e["SI_LINGER_MS"] = str(linger_ms)
    return e


def standin_records(recdir):
    """-> list of dicts (ordered by meta file mtime then pid) {pid, argv:[bytes], fd0, fd1, fd3, commit:bool, meta:{}}"""
    recs = {}
    if not os.path.isdir(recdir):
        return []
    for f in os.listdir(recdir):
        if f.startswith(".") or "." not in f:
            continue
        pid, ext = f.split(".", 1)
        if not pid.isdigit():
            continue
        r = recs.setdefault(int(pid), {"pid": int(pid), "commit": False})
        p = os.path.join(recdir, f)
        if ext == "commit":
            r["commit"] = True
        elif ext == "argv":
            r["argv"] = open(p, "rb").read().split(b"\0")[:-1]
            r["t"] = os.stat(p).st_mtime_ns
        elif ext == "meta":
            r["meta"] = dict(l.split("=", 1) for l in open(p).read().split("\n") if "=" in l)
        else:
            r[ext] = open(p, "rb").read()
    return sorted(recs.values(), key=lambda r: (r.get("t", 0), r["pid"]))


def parse_envelope(b):
    """qmail-queue envelope bytes -> (sender, [recipients]) or None if malformed"""
    if not b or b[:1] != b"F":
        return None
    parts = b.split(b"\0")
    # well formed: F<s> \0 T<r> \0 ... \0 (empty) -> parts = [F.., T.., ..., b"", (rest)]
    sender = parts[0][1:]
    rc = []
    for x in parts[1:]:
        if x == b"":
            return sender, rc
        if x[:1] != b"T":
            return None
        rc.append(x[1:])
    return None
