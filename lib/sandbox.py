"""Virtual /var/qmail homes and process running under vshim."""
import os, sys, stat, subprocess, shutil, signal, time, urllib.parse
from . import vlib

SHIM = os.path.join(vlib.VERIF, "shim", "vshim.so")

UIDS = {"alias": 7001, "qmaild": 7002, "qmaill": 7003, "root": 0, "qmailp": 7004,
        "qmailq": 7005, "qmailr": 7006, "qmails": 7007}
GIDS = {"qmail": 7100, "nofiles": 7101}

BINARIES = ["qmail-local", "qmail-lspawn", "qmail-getpw", "qmail-remote", "qmail-rspawn", "qmail-clean",
            "qmail-send", "qmail-queue", "qmail-inject", "qmail-newu", "qmail-pw2u", "qmail-pop3d", "qmail-popup",
            "qmail-qmqpd", "qmail-qmtpd", "qmail-smtpd", "qmail-newmrh", "forward", "preline", "condredirect",
            "bouncesaying", "except", "maildirmake", "qmail-qread", "qmail-qstat", "qmail-tcpto", "qmail-tcpok", "qmail-showctl"]


def ensure_shim():
    if not os.path.exists(SHIM) or os.path.getmtime(SHIM) < os.path.getmtime(os.path.join(vlib.VERIF, "shim", "vshim.c")):
        p = vlib.sh(["make", "-C", vlib.VERIF])
        if p.returncode != 0:
            raise vlib.HarnessError("shim build failed: " + p.stdout.decode()[-1000:])


class Home:
    """A sandbox qmail home: queue tree, control/, users/, alias/, bin/ -> built binaries."""

    def __init__(self, tree, path, users=None, extra_passwd=()):
        self.tree = tree
        self.dir = path
        self.split = int(tree.conf("conf-split"))
        self.qmailpath = tree.conf("conf-qmail")
        confusers = [l.strip() for l in open(tree.path("conf-users")).read().split("\n")[:8]]
        confgroups = [l.strip() for l in open(tree.path("conf-groups")).read().split("\n")[:2]]
        self.usernames = dict(zip(["a", "d", "l", "o", "p", "q", "r", "s"], confusers))
        self.groupnames = dict(zip(["q", "n"], confgroups))
        self.uids = {}
        base = 7001
        for k, name in self.usernames.items():
            self.uids[k] = 0 if name == "root" else base
            base += 1
        self.gids = {"q": 7100, "n": 7101}
        os.makedirs(path, exist_ok=True)
        for d in ["control", "users", "alias", "bin", "queue"]:
            os.makedirs(os.path.join(path, d), exist_ok=True)
        q = os.path.join(path, "queue")
        for d in ["pid", "intd", "todo", "bounce", "lock"]:
            os.makedirs(os.path.join(q, d), exist_ok=True)
        for d in ["mess", "info", "local", "remote"]:
            for i in range(self.split):
                os.makedirs(os.path.join(q, d, str(i)), exist_ok=True)
        open(os.path.join(q, "lock", "sendmutex"), "ab").close()
        with open(os.path.join(q, "lock", "tcpto"), "wb") as f:
            f.write(b"\0" * 1024)
        trig = os.path.join(q, "lock", "trigger")
        if not os.path.exists(trig):
            os.mkfifo(trig, 0o622)
        self.passwd = os.path.join(path, "passwd")
        self.group = os.path.join(path, "group")
        lines = []
        for k, name in self.usernames.items():
            home = os.path.join(path, "alias") if k == "a" else path
            lines.append("%s:x:%d:%d::%s:/bin/sh" % (name, self.uids[k], self.gids["n" if k in "adlpr" else "q"], home))
        for l in extra_passwd:
            lines.append(l)
        open(self.passwd, "w").write("\n".join(lines) + "\n")
        open(self.group, "w").write("".join("%s:x:%d:\n" % (self.groupnames[k], self.gids[k]) for k in self.gids))
        self.trace = os.path.join(path, "trace")
        self.queue = q

    def link_bins(self, names=None, overrides=None):
        overrides = overrides or {}
        for b in names or BINARIES:
            dst = os.path.join(self.dir, "bin", b)
            if os.path.lexists(dst):
                os.unlink(dst)
            src = overrides.get(b) or self.tree.path(b)
            if os.path.exists(src):
                os.symlink(src, dst)

    def env(self, role="-", uid=None, trace=True, **extra):
        e = {"PATH": "/usr/bin:/bin", "LD_PRELOAD": SHIM, "VSHIM_HOME": self.dir, "VSHIM_QMAIL": self.qmailpath,
             "VSHIM_PASSWD": self.passwd, "VSHIM_GROUP": self.group, "VSHIM_ROLE": role}
        if trace:
            e["VSHIM_TRACE"] = self.trace
        if uid is not None:
            e["VSHIM_UID"] = str(uid)
            e["VSHIM_GID"] = str(extra.pop("gid", self.gids["q"]))
        for k, v in extra.items():
            if v is not None:
                e[k] = str(v)
        return e

    def control(self, name, content):
        p = os.path.join(self.dir, "control", name)
        if content is None:
            if os.path.exists(p):
                os.unlink(p)
            return
        if isinstance(content, str):
            content = content.encode("latin-1")
        open(p, "wb").write(content)

    def clear_trace(self):
        try:
            os.unlink(self.trace)
        except FileNotFoundError:
            pass

    def read_trace(self):
        return parse_trace(self.trace)

    def clean_queue(self):
        q = self.queue
        for d in ["pid", "intd", "todo", "bounce"]:
            dd = os.path.join(q, d)
            for f in os.listdir(dd):
                os.unlink(os.path.join(dd, f))
        for d in ["mess", "info", "local", "remote"]:
            for i in range(self.split):
                dd = os.path.join(q, d, str(i))
                for f in os.listdir(dd):
                    os.unlink(os.path.join(dd, f))

    def snapshot(self):
        """{n: set(of 'mess','intd','todo','info','local','remote','bounce')}, plus misplaced files and pid files."""
        q = self.queue
        st = {}
        bad = []
        for d in ["intd", "todo", "bounce"]:
            for f in os.listdir(os.path.join(q, d)):
                if f.isdigit():
                    st.setdefault(int(f), set()).add(d)
                else:
                    bad.append(d + "/" + f)
        for d in ["mess", "info", "local", "remote"]:
            for i in range(self.split):
                for f in os.listdir(os.path.join(q, d, str(i))):
                    if f.isdigit() and int(f) % self.split == i:
                        st.setdefault(int(f), set()).add(d)
                    else:
                        bad.append("%s/%d/%s" % (d, i, f))
        pids = os.listdir(os.path.join(q, "pid"))
        return st, bad, pids

    def qpath(self, d, n):
        if d in ("mess", "info", "local", "remote"):
            return os.path.join(self.queue, d, str(n % self.split), str(n))
        return os.path.join(self.queue, d, str(n))


def unesc(s):
    return urllib.parse.unquote_to_bytes(s).decode("latin-1")


MUTATING = {"open", "write", "fsync", "ftruncate", "link", "unlink", "rename", "mkdir", "utimes"}


def parse_trace(path):
    """-> list of dicts {pid,key,call,args}"""
    out = []
    try:
        data = open(path, "rb").read().decode("latin-1")
    except FileNotFoundError:
        return out
    for line in data.split("\n"):
        if not line:
            continue
        f = line.split("\t")
        if len(f) < 3:
            continue
        out.append({"pid": int(f[0]), "key": f[1], "call": f[2], "a": f[3:]})
    return out


def is_mut(ev):
    c = ev["call"]
    if c not in MUTATING:
        return False
    if c == "open":
        import os as _os
        try:
            fl = int(ev["a"][1])
        except Exception:
            return False
        return bool(fl & (_os.O_CREAT | _os.O_TRUNC | _os.O_APPEND)) or (fl & _os.O_ACCMODE) != _os.O_RDONLY
    return True


FAULT_CLASS = {"lstat": "stat"}


def fault_sites(events, key=None):
    """[(class, k, event)] for every faultable call in trace order (per process of `key`)."""
    cnt = {}
    out = []
    for ev in events:
        if key and not (ev["key"] == key or ev["key"].endswith("." + key) or ev["key"].startswith(key + ".")):
            continue
        c = FAULT_CLASS.get(ev["call"], ev["call"])
        if c in ("open", "read", "write", "pwrite", "fsync", "link", "unlink", "stat", "fstat", "utimes", "close",
                 "ftruncate", "rename", "flock", "mkdir", "opendir", "lseek", "chdir", "fork", "pipe"):
            k = cnt.get((ev["pid"], c), 0)
            cnt[(ev["pid"], c)] = k + 1
            out.append((c, k, ev))
    return out


def run_proc(argv, env, stdin=None, stdout=None, stderr=None, cwd=None, timeout=20, fds=None):
    """Run a program; stdin/stdout/stderr: bytes (-> temp file), file object, or None(/dev/null).
    Returns (status, outbytes, errbytes); status <0 = killed by signal; None = watchdog (inconclusive)."""
    raise NotImplementedError
