"""Reference quoting per RFC 822 (written from the RFC, not from quote.c): a local part is left alone iff it is a
dot-atom; otherwise it becomes a quoted-string with backslash before backslash, double quote, CR and LF."""
SPECIALS = b"()<>@,;:\\\".[]"


def is_dot_atom(s):
    if not s:
        return False
    for ch in s:
        if ch <= 32 or ch >= 127 or (bytes([ch]) in SPECIALS and ch != ord(".")):
            return False
    if s.startswith(b".") or s.endswith(b".") or b".." in s:
        return False
    return True


def quote_ref(s):
    if is_dot_atom(s):
        return s
    out = bytearray(b'"')
    for ch in s:
        if ch in (13, 10, 34, 92):
            out.append(92)
        out.append(ch)
    out.append(34)
    return bytes(out)


def quote2_ref(addr):
    if not addr:
        return addr
    at = addr.rfind(b"@")
    if at < 0:
        return quote_ref(addr)
    return quote_ref(addr[:at]) + addr[at:]
