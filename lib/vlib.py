"""Core helpers shared by every check: scratch build of /repo's working tree,
evidence accumulation, known-findings, replay files, parallel workers."""
import os, sys, json, time, shutil, subprocess, hashlib, atexit, random, tempfile, signal, traceback

VERIF = os.path.dirname(os.path.dirname(os.path.abspath(__file__)))
REPO = os.environ.get("VERIF_REPO", "/repo")
OUT = os.environ.get("VERIF_OUT", VERIF)   # where evidence/ and replays/ are written (mutation runs redirect it)
NCPU = int(os.environ.get("VERIF_JOBS", str(os.cpu_count() or 4)))

_scratch_root = None


def scratch_root():
    """One scratch directory per check process (tmpfs if available), removed at exit."""
    global _scratch_root
    if _scratch_root is None:
        base = "/dev/shm" if os.path.isdir("/dev/shm") and os.access("/dev/shm", os.W_OK) else tempfile.gettempdir()
        _scratch_root = tempfile.mkdtemp(prefix="vq-%d-" % os.getpid(), dir=base)
        owner = os.getpid()

        def _cleanup():
            if os.getpid() == owner:
                shutil.rmtree(_scratch_root, ignore_errors=True)
        atexit.register(_cleanup)
    return _scratch_root


def sh(cmd, **kw):
    return subprocess.run(cmd, shell=isinstance(cmd, str), stdout=subprocess.PIPE, stderr=subprocess.STDOUT, **kw)


class HarnessError(Exception):
    pass


def _source_files():
    """Tracked + untracked-not-ignored files of /repo's working tree (no build output)."""
    try:
        a = subprocess.run(["git", "-C", REPO, "ls-files", "-z"], stdout=subprocess.PIPE, check=True).stdout
        b = subprocess.run(["git", "-C", REPO, "ls-files", "-z", "-o", "--exclude-standard"], stdout=subprocess.PIPE, check=True).stdout
        files = [f for f in (a + b).decode().split("\0") if f]
    except Exception:
        files = []
        for d, _, fs in os.walk(REPO):
            if ".git" in d.split(os.sep):
                continue
            for f in fs:
                files.append(os.path.relpath(os.path.join(d, f), REPO))
    out = []
    for f in files:
        p = os.path.join(REPO, f)
        if not os.path.isfile(p) or f.endswith((".o", ".a")):
            continue
        if f.startswith("tests/") and not f.endswith((".c", ".h", "Makefile")):
            continue
        if f.startswith("tests/") and f.endswith("-without-main.c"):
            continue
        out.append(f)
    return sorted(set(out))


SAN_CC = "clang -O1 -g -fsanitize=address,undefined -fno-sanitize-recover=undefined -fno-omit-frame-pointer"


class Tree:
    """A scratch copy of the working tree with (some) targets built."""

    def __init__(self, sanitize=False, tag=""):
        # VERIF_SANITIZE=1: every check runs against ASan+UBSan builds of the programs (used by C20's thorough tier to re-run the
        # session generators of other properties against sanitised whole programs)
        sanitize = sanitize or bool(os.environ.get("VERIF_SANITIZE"))
        self.dir = os.path.join(scratch_root(), "src" + ("-san" if sanitize else "") + tag)
        self.sanitize = sanitize
        self.built = set()
        os.makedirs(self.dir, exist_ok=True)
        files = _source_files()
        p = subprocess.run(["rsync", "-a", "--files-from=-", REPO + "/", self.dir + "/"],
                           input="\n".join(files).encode(), stdout=subprocess.PIPE, stderr=subprocess.STDOUT)
        if p.returncode != 0:
            raise HarnessError("rsync failed: " + p.stdout.decode(errors="replace")[-400:])
        if sanitize:
            self._setconf("conf-cc", SAN_CC)
            self._setconf("conf-ld", SAN_CC)
        else:
            # keep symbols (conf-ld ships "cc -s"); same compiler, same flags otherwise
            self._setconf("conf-ld", self.conf("conf-ld").replace(" -s", " "))

    def _setconf(self, name, first):
        p = os.path.join(self.dir, name)
        lines = open(p).read().split("\n")
        lines[0] = first
        open(p, "w").write("\n".join(lines))

    def conf(self, name):
        return open(os.path.join(self.dir, name)).readline().rstrip("\n")

    def make(self, *targets):
        need = [t for t in targets if t not in self.built]
        if not need:
            return self
        p = sh(["make", "-j%d" % NCPU] + need, cwd=self.dir)
        if p.returncode != 0:
            raise HarnessError("build of %s failed:\n%s" % (need, p.stdout.decode(errors="replace")[-2000:]))
        self.built.update(need)
        return self

    def path(self, name):
        return os.path.join(self.dir, name)

    def cc(self, out, sources, extra="", cxx=False, fuzzer=False, san=True, libs=""):
        """Compile an in-process harness against this tree's headers."""
        comp = "clang++ -std=gnu++17" if cxx else "clang"
        flags = "-g -O1 -fno-omit-frame-pointer -I%s -I%s/inproc -Wno-everything" % (self.dir, VERIF)
        if san:
            flags += " -fsanitize=%saddress,undefined -fno-sanitize-recover=undefined" % ("fuzzer," if fuzzer else "")
        elif fuzzer:
            flags += " -fsanitize=fuzzer"
        cmd = "%s %s %s -o %s %s %s" % (comp, flags, extra, out, " ".join(sources), libs)
        p = sh(cmd, cwd=self.dir)
        if p.returncode != 0:
            raise HarnessError("harness compile failed: %s\n%s" % (cmd, p.stdout.decode(errors="replace")[-3000:]))
        return out


# ---------------------------------------------------------------- findings

def load_findings():
    known, fixed = [], []
    p = os.path.join(VERIF, "known-findings.txt")
    if os.path.exists(p):
        for line in open(p):
            line = line.strip()
            if not line or line.startswith("#"):
                continue
            kind, _, rest = line.partition(":")
            d = {"raw": rest.strip()}
            for tok in rest.split():
                if "=" in tok:
                    k, v = tok.split("=", 1)
                    d.setdefault(k, v)
            (known if kind == "known" else fixed).append(d)
    return known, fixed


# ---------------------------------------------------------------- evidence

def jsonable(x):
    if isinstance(x, bytes):
        try:
            s = x.decode("ascii")
            if s.isprintable() or all(c.isprintable() or c in "\r\n\t" for c in s):
                return {"b": s}
        except Exception:
            pass
        return {"hex": x.hex()}
    if isinstance(x, dict):
        return {str(k): jsonable(v) for k, v in x.items()}
    if isinstance(x, (list, tuple, set, frozenset)):
        return [jsonable(v) for v in x]
    if isinstance(x, (int, float, str, bool)) or x is None:
        return x
    return repr(x)


def unjson(x):
    if isinstance(x, dict):
        if set(x.keys()) == {"b"}:
            return x["b"].encode("latin-1")
        if set(x.keys()) == {"hex"}:
            return bytes.fromhex(x["hex"])
        return {k: unjson(v) for k, v in x.items()}
    if isinstance(x, list):
        return [unjson(v) for v in x]
    return x


def digest(x):
    return hashlib.sha1(json.dumps(jsonable(x), sort_keys=True).encode()).hexdigest()


class Stats:
    """Mergeable counters for one check run."""

    def __init__(self):
        self.evaluations = 0
        self.nontrivial = set()     # 8-byte digests
        self.nontrivial_extra = 0   # counted elsewhere exactly (C enumerators)
        self.classes = {}
        self.samples = []
        self.slack = 0
        self.inconclusive = 0
        self.known_hits = {}
        self.violations = []        # (msg, scenario)
        self.extra = {}

    def case(self, scenario=None, nontrivial=False, classes=(), key=None):
        self.evaluations += 1
        for c in classes:
            self.classes[c] = self.classes.get(c, 0) + 1
        if nontrivial:
            k = key if key is not None else scenario
            self.nontrivial.add(hashlib.sha1(json.dumps(jsonable(k), sort_keys=True).encode()).digest()[:8])
            if len(self.samples) < 6 and scenario is not None:
                self.samples.append(jsonable(scenario))

    def cls(self, c, n=1):
        self.classes[c] = self.classes.get(c, 0) + n

    def merge(self, o):
        self.evaluations += o.evaluations
        self.nontrivial |= o.nontrivial
        self.nontrivial_extra += o.nontrivial_extra
        for k, v in o.classes.items():
            self.classes[k] = self.classes.get(k, 0) + v
        for s in o.samples:
            if len(self.samples) < 10:
                self.samples.append(s)
        self.slack += o.slack
        self.inconclusive += o.inconclusive
        for k, v in o.known_hits.items():
            self.known_hits[k] = self.known_hits.get(k, 0) + v
        self.violations += o.violations
        for k, v in o.extra.items():
            if isinstance(v, (int, float)) and isinstance(self.extra.get(k, 0), (int, float)):
                self.extra[k] = self.extra.get(k, 0) + v
            elif isinstance(v, list) and isinstance(self.extra.get(k, []), list):
                self.extra[k] = (self.extra.get(k, []) + v)[:12]
            else:
                self.extra[k] = v


def trim_sample(s, limit=1500):
    t = json.dumps(s)
    if len(t) <= limit:
        return s
    return {"truncated": t[:limit] + "..."}


class Ctx:
    def __init__(self, pid, tier, seed, level):
        self.id = pid
        self.tier = tier
        self.seed = seed
        self.level = level
        self.t0 = time.time()
        self.stats = Stats()
        self.rule = ""
        self.assumptions = []
        self.exhaustive = False
        self.known, self.fixed = load_findings()
        self.known = [k for k in self.known if k.get("property") == pid]
        self.printed_known = set()
        self.notes = {}

    quick = property(lambda s: s.tier == "quick")

    def n(self, q, t):
        return q if self.tier == "quick" else t

    def known_finding(self, sig, what=None):
        """Report a listed finding. Returns True if `sig` is listed (suppressed)."""
        for k in self.known:
            if k.get("sig") == sig:
                self.stats.known_hits[sig] = self.stats.known_hits.get(sig, 0) + 1
                if sig not in self.printed_known:
                    self.printed_known.add(sig)
                    print("KNOWN-FINDING: %s" % k["raw"], flush=True)
                return True
        return False

    def write_evidence(self, nviol):
        st = self.stats
        cov = {
            "evaluations": st.evaluations,
            "distinct_nontrivial": len(st.nontrivial) + st.nontrivial_extra,
            "rule": self.rule,
            "samples": [trim_sample(s) for s in st.samples[:10]],
            "classes": st.classes,
            "slack_cases": st.slack,
            "inconclusive": st.inconclusive,
            "known_finding_hits": st.known_hits,
            "exhaustive": bool(self.exhaustive),
        }
        if not cov["samples"] and st.violations:
            # the run ended at a violation before any case was sampled: the violating cases are the samples
            cov["samples"] = [trim_sample({"violating_case": jsonable(sc) if not isinstance(sc, str) else sc, "message": msg[:300]}) for msg, sc in st.violations[:3]]
        cov.update(st.extra)
        cov.update(self.notes)
        ev = {
            "property_id": self.id, "tier": self.tier, "seed": self.seed, "level": self.level,
            "coverage": cov, "assumptions": self.assumptions,
            "wall_s": round(time.time() - self.t0, 2), "violations": nviol,
        }
        os.makedirs(os.path.join(OUT, "evidence"), exist_ok=True)
        p = os.path.join(OUT, "evidence", self.id + ".json")
        with open(p + ".tmp", "w") as f:
            json.dump(ev, f, indent=1)
        os.replace(p + ".tmp", p)

    def save_replay(self, scenario, kind="json"):
        d = os.path.join(OUT, "replays", self.id)
        os.makedirs(d, exist_ok=True)
        if isinstance(scenario, bytes):
            p = os.path.join(d, hashlib.sha1(scenario).hexdigest()[:16] + ".bin")
            open(p, "wb").write(scenario)
        else:
            js = json.dumps(jsonable(scenario), sort_keys=True, indent=1)
            p = os.path.join(d, hashlib.sha1(js.encode()).hexdigest()[:16] + ".json")
            open(p, "w").write(js)
        return p


# ---------------------------------------------------------------- parallel workers

def run_workers(fn, jobs, nproc=None):
    """Run fn(job) -> Stats in forked worker processes; returns merged Stats.
    A worker that dies is a harness error (never a violation)."""
    import multiprocessing as mp
    nproc = min(nproc or NCPU, max(1, len(jobs)))
    ctx = mp.get_context("fork")
    merged = Stats()
    if nproc == 1:
        for j in jobs:
            merged.merge(fn(j))
        return merged
    with ctx.Pool(nproc, maxtasksperchild=None) as pool:
        for st in pool.imap_unordered(_wrap, [(fn, j) for j in jobs]):
            if isinstance(st, str):
                raise HarnessError("worker failed:\n" + st)
            merged.merge(st)
    return merged


def _wrap(a):
    fn, j = a
    try:
        return fn(j)
    except Exception:
        return traceback.format_exc()


def subseed(seed, *parts):
    h = hashlib.sha1(("%d:" % seed + ":".join(str(p) for p in parts)).encode()).digest()
    return int.from_bytes(h[:4], "big")


# ---------------------------------------------------------------- hypothesis driver

SHRINK_BUDGET_S = 90


class _StopSearch(Exception):
    pass


def stop_flag():
    return os.path.join(scratch_root(), "STOP-violation-found")


def diag(kind, obj):
    """diagnostics for the maintainer of the checks (never evidence, never a verdict): OUT/diagnostics/<kind>-<pid>.jsonl"""
    try:
        d = os.path.join(OUT, "diagnostics")
        os.makedirs(d, exist_ok=True)
        with open(os.path.join(d, "%s-%d.jsonl" % (kind, os.getpid())), "a") as f:
            f.write(json.dumps(obj) + "\n")
    except OSError:
        pass


def hyp_search(strategy, runfn, n_examples, seed, stats, stop_on_fail=True):
    """Run `runfn(scenario, stats) -> None | str(violation)` on Hypothesis-generated scenarios.
    On failure Hypothesis shrinks (for at most SHRINK_BUDGET_S seconds); the minimal failing scenario is appended to stats.violations.
    A violation found by one worker raises a flag that ends the other workers' searches (they have nothing to add to the verdict)."""
    import hypothesis
    from hypothesis import given, settings, HealthCheck, Phase
    last_fail = {}
    flag = stop_flag()

    @hypothesis.seed(seed)
    @settings(max_examples=n_examples, database=None, deadline=None, derandomize=False,
              report_multiple_bugs=False, suppress_health_check=list(HealthCheck),
              phases=[Phase.generate, Phase.shrink], print_blob=False)
    @given(strategy)
    def prop(sc):
        if "sc" not in last_fail:
            if os.path.exists(flag):
                raise _StopSearch()
        elif time.time() - last_fail["t0"] > SHRINK_BUDGET_S:
            # shrinking budget used up: only the best failing scenario found so far keeps failing, so the shrinker stops
            if digest(sc) == last_fail["digest"]:
                raise AssertionError(last_fail["msg"])
            return
        try:
            msg = runfn(sc, stats)
        except (HarnessError, KeyboardInterrupt, _StopSearch):
            raise
        except Exception:
            # an exception of the harness itself is never a verdict about the program: diagnosed, counted as inconclusive (the driver
            # exits 2 when a large share of the cases ends like this)
            stats.inconclusive += 1
            stats.cls("harness_exception")
            diag("exception", {"trace": traceback.format_exc()[-3000:], "scenario": jsonable(sc)})
            return
        if msg and "sc" not in last_fail:
            # a first failure counts only if it reproduces twice more on the spot (a failure that does not is a harness/timing artefact:
            # recorded for diagnosis as inconclusive, never reported and never allowed to stop the other workers)
            for _ in range(2):
                m2 = runfn(sc, Stats())
                if not m2:
                    stats.inconclusive += 1
                    stats.cls("unreproducible_failure")
                    diag("unreproducible", {"msg": msg[:2000], "scenario": jsonable(sc)})
                    msg = None
                    break
        if msg:
            last_fail.setdefault("t0", time.time())
            last_fail["sc"] = sc
            last_fail["msg"] = msg
            last_fail["digest"] = digest(sc)
            try:
                open(flag, "w").close()
            except OSError:
                pass
            raise AssertionError(msg)

    try:
        prop()
    except _StopSearch:
        stats.cls("stopped_after_violation_elsewhere")
    except AssertionError:
        if "sc" in last_fail:
            stats.violations.append((last_fail["msg"], jsonable(last_fail["sc"])))
        else:
            raise
    except hypothesis.errors.Flaky as e:
        # non-deterministic harness behaviour: never a violation
        stats.inconclusive += 1
        stats.cls("flaky_unreproducible")
        diag("flaky", {"msg": last_fail.get("msg"), "scenario": jsonable(last_fail.get("sc"))})
    return stats
