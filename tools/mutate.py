#!/usr/bin/env python3
"""tools/mutate.py <props> <file> <old> <new> [--count N] [--patch file.diff] [-- extra check args]
Sensitivity test: copy /repo's working tree to a private scratch directory, apply a textual mutant
(<old> -> <new> in <file>, exactly --count occurrences) or a patch, run ./check for each property in the
comma list <props> with VERIF_REPO pointing at the copy and VERIF_OUT at a scratch dir (so /repo, the
committed evidence and replays are never touched), then delete the copy. Safe to run concurrently.
Prints DETECTED / MISSED / ERROR per property."""
import sys, subprocess, os, time, tempfile, shutil
ROOT = os.path.dirname(os.path.dirname(os.path.abspath(__file__)))
CHECK = os.path.join(ROOT, "check")
args = sys.argv[1:]
extra = []
if "--" in args:
    i = args.index("--"); extra = args[i+1:]; args = args[:i]
count = 1
patch = None
if "--count" in args:
    i = args.index("--count"); count = int(args[i+1]); del args[i:i+2]
confirm = False
if "--confirm-replay" in args:
    confirm = True; args.remove("--confirm-replay")
if "--patch" in args:
    i = args.index("--patch"); patch = os.path.abspath(args[i+1]); del args[i:i+2]
props = args[0].split(",")
base = "/dev/shm" if os.path.isdir("/dev/shm") else None
tmp = tempfile.mkdtemp(prefix="mut-", dir=base)
rc_all = 0
try:
    repo = os.path.join(tmp, "repo")
    os.makedirs(repo)
    files = subprocess.run(["git", "-C", "/repo", "ls-files", "-z"], stdout=subprocess.PIPE, check=True).stdout
    subprocess.run(["rsync", "-a", "--from0", "--files-from=-", "/repo/", repo + "/"], input=files, check=True)
    if patch:
        r = subprocess.run(["patch", "-p1", "-s", "-d", repo, "-i", patch])
        if r.returncode != 0:
            print("ERROR: patch does not apply"); sys.exit(3)
    else:
        f, old, new = args[1:4]
        p = os.path.join(repo, f)
        s = open(p).read()
        if s.count(old) != count:
            print("ERROR: %d occurrences of old text (wanted %d)" % (s.count(old), count)); sys.exit(3)
        open(p, "w").write(s.replace(old, new))
    env = dict(os.environ, VERIF_REPO=repo, VERIF_OUT=os.path.join(tmp, "out"))
    for pr in props:
        t0 = time.time()
        r = subprocess.run([CHECK, pr] + extra, stdout=subprocess.PIPE, stderr=subprocess.STDOUT, text=True, env=env)
        out = r.stdout
        v = [l for l in out.split("\n") if l.startswith(("VIOLATION", "violation detail", "HARNESS", "KNOWN"))]
        print("%s %s rc=%d %.0fs" % ({0: "MISSED", 1: "DETECTED"}.get(r.returncode, "ERROR"), pr, r.returncode, time.time() - t0))
        for l in v[:4]: print("   ", l[:400])
        if confirm and r.returncode == 1:
            # the replay interface: every reported replay file must reproduce the violation on the same (patched) tree
            for l in [l for l in out.split("\n") if l.startswith("VIOLATION")][:2]:
                path = l.split("replay=", 1)[1].strip()
                rr = subprocess.run([CHECK, pr, "--replay", path], stdout=subprocess.PIPE, stderr=subprocess.STDOUT, text=True, env=env)
                print("    REPLAY-%s %s rc=%d %s" % ("OK" if rr.returncode == 1 else "MISMATCH", os.path.basename(path), rr.returncode,
                                                   rr.stdout.strip().split("\n")[-1][:200] if rr.returncode != 1 else ""))
        if r.returncode == 2: print(out[-600:])
        if r.returncode == 0: print("   ", out.strip().split("\n")[-1][:300])
finally:
    shutil.rmtree(tmp, ignore_errors=True)
