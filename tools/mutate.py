#!/usr/bin/env python3
"""tools/mutate.py <prop> <file> <old> <new> [--count N] [-- extra check args]
Apply a textual mutant to /repo/<file> (exactly one occurrence unless --count), run ./check <prop>,
restore the file with git checkout. Prints DETECTED / MISSED / ERROR."""
import sys, subprocess, os, time
args = sys.argv[1:]
extra = []
if "--" in args:
    i = args.index("--"); extra = args[i+1:]; args = args[:i]
count = 1
if "--count" in args:
    i = args.index("--count"); count = int(args[i+1]); del args[i:i+2]
prop, f, old, new = args[:4]
p = os.path.join("/repo", f)
s = open(p).read()
if s.count(old) != count:
    print("ERROR: %d occurrences of old text (wanted %d)" % (s.count(old), count)); sys.exit(3)
try:
    open(p, "w").write(s.replace(old, new))
    t0 = time.time()
    props = prop.split(",")
    res = []
    for pr in props:
        r = subprocess.run(["/verif/check", pr] + extra, stdout=subprocess.PIPE, stderr=subprocess.STDOUT, text=True)
        out = r.stdout
        v = [l for l in out.split("\n") if l.startswith(("VIOLATION", "violation detail", "HARNESS", "KNOWN"))]
        res.append((pr, r.returncode, v[:4], out[-300:] if r.returncode == 2 else ""))
    for pr, rc, v, tail in res:
        print("%s %s rc=%d %.0fs" % ({0: "MISSED", 1: "DETECTED"}.get(rc, "ERROR"), pr, rc, time.time() - t0))
        for l in v: print("   ", l[:400])
        if tail: print(tail)
finally:
    subprocess.run(["git", "-C", "/repo", "checkout", "--", f])
