#!/usr/bin/env python3
"""Regenerates MANIFEST.json from the table below (kept in one place so it is always valid)."""
import json, os
HERE = os.path.dirname(os.path.dirname(os.path.abspath(__file__)))
CHECKS = {
 "C01": dict(cat="fault_enumeration", design="5/C01", engine="vshim+qmail-queue",
   technique="property-based testing (Hypothesis) with exhaustive crash-point and single-fault enumeration over the recorded syscall trace of the real qmail-queue",
   text="Real qmail-queue binary executed under an LD_PRELOAD interposer in a sandbox queue. Every generated (message, envelope, uid) is run once, then re-run for every crash point (before each mutating syscall) and every (call site x errno/short) fault of its own trace; post-crash images kept/lost/partial are rebuilt from fsync-time shadow copies. Oracle: exit 0 => visible and complete in every image; otherwise invisible or complete; documented exit codes; leftovers only in S1-S4; death timer armed first and below OSSIFIED.",
   note="Assumes crash granularity = system call, per-file loss of un-fsynced data, durable directory operations (conf-qmail), one fault per run. No absence proof: generated inputs plus fixed boundary inputs (buffer sizes 256/2048/8192, addresses 1001-1004)."),
 "C05": dict(cat="exploration", design="5/C05", engine="in-process qmail-smtpd.c + reference receiver",
   technique="bounded-exhaustive enumeration + seeded random generation + libFuzzer (coverage-guided) against a reference RFC 5321 receiver; round-trip oracle",
   text="qmail-smtpd.c is #included into a harness (network reads replaced by a chunked memory reader, the queue by a recorder). blast() is compared with an independent reference receiver on ALL strings over {CR,LF,'.','x'} up to length 12 (14 thorough), every split into reads up to length 9 (10), random long streams, decode(encode(m)) round trips with a reference sender and with qmail-remote's encoder, and a libFuzzer campaign under ASan/UBSan.",
   note="Exhaustive only up to the stated length over the 4(5)-letter significant alphabet; longer inputs are sampled. The '.'+bare-CR line is unspecified and both results are accepted (counted as slack). The end-to-end path through the real binary is exercised by C07."),
 "C06": dict(cat="exploration", design="5/C06", engine="in-process qmail-remote.c + reference receiver + qmail-smtpd decoder",
   technique="bounded-exhaustive enumeration + seeded random generation + libFuzzer; oracle = structural invariants of the wire payload, reference receiver, differential against qmail-smtpd's decoder",
   text="qmail-remote.c blast() runs in-process on ALL messages over {CR,LF,'.','x'} up to length 12 (14), every chunking of file reads up to length 9 (10), random long messages around the 1024-byte buffer, injected read errors, and libFuzzer. Oracle: CRLF.CRLF exactly once as suffix, no bare LF, reference receiver and qmail-smtpd both consume exactly the payload and return the message's lines, CR-free messages byte-identical, partial final line => D, read error => Z.",
   note="Exhaustive only up to the stated length; bare CR in a queued message is taken as a line break (as the shipped test_blast_barecr fixes). Found and fixed F1 (fix: commit 024fda4)."),
}
NOT_YET = {}
def main():
    props = [json.loads(l) for l in open(os.path.join(HERE, "properties.jsonl"))]
    checks = []
    na = []
    for p in props:
        pid = p["id"]
        if pid in CHECKS:
            c = CHECKS[pid]
            checks.append({
              "property_id": pid,
              "quick_cmd": "./check %s --tier quick" % pid,
              "thorough_cmd": "./check %s --tier thorough" % pid,
              "evidence_file": "/verif/evidence/%s.json" % pid,
              "replay_cmd_template": "./check %s --replay {path}" % pid,
              "engine": c["engine"],
              "level_claimed": {"category": c["cat"], "text": c["text"], "design_ref": "DESIGN.md section " + c["design"]},
              "level_note": c["note"],
              "technique": c["technique"],
            })
        else:
            na.append({"property_id": pid, "reason": NOT_YET.get(pid, "check not built yet in this commit (planned: property-based testing / fuzzing per DESIGN.md section 5); not claimed until it runs")})
    m = {
      "version": 1,
      "setup_cmd": "make -C /verif",
      "hooks": {"guard": "NOTQMAIL_VERIF", "enable": "no source hooks are needed: checks rebuild /repo's working tree in a scratch copy and observe it through an LD_PRELOAD interposer and #include-based in-process harnesses", "baseline_off_cmd": "cd /repo && make it && make test", "source_commits": [], "add_only": True},
      "engines": [
        {"name": "vshim", "path": "/verif/shim/vshim.c", "kind_free_text": "LD_PRELOAD interposer: virtual /var/qmail, fake identities, syscall trace, crash/fault injection, virtual clock, driven select, gate-mode scheduler hook"},
        {"name": "check", "path": "/verif/check", "kind_free_text": "driver: builds a scratch copy of /repo's working tree, runs the property module (Hypothesis / enumerators / libFuzzer / rapidcheck), writes evidence"},
      ],
      "checks": checks,
      "not_applicable": na,
      "notes": "All checks are property-based tests / fuzzers with explicit oracles (see DESIGN.md). Exit 0 = held, 1 = VIOLATION line, 2 = HARNESS-ERROR (could not run; never a violation).",
    }
    json.dump(m, open(os.path.join(HERE, "MANIFEST.json"), "w"), indent=1)
if __name__ == "__main__":
    main()
