#!/usr/bin/env python3
"""Regenerates MANIFEST.json from the table below (kept in one place so it is always valid)."""
import json, os
HERE = os.path.dirname(os.path.dirname(os.path.abspath(__file__)))
CHECKS = {
 "C01": dict(cat="fault_enumeration", design="5/C01", engine="vshim+qmail-queue",
   technique="property-based testing (Hypothesis) with exhaustive crash-point and single-fault enumeration over the recorded syscall trace of the real qmail-queue",
   text="Real qmail-queue binary executed under an LD_PRELOAD interposer in a sandbox queue. Every generated (message, envelope, uid) is run once, then re-run for every crash point (before each mutating syscall) and every (call site x errno/short) fault of its own trace; post-crash images kept/lost/partial are rebuilt from fsync-time shadow copies. Oracle: exit 0 => visible and complete in every image; otherwise invisible or complete; documented exit codes; leftovers only in S1-S4; death timer armed first and below OSSIFIED.",
   note="Assumes crash granularity = system call, per-file loss of un-fsynced data, durable directory operations (conf-qmail), one fault per run. No absence proof: generated inputs plus fixed boundary inputs (buffer sizes 256/2048/8192, addresses 1001-1004)."),
 "C05": dict(cat="exploration", design="5/C05", engine="in-process qmail-smtpd.c + reference receiver",
   technique="bounded-exhaustive enumeration + seeded random generation + libFuzzer (coverage-guided) against a reference RFC 5321 receiver; round-trip oracle",
   text="qmail-smtpd.c is #included into a harness (network reads replaced by a chunked memory reader, the queue by a recorder). blast() is compared with an independent reference receiver on ALL strings over {CR,LF,'.','x'} up to length 12 (14 thorough), every split into reads up to length 9 (10), random long streams, decode(encode(m)) round trips with a reference sender and with qmail-remote's encoder, and a libFuzzer campaign under ASan/UBSan.",
   note="Exhaustive only up to the stated length over the 4(5)-letter significant alphabet; longer inputs are sampled. The '.'+bare-CR line is unspecified and both results are accepted (counted as slack). The end-to-end path through the real binary is exercised by C07."),
 "C06": dict(cat="exploration", design="5/C06", engine="in-process qmail-remote.c + reference receiver + qmail-smtpd decoder",
   technique="bounded-exhaustive enumeration + seeded random generation + libFuzzer; oracle = structural invariants of the wire payload, reference receiver, differential against qmail-smtpd's decoder",
   text="qmail-remote.c blast() runs in-process on ALL messages over {CR,LF,'.','x'} up to length 12 (14), every chunking of file reads up to length 9 (10), random long messages around the 1024-byte buffer, injected read errors, and libFuzzer. Oracle: CRLF.CRLF exactly once as suffix, no bare LF, reference receiver and qmail-smtpd both consume exactly the payload and return the message's lines, CR-free messages byte-identical, partial final line => D, read error => Z.",
   note="Exhaustive only up to the stated length; bare CR in a queued message is taken as a line break (as the shipped test_blast_barecr fixes). Found and fixed F1 (fix: commit 024fda4)."),
 "C02": dict(cat="exploration", design="5/C02", engine="gate-mode scheduler (vshim VSHIM_GATE + lib/gate.py) around the real qmail-queue/qmail-send/qmail-clean",
   technique="property-based testing over generated schedules (Hypothesis decision tapes) plus a systematic depth-first schedule prefix; invariant checked after every granted system call",
   text="Every queue-relevant system call of 1-3 real injectors, the real daemon, its cleaner and the daemon's own bounce injector is granted one at a time by a scheduler; after every granted step the whole queue is compared with the S1-S5 table of INTERNALS.md (plus inode = name, directory = n mod split), every link/unlink is checked against the documented order before it runs, leftovers aged 36h +-{90s,1h} test the GC rule, a second daemon must exit 111 without mutating anything, optional crash of any role before its k-th mutating call followed by restart.",
   note="Interleavings at system-call granularity of gated calls only; schedules are sampled (Hypothesis tapes) except for a depth-first prefix of the 1 injector x daemon world; crash = process group killed at a call boundary."),
 "C03": dict(cat="fault_enumeration", design="5/C03", engine="driven world (lib/qworld.py, lib/qhistory.py): real qmail-send + qmail-clean + qmail-queue, driver plays both spawners and the clock",
   technique="model-based property testing (Hypothesis histories with a decision tape) against a ledger of obligations, with crash-point and single-fault enumeration over each history's own syscall trace",
   text="The real daemon runs under a driven select(): every quiescent point is a decision point (answer any outstanding attempt with K/Z/D/garbled/empty, inject, HUP/ALRM/TERM+restart, spawner death, hostile reports, clock steps). A ledger checks: marks only after K/D (or Z past lifetime), no record list shrinks, a message leaves only when every recipient got a final report, every permanent failure is named in a queued bounce (or documented discard), custody files present, bounded drain. Four base scenarios are swept over ALL crash points (images kept/lost) and ALL fault sites in every run; generated histories get a strided selection (all in thorough).",
   note="One action per quiescent point; signals only at quiescent points; crash at call boundaries; lost image = files reverted to last fsync; liveness as a bound on quiescent points."),
 "C04": dict(cat="exploration", design="5/C04", engine="driven world",
   technique="model-based property testing (Hypothesis histories) with crash points (image kept) from the history's trace; oracle over commands, reports and record marks",
   text="Histories with concurrency settings {0,1,2,3,255,1000} x announced limits {0,1,2,120,255}, up to 12 recipients incl. duplicates, TERM+restart and crashes: outstanding attempts per (message, channel, address) never exceed unmarked records, per-channel outstanding <= min(configured, announced), delivery numbers distinct/in range, nothing after TERM, exit 0 only when idle, exactly one final attempt per recipient in crash-free histories, every final report is reflected by a mark.",
   note="Marks are observed at quiescent points; crash images restricted to 'kept' (a lost mark legitimately causes a re-attempt)."),
 "C10": dict(cat="exploration", design="5/C10", engine="driven world (preprocessing only) + in-process getcontrols()/rewrite()/senderadd() volume harness + independent routing model",
   technique="property-based testing (Hypothesis configurations and recipients) against a reference model of qmail-send.9/addresses.5",
   text="Generated locals/virtualdomains/percenthack/envnoathost files (comments, case, trailing blanks, all entry kinds) and 1-12 recipients with near misses are injected with the real qmail-queue and preprocessed by the real qmail-send; the records of local/<n> and remote/<n> (order, channel, spelling) and the VERP sender of every delivery command must equal the model; second phase rewrites the files, sends HUP and injects again.",
   note="Duplicate control-file keys are outside the domain; multi-@ addresses on which the percent hack fires are only checked for conservation (slack). A second part runs ~250k recipients per quick run through the real getcontrols()/rewrite()/senderadd() in-process (inproc/c10_rewrite.c) against the same model."),
 "C14": dict(cat="exploration", design="5/C14", engine="driven world + bounce parser",
   technique="model-based property testing (Hypothesis histories of failing recipients) with a structural parser of every daemon-queued notice",
   text="Failing recipients in generated combinations/orders (permanent, or temporary past queuelifetime), hostile failure texts (blank lines, forged '<victim>:' paragraphs, the copy marker, 8-bit, 12 kB), all sender forms, generated bounce* control files; the chain bounce -> double bounce -> discard runs through the real queue. Each notice is parsed: envelope, From/To, exactly one paragraph per failed recipient with the prepend removed and newlines mapped, text equal modulo documented squashing, marker, Return-Path, byte-identical original.",
   note="Order of failures = order of reports (one report per quiescent point). Oversized reports: the cut point +-1 byte is slack."),
 "C15": dict(cat="exploration", design="5/C15", engine="in-process qmail-send.c/prioq.c harness + driven world with virtual clock",
   technique="bounded-exhaustive enumeration (square root neighbourhoods / all 2^32 in thorough, prioq sequences <= 9) + seeded random + model-based daemon histories",
   text="Layer 1: squareroot() against r^2<=x<(r+1)^2 in 128-bit integers, nextretry() grid. Layer 2: prioq against a sorted multiset incl. allocation failure. Layer 3: real daemon under a frozen virtual clock: no pass before birth+(isqrt(age)+10|20)^2, retry strictly in the future, due messages attempted before blocking, schedule survives TERM/restart, ALRM, expiry after queuelifetime turns Z into a bounce with the documented sentence, bounded drain.",
   note="Exhaustive for the arithmetic only in the thorough tier (all 2^32 ages); daemon layer samples histories. Retry time of a pass that had to block for a slot is only bounded, not exact."),
 "C16": dict(cat="exploration", design="5/C16", engine="gate-mode scheduler (systematic) + driven world (timeouts)",
   technique="systematic schedule enumeration (stateless depth-first search over the scheduler's decision tape, real programs executed) + property-based histories for the timeout oracle",
   text="Part A enumerates ALL interleavings (up to a fairness bound of 14) of qmail-queue's {link todo, open/write/close trigger} with qmail-send's {close/open trigger, opendir, readdir.., open todo, select} for an idle daemon + 1 injector and a daemon woken by a stray pull + 1 injector (both complete in the quick tier), and a depth-first prefix + random tapes for 2 injectors: after the last injector exits 0 the daemon must not sleep with a positive timeout while the todo entry exists. Part B: every quiescent point of C15/C03-style histories: timeout > 0, <= earliest due + 1, no spinning (interposer counts idle selects).",
   note="Granularity = interposed calls on todo/ and lock/trigger; qmail-clean ungated; 2-injector world not exhausted in quick."),
 "C20": dict(cat="exploration", design="5/C20", engine="16 libFuzzer targets (ASan+UBSan) built from the scratch tree",
   technique="coverage-guided fuzzing (libFuzzer) with structure-aware decode layers; oracle = no sanitizer report, documented termination",
   text="One libFuzzer target per untrusted-input surface (smtpd, qmtpd, qmqpd, token822, inject, dns, remote, spawn, control/constmap, cdb, local, received, pop3d, popup, stralloc/substdio/getln, send), library objects built with sanitizers too, regression corpus first, every crash artefact re-run 3x before it counts.",
   note="distinct_nontrivial = corpus units that reached the parsers (measured proxy). Small over-reads inside stralloc slack are invisible to ASan unless the harness hands exact-size copies (done for cdb keys, child output, dns answers). Found F7 (dns.c over-read), fixed by 2d89f0c."),
 "C07": dict(cat="fault_enumeration", design="5/C07", engine="real qmail-smtpd/qmail-qmtpd/qmail-qmqpd under vshim with a scripted queue stand-in or the real qmail-queue",
   technique="property-based testing (Hypothesis decision tapes) + systematic grids (every exit status 0..255, every cut offset of base sessions, size/hop/length boundaries) against byte-level reference session models",
   text="Sessions are generated by construction and mutated (databytes +-1, 98..101 hops, address lengths around the limits, NUL bytes, every framing mutation, client disconnect at every offset, every queue exit status, status 82 with custom text, killed / missing / lenient queue program, failing pipe()/fork() of the daemon, hostile TCPREMOTE*/HELO strings). Oracle: positive acknowledgement iff committed; committed bytes = Received field + decoded body; envelope = acknowledged sender/recipients in order; Received field well-formed with unsafe bytes as '?'; class of the negative reply. 15 hand-written bad observations are refused by the oracle on every run.",
   note="Only the class digit of SMTP replies is compared. Slack where the documents are silent (lengths 899..900 / 999..1003, HELO name, 82 with short text, lost QMTP acknowledgements after a later malformed message). Found and fixed: qmtpd recipient length digit test (3cc662c)."),
 "C08": dict(cat="exploration", design="5/C08", engine="real qmail-smtpd under vshim, morercpthosts.cdb compiled by the real qmail-newmrh",
   technique="model-based property testing (Hypothesis command sequences and configurations) against a transaction/relay-policy model written from qmail-smtpd.8",
   text="Generated rcpthosts/morercpthosts/badmailfrom/localiphost/RELAYCLIENT configurations over a 6-label pool with near misses and command sequences of up to 14 commands (mixed case, LF/CRLF, pipelining, address forms with the intended address known by construction); the reply class of every command and the committed envelope of every accepted DATA must equal the model; nothing is committed otherwise. 162-case deterministic grid and regression files first.",
   note="Arguments outside the grammar are only checked for 'no commit without 250-DATA'. Found and fixed: ip_scan octet range (d717745)."),
 "C09": dict(cat="exploration", design="5/C09", engine="in-process qmail-remote.c smtp() with a lock-step scripted server, in-process qmail-rspawn.c report(), real qmail-remote over loopback TCP, real qmail-rspawn with stand-in",
   technique="bounded-exhaustive enumeration of server-behaviour class structures (1-3 recipients) with seeded random instantiation + Hypothesis end-to-end sessions; oracle written twice (C and Python) from qmail-remote.8",
   text="Every structure {reply class x single/multi-line | EOF | read error | failing write} per protocol phase for 1-3 recipients is enumerated and instantiated with random codes, texts, chunkings and bodies; report() gets every exit status, every signal and all letter structures up to 4 records. Oracle: per-recipient r/s/h in argument order, K only after an accepted recipient and an accepted final dot, D/Z classes, 'Possible duplicate!' exactly for a loss between final dot and its reply, report() never upgrades to K.",
   note="3xx where a final answer is due, 1xx/6xx-9xx, and the Z-or-D choice for non-zero exit / empty output are slack. No libFuzzer twin."),
 "C18": dict(cat="exploration", design="5/C18", engine="real qmail-clean / qmail-lspawn / qmail-rspawn under vshim with decoy files and stand-in children; driven world for qmail-send's report channels",
   technique="bounded-exhaustive enumeration of request strings + Hypothesis streams; oracle over the syscall trace and the filesystem; model-based histories with hostile reports",
   text="(1) qmail-clean: all prefix x body requests up to length 5 over {0,1,9,/,.,a,0xFF} plus boundaries (lengths, 2^31/2^32/2^64+-1, leading zeros, unterminated tail) against a queue full of decoys: valid iff ^(foop|todo)/[0-9]+\\0$, exactly one status byte, only the documented unlinks in order, nothing for rejected requests. (2) spawners: command streams with hostile message ids (non-numeric, path-like, directory, FIFO, symlink, foreign owner), all delivery numbers, truncated tails: opens only of digit paths, children only for regular qmailq-owned files, exactly one report per complete command. (3) qmail-send: hostile bytes on the report descriptors (unused/out-of-range delivery numbers, forged K/D, 12 kB, split reports) must not change any recipient's state (ledger of C03).",
   note="Requests are sent in batches and judged one by one from the trace. Reverts of fixes 7fbe6e3 / 6665200 are detected by the regression corpus."),
 "C19": dict(cat="exploration", design="5/C19", engine="real qmail-pop3d and qmail-popup under vshim (sandbox.Session)",
   technique="model-based property testing (Hypothesis maildir populations and command sequences) against a reference POP3 model over the same files",
   text="Generated maildirs (new/cur, info suffixes, mtime ties, too-new files, dot lines, no final newline, long lines, files vanishing mid-session) and up to 20 commands with hostile numeric arguments (0, n+1, 2^31, 2^32+1, 10^20, 2^64+1, junk); every reply and the maildir after every command are compared with the model; exactly the marked files are removed and only at QUIT; uid 0 refused; qmail-popup honours only USER/PASS/APOP/NOOP/QUIT before login and passes credentials verbatim on descriptor 3.",
   note="STAT's count is outside the comparison (property text). Slack: TOP without k, LAST semantics, vanished files. Revert of fix 6665200 detected by the regression corpus."),
 "C11": dict(cat="exploration", design="5/C11", engine="real qmail-newu, qmail-lspawn, qmail-getpw under vshim (identity virtualisation) with a stand-in qmail-local; in-process cdb writer/reader differential",
   technique="model-based property testing (Hypothesis users/assign tables, passwd databases, local parts) against a model of qmail-users/qmail-getpw; seeded differential of cdbmake/cdbmss vs cdb_seek; fault and truncation sweeps",
   text="Tables (exact, wildcard, duplicate, overlapping, mixed-case, uid 0, malformed) are compiled by the real qmail-newu; the real qmail-lspawn is driven over its descriptors; the stand-in records argv and the credential state accumulated from setgroups/setgid/setuid. Oracle: exact argv (user, home, local, dash, ext, domain, sender, aliasempty), setgroups -> setgid -> setuid -> exec in this order, never uid 0, Z (never D, never another user) for truncated/replaced cdb, getpwnam/stat/set*id faults, missing alias; qmail-getpw only after dropping privileges; malformed tables refused leaving users/cdb untouched; every stored cdb key returns its first value, absent keys 0.",
   note="Identity changes are recorded by the interposer, not performed. qmail-pw2u is not exercised. Found and fixed: F3 wildcard case (05d2c0e)."),
 "C12": dict(cat="fault_enumeration", design="5/C12", engine="real qmail-local under vshim (crash/fault injection, fsync shadows) + gate scheduler for concurrent deliveries",
   technique="property-based testing (Hypothesis messages/senders) with crash-point and single-fault enumeration over the recorded trace; systematic depth-first enumeration of interleavings of 2-3 concurrent deliveries; mboxrd reference reader",
   text="Maildir: every entry of new/ is the complete Return-Path + Delivered-To + message in the kept and lost images, created by link() from tmp/ after an fsync covering its data, exit 0 iff exactly one new entry, any failure -> 111 and nothing in new/. Mbox: exit 0 -> file = before + entry that the reader of mbox.5 splits/unquotes back to the message (From_/>From_ lines, partial last line), injected write/fsync failures -> 111 and file byte-identical to before, writes only between flock and close. Concurrency: ALL interleavings (gate scheduler, complete for the 2-delivery mbox worlds in the quick tier) of deliveries needing several write() calls, plus real simultaneous deliveries and a held-lock test.",
   note="Crash = stop before a system call; one fault per run; mbox crash images are unconstrained (documented) except that previous content is never altered; a failing flock is slack (documented unlocked delivery)."),
 "C13": dict(cat="exploration", design="5/C13", engine="real qmail-local (-n and real run) under vshim with stand-in queue and marker programs",
   technique="model-based property testing (Hypothesis homes, .qmail files, extensions, messages) against a model of dot-qmail.5 / qmail-command.8 / qmail-local.8; trace-based path confinement check",
   text="Generated homes (subsets of .qmail* files, modes, sticky/writable homes), dash/ext near misses (case, dots, slashes, dashes), instruction grammars (comments, programs with every exit code, mbox, maildir, forwards, +list), Delivered-To loops, hostile senders/recipients. Oracle: control-file selection order, every opened path inside the home, instruction order from the trace, exit-code table, no instruction or forward after a failure, exactly one queue submission with documented sender/recipients/message, environment of programs, header lines single-line.",
   note="Runs as root: readability is modelled with the effective credentials; conf-patrn read from the tree; 8-bit extensions and whitespace-only first lines are not generated (undocumented)."),
 "C17": dict(cat="exploration", design="5/C17", engine="in-process quote.c/token822.c/qmail-smtpd.c addrparse/qmail-remote.c addrmangle/qmail-inject.c dorecip + real qmail-inject with stand-in queue",
   technique="bounded-exhaustive enumeration (all local parts <= 5 over a 19-symbol alphabet; <= 6 thorough) + seeded random round trips; grammar-based Hypothesis generation of RFC 822 address lists with the mailboxes known by construction; independent reference tokenizer",
   text="Round trips: addrparse(<addrmangle(a)>) == a, unquote(addrlist(parse(quote2(a)))) == [a], parse(unparse(t)) == t, quote_need==0 => dot-atom. Whole program: envelope recipients = listed mailboxes after defaulthost/defaultdomain/plusdomain rewriting, sender selection, Bcc/Return-Path/Content-Length removed, other fields kept in order, every rewritten field re-parses (independent strict parser) to the same mailboxes; all -a/-h/-H/-A/-f modes and QMAILINJECT flags.",
   note="Recipient order in the envelope is not documented and not checked (multiset). Syntactically invalid fields belong to C20. Found and fixed: comments inside angle brackets (10d076c)."),
}
NOT_YET = {}
def main():
    props = [json.loads(l) for l in open(os.path.join(HERE, "properties.jsonl"))]
    checks = []
    na = []
    for p in props:
        pid = p["id"]
        if pid in CHECKS:
            c = CHECKS[pid]
            checks.append({
              "property_id": pid,
              "quick_cmd": "./check %s --tier quick" % pid,
              "thorough_cmd": "./check %s --tier thorough" % pid,
              "evidence_file": "/verif/evidence/%s.json" % pid,
              "replay_cmd_template": "./check %s --replay {path}" % pid,
              "engine": c["engine"],
              "level_claimed": {"category": c["cat"], "text": c["text"], "design_ref": "DESIGN.md section " + c["design"]},
              "level_note": c["note"],
              "technique": c["technique"],
            })
        else:
            na.append({"property_id": pid, "reason": NOT_YET.get(pid, "check not built yet in this commit (planned: property-based testing / fuzzing per DESIGN.md section 5); not claimed until it runs")})
    m = {
      "version": 1,
      "setup_cmd": "make -C /verif",
      "hooks": {"guard": "NOTQMAIL_VERIF", "enable": "no source hooks are needed: checks rebuild /repo's working tree in a scratch copy and observe it through an LD_PRELOAD interposer and #include-based in-process harnesses", "baseline_off_cmd": "cd /repo && make it && make test", "source_commits": [], "add_only": True},
      "engines": [
        {"name": "vshim", "path": "/verif/shim/vshim.c", "kind_free_text": "LD_PRELOAD interposer: virtual /var/qmail, fake identities, syscall trace, crash/fault injection, virtual clock, driven select, gate-mode scheduler hook"},
        {"name": "check", "path": "/verif/check", "kind_free_text": "driver: builds a scratch copy of /repo's working tree, runs the property module (Hypothesis / enumerators / libFuzzer / rapidcheck), writes evidence"},
      ],
      "checks": checks,
      "not_applicable": na,
      "notes": "All checks are property-based tests / fuzzers with explicit oracles (see DESIGN.md). Exit 0 = held, 1 = VIOLATION line, 2 = HARNESS-ERROR (could not run; never a violation).",
    }
    json.dump(m, open(os.path.join(HERE, "MANIFEST.json"), "w"), indent=1)
if __name__ == "__main__":
    main()
