#!/usr/bin/env python3
"""tools/verify_seeded.py <dir-with-patch.diff-demo.sh> <seeded-id> <property> [check-args...]
Confirms a seeded change independently (scratch copies of /repo outside /repo and /verif):
 1. patch applies to /repo's HEAD sources, `make it` builds, `make test` passes;
 2. demo.sh exits 0 on the clean tree and non-zero on the patched tree;
 3. runs the property's check against the patched tree (tools/mutate.py --patch) and records DETECTED/MISSED.
On success copies patch.diff, the demonstration and meta.json to /verif/seeded/<seeded-id>/."""
import sys, os, subprocess, tempfile, shutil, json, time
src, sid, prop = sys.argv[1:4]
extra = sys.argv[4:]
base = tempfile.mkdtemp(prefix="vs-", dir="/dev/shm")
os.chmod(base, 0o755)        # demonstrations that deliver as a non-root user must be able to reach their scratch home
res = {"property": prop, "id": sid}
try:
    files = subprocess.run(["git", "-C", "/repo", "ls-files", "-z"], stdout=subprocess.PIPE, check=True).stdout
    for name in ("clean", "patched"):
        d = os.path.join(base, name)
        os.makedirs(d)
        subprocess.run(["rsync", "-a", "--from0", "--files-from=-", "/repo/", d + "/"], input=files, check=True)
    r = subprocess.run(["patch", "-p1", "-s", "-d", os.path.join(base, "patched"), "-i", os.path.abspath(os.path.join(src, "patch.diff"))])
    res["patch_applies"] = r.returncode == 0
    if r.returncode:
        print(json.dumps(res)); sys.exit(1)
    for name in ("clean", "patched"):
        d = os.path.join(base, name)
        b = subprocess.run("make -j16 it >build.log 2>&1 && make test >test.log 2>&1", shell=True, cwd=d)
        res["build_and_tests_%s" % name] = b.returncode == 0
        if b.returncode:
            print(open(os.path.join(d, "test.log")).read()[-500:] if os.path.exists(os.path.join(d, "test.log")) else open(os.path.join(d, "build.log")).read()[-500:])
    for name in ("clean", "patched"):
        d = os.path.join(base, name)
        demo = os.path.join(base, "demo-" + name)
        shutil.copytree(src, demo)
        t0 = time.time()
        try:
            p = subprocess.run(["sh", "demo.sh", d], cwd=demo, stdout=subprocess.PIPE, stderr=subprocess.STDOUT, timeout=600)
            res["demo_rc_%s" % name] = p.returncode
            res["demo_tail_%s" % name] = p.stdout.decode(errors="replace")[-300:]
        except subprocess.TimeoutExpired:
            res["demo_rc_%s" % name] = "timeout"
        res["demo_s_%s" % name] = round(time.time() - t0)
    ok = res.get("build_and_tests_patched") and res.get("demo_rc_clean") == 0 and res.get("demo_rc_patched") not in (0, "timeout")
    res["confirmed"] = bool(ok)
    m = subprocess.run(["/verif/tools/mutate.py", prop, "--patch", os.path.abspath(os.path.join(src, "patch.diff"))] + (["--"] + extra if extra else []),
                       stdout=subprocess.PIPE, stderr=subprocess.STDOUT, text=True)
    res["check_output"] = m.stdout[-1200:]
    res["detected"] = {l.split()[1]: l.split()[0] for l in m.stdout.split("\n") if l.startswith(("DETECTED", "MISSED", "ERROR"))}
    if ok:
        dst = os.path.join("/verif/seeded", sid)
        if os.path.exists(dst):
            shutil.rmtree(dst)
        shutil.copytree(src, dst, ignore=shutil.ignore_patterns("demo-work", "*.o", "demo-build", "work*", "build*"))
        readme = open(os.path.join(src, "README.md")).read() if os.path.exists(os.path.join(src, "README.md")) else ""
        meta = {"property": prop, "needs_to_manifest": readme[:1500], "ran": {
            "build+make test on patched copy": "pass", "demo.sh on clean copy": "exit %s" % res["demo_rc_clean"],
            "demo.sh on patched copy": "exit %s" % res["demo_rc_patched"], "check": "tools/mutate.py %s --patch patch.diff %s" % (prop, " ".join(extra)),
            "check_result": res["detected"]}, "author": "independent sub-agent given only the property text and a scratch worktree"}
        json.dump(meta, open(os.path.join(dst, "meta.json"), "w"), indent=1)
    print(json.dumps({k: v for k, v in res.items() if k != "check_output"}, indent=1))
    print(res["check_output"][-600:])
finally:
    shutil.rmtree(base, ignore_errors=True)
