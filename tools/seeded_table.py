#!/usr/bin/env python3
"""Prints the markdown table of /verif/seeded/*/meta.json (which checks catch which seeded changes)."""
import json, os, re
base = os.path.join(os.path.dirname(os.path.dirname(os.path.abspath(__file__))), "seeded")
print("| seeded change | property | what it needs to manifest (author's words, shortened) | caught by |")
print("|---|---|---|---|")
for d in sorted(os.listdir(base)):
    m = json.load(open(os.path.join(base, d, "meta.json")))
    need = re.sub(r"\s+", " ", m.get("needs_to_manifest", ""))
    mm = re.search(r"(?i)(needs?( to manifest)?|what is needed)[^:]*:\s*(.{20,260})", need)
    short = (mm.group(3) if mm else need[:220]).replace("|", "/")
    res = m["ran"]["check_result"]
    caught = ", ".join("%s" % k for k, v in res.items() if v == "DETECTED") or "-"
    missed = ", ".join(k for k, v in res.items() if v != "DETECTED")
    print("| %s | %s | %s | %s%s |" % (d, m["property"], short[:230], caught, (" (not by %s)" % missed) if missed else ""))
