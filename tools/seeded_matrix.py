#!/usr/bin/env python3
"""tools/seeded_matrix.py [--jobs N] [--only ID-prefix,...] [--out file.json]
Runs, for every seeded change under /verif/seeded/<id>/, the quick tier of the check of the property it was written for against a PRIVATE
patched copy of /repo (tools/mutate.py: never edits /repo, never writes committed evidence) and records DETECTED / MISSED / ERROR, the
seconds it took and the first violation line. The result table (seeded/MATRIX.json + seeded/MATRIX.md) is what DESIGN.md section 13 cites.
Each check uses all cores itself, so the default is one mutant at a time."""
import sys, os, json, subprocess, time, re
from concurrent.futures import ThreadPoolExecutor

ROOT = os.path.dirname(os.path.dirname(os.path.abspath(__file__)))
args = sys.argv[1:]
jobs = 1
only = None
out = os.path.join(ROOT, "seeded", "MATRIX.json")
if "--jobs" in args:
    i = args.index("--jobs"); jobs = int(args[i + 1]); del args[i:i + 2]
if "--only" in args:
    i = args.index("--only"); only = args[i + 1].split(","); del args[i:i + 2]
if "--out" in args:
    i = args.index("--out"); out = args[i + 1]; del args[i:i + 2]

ids = sorted(d for d in os.listdir(os.path.join(ROOT, "seeded")) if os.path.exists(os.path.join(ROOT, "seeded", d, "patch.diff")))
if only:
    ids = [d for d in ids if any(d.startswith(o) for o in only)]


def one(sid):
    prop = json.load(open(os.path.join(ROOT, "seeded", sid, "meta.json")))["property"]
    t0 = time.time()
    r = subprocess.run([os.path.join(ROOT, "tools", "mutate.py"), prop, "--patch", os.path.join(ROOT, "seeded", sid, "patch.diff"), "--confirm-replay"],
                       stdout=subprocess.PIPE, stderr=subprocess.STDOUT, text=True)
    lines = r.stdout.split("\n")
    verdict = next((l.split()[0] for l in lines if l.startswith(("DETECTED", "MISSED", "ERROR"))), "ERROR")
    detail = next((l.strip() for l in lines if "violation detail" in l), "")
    detail = re.sub(r"\d{6,}", "N", detail)[:300]
    rep = [l.split()[0] for l in lines if l.strip().startswith("REPLAY-")]
    res = {"id": sid, "property": prop, "verdict": verdict, "seconds": round(time.time() - t0), "first_violation": detail,
           "replay": ("reproduces" if rep and all(x == "REPLAY-OK" for x in rep) else ("MISMATCH" if rep else "-"))}
    print(json.dumps(res), flush=True)
    return res


with ThreadPoolExecutor(jobs) as ex:
    results = list(ex.map(one, ids))
old = {}
if os.path.exists(out):
    old = {r["id"]: r for r in json.load(open(out))["results"]}
for r in results:
    old[r["id"]] = r
allr = [old[k] for k in sorted(old)]
head = subprocess.run(["git", "-C", "/repo", "rev-parse", "--short", "HEAD"], stdout=subprocess.PIPE, text=True).stdout.strip()
json.dump({"repo_head": head, "tier": "quick", "results": allr}, open(out, "w"), indent=1)
with open(out.replace(".json", ".md"), "w") as f:
    f.write("| seeded change | check | quick tier | s | replay file | first violation reported |\n|---|---|---|---|---|---|\n")
    for r in allr:
        f.write("| %s | %s | %s | %d | %s | %s |\n" % (r["id"], r["property"], r["verdict"], r["seconds"], r.get("replay", "-"), r["first_violation"].replace("|", "/")))
print("%d seeded changes: %d detected, %d missed, %d error" % (len(allr), sum(r["verdict"] == "DETECTED" for r in allr),
                                                              sum(r["verdict"] == "MISSED" for r in allr), sum(r["verdict"] == "ERROR" for r in allr)))
