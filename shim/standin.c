/* standin - scripted replacement for qmail-queue (QMAILQUEUE), qmail-local, qmail-remote (QMAILREMOTE),
 * checkpassword. Behaviour comes from the environment only:
 *   SI_DIR       directory for records; this run writes <SI_DIR>/<pid>.{argv,fd0,fd1,fd3,meta}
 *   SI_READ      string of descriptor digits to slurp to EOF (e.g. "01" for the qmail-queue interface, "3" for checkpassword)
 *   SI_QQ=1      qmail-queue semantics: "<pid>.commit" is created iff the envelope on fd 1 is well formed
 *                (F<addr>\0 (T<addr>\0)* \0 seen before EOF) and the scripted exit status is 0; a missing terminator => exit 54
 *   SI_FD6_HEX   bytes written to descriptor 6;  SI_OUT_HEX  bytes written to descriptor 1 (after reading)
 *   SI_OUT_SEQ_HEX  comma list of such outputs, one per run of the stand-in (counter in <SI_DIR>/oseq, last entry repeats)
 *   SI_EXIT      exit status (default 0);  SI_KILL  signal number to die from
 *   SI_EXEC=1    finally exec argv[1..] (checkpassword success)
 *   SI_PASS=path when the scripted exit status of this run is 0, exec `path` at once, before anything is read (a filter that lets the run through)
 *   SI_EXIT_SEQ  comma list of exit statuses consumed one per run (counter kept in <SI_DIR>/seq); an entry "k<sig>" = read descriptors 0 and 1
 *                to the end, then die from that signal; an entry "e<status>" = exit at once with that status, nothing read
 */
#include <fcntl.h>
#include <signal.h>
#include <stdio.h>
#include <time.h>
#include <stdlib.h>
#include <string.h>
#include <unistd.h>
#include <sys/stat.h>

static char *slurp(int fd, size_t *n)
{
  size_t cap = 65536, len = 0; char *b = malloc(cap); ssize_t r;
  for (;;) {
    if (len + 4096 > cap) { cap *= 2; b = realloc(b, cap); }
    r = read(fd, b + len, cap - len);
    if (r <= 0) break;
    len += r;
  }
  *n = len; return b;
}

static void put(const char *dir, long pid, const char *ext, const char *s, size_t n)
{
  char p[1024], t[1024]; int fd;
  snprintf(t, sizeof t, "%s/.%ld.%s.tmp", dir, pid, ext);
  snprintf(p, sizeof p, "%s/%ld.%s", dir, pid, ext);
  fd = open(t, O_WRONLY | O_CREAT | O_TRUNC, 0644);
  if (fd < 0) return;
  while (n) { ssize_t w = write(fd, s, n); if (w <= 0) break; s += w; n -= w; }
  close(fd);
  rename(t, p);
}

static size_t unhex(const char *h, char *out)
{
  size_t n = 0; unsigned v;
  while (h[0] && h[1]) { sscanf(h, "%2x", &v); out[n++] = v; h += 2; }
  return n;
}

static int env_ok(const char *e, size_t n)
{
  size_t i = 0;
  if (n < 1 || e[0] != 'F') return 0;
  while (i < n && e[i]) ++i;
  if (i >= n) return 0;
  ++i;
  for (;;) {
    if (i >= n) return 0;
    if (!e[i]) return 1;
    if (e[i] != 'T') return 0;
    while (i < n && e[i]) ++i;
    if (i >= n) return 0;
    ++i;
  }
}

int main(int argc, char **argv)
{
  const char *dir = getenv("SI_DIR"), *rd = getenv("SI_READ"), *s;
  long pid = getpid(); int code = 0, i; char meta[2048]; int envok = -1;
  char *fd1 = 0; size_t n1 = 0;
  if (!dir) dir = "/tmp";
  if ((s = getenv("SI_EXIT"))) code = atoi(s);
  if ((s = getenv("SI_EXIT_SEQ"))) {
    char p[1024]; FILE *f; int k = 0, j = 0; const char *q = s;
    snprintf(p, sizeof p, "%s/seq", dir);
    f = fopen(p, "r"); if (f) { fscanf(f, "%d", &k); fclose(f); }
    f = fopen(p, "w"); if (f) { fprintf(f, "%d", k + 1); fclose(f); }
    while (j < k && strchr(q, ',')) { q = strchr(q, ',') + 1; ++j; }
    code = atoi(q);
    /* "e<status>": this run exits at once with that status and reads nothing (a filter that refuses early; its parent's writes meet EPIPE) */
    if (*q == 'e') _exit(atoi(q + 1));
    if (*q == 'k') {
      /* "k<sig>": this run reads everything it is given (descriptors 0 and 1) and is then killed by that signal - nothing was queued */
      size_t n; int sig = atoi(q + 1); (void)slurp(0, &n); (void)slurp(1, &n);
      signal(sig, SIG_DFL); raise(sig); _exit(111);
    }
  }
  /* a filter in front of the real program (QMAILQUEUE wrappers): this run is either refused with the scripted status or handed over untouched */
  if ((s = getenv("SI_PASS")) && code == 0) { execl(s, s, (char *)0); _exit(111); }
  {
    size_t len = 0; char *b = malloc(1 << 16); size_t cap = 1 << 16;
    for (i = 0; i < argc; ++i) { size_t l = strlen(argv[i]) + 1; if (len + l > cap) { cap = (len + l) * 2; b = realloc(b, cap); } memcpy(b + len, argv[i], l); len += l; }
    put(dir, pid, "argv", b, len);
  }
  if (rd) for (; *rd; ++rd) {
    size_t n; char ext[8]; char *b = slurp(*rd - '0', &n);
    snprintf(ext, sizeof ext, "fd%c", *rd);
    put(dir, pid, ext, b, n);
    if (*rd == '1') { fd1 = b; n1 = n; }
  }
  if (getenv("SI_QQ")) {
    envok = fd1 ? env_ok(fd1, n1) : 0;
    if (!envok && code == 0) code = 54;
    if (envok && code == 0 && !getenv("SI_KILL")) put(dir, pid, "commit", "", 0);
  }
  {
    char cwd[512]; if (!getcwd(cwd, sizeof cwd)) cwd[0] = 0;
    snprintf(meta, sizeof meta, "pid=%ld\nexit=%d\nenvok=%d\ncred=%s\ncwd=%s\nuid=%d\n", pid, code, envok,
             getenv("VSHIM_CRED") ? getenv("VSHIM_CRED") : "-", cwd, (int)getuid());
    put(dir, pid, "meta", meta, strlen(meta));
  }
  if ((s = getenv("SI_FD6_HEX"))) { char *b = malloc(strlen(s) + 2); size_t n = unhex(s, b); if (write(6, b, n) < 0) {} }
  if ((s = getenv("SI_OUT_SEQ_HEX"))) {
    /* comma list of outputs (hex) consumed one per run (counter in <SI_DIR>/oseq; the last entry repeats): runs of one spawner differ */
    char p[1024]; FILE *f; int k = 0, j = 0; const char *q = s; char *b; size_t n, l;
    snprintf(p, sizeof p, "%s/oseq", dir);
    f = fopen(p, "r"); if (f) { if (fscanf(f, "%d", &k) != 1) k = 0; fclose(f); }
    f = fopen(p, "w"); if (f) { fprintf(f, "%d", k + 1); fclose(f); }
    while (j < k && strchr(q, ',')) { q = strchr(q, ',') + 1; ++j; }
    l = strcspn(q, ","); b = malloc(l + 2); memcpy(b, q, l); b[l] = 0;
    { char *o = malloc(l + 2); n = unhex(b, o); if (write(1, o, n) < 0) {} }
  }
  else if ((s = getenv("SI_OUT_HEX"))) { char *b = malloc(strlen(s) + 2); size_t n = unhex(s, b); if (write(1, b, n) < 0) {} }
  if ((s = getenv("SI_LINGER_MS"))) {
    /* the program gives up all its descriptors and only dies a little later: its parent sees end-of-file on every pipe long before the
       exit status exists (a real program may do this, e.g. by closing stdout before a slow cleanup or a crash in an exit handler) */
    int i; struct timespec ts; long ms = atol(s);
    for (i = 0; i < 64; i++) close(i);
    ts.tv_sec = ms / 1000; ts.tv_nsec = (ms % 1000) * 1000000L;
    while (nanosleep(&ts, &ts) == -1) ;
  }
  if ((s = getenv("SI_KILL"))) { signal(atoi(s), SIG_DFL); raise(atoi(s)); }
  if (getenv("SI_EXEC") && code == 0 && argc > 1) { execvp(argv[1], argv + 1); _exit(111); }
  _exit(code);
}
