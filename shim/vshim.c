/* vshim.so - LD_PRELOAD interposer used by the /verif checks.
 * Features (all opt-in through environment variables):
 *   VSHIM_HOME, VSHIM_QMAIL   chdir(VSHIM_QMAIL) is redirected to VSHIM_HOME
 *   VSHIM_PASSWD, VSHIM_GROUP fake getpwnam/getpwuid/getgrnam
 *   VSHIM_UID, VSHIM_CRED     fake identity; set*id calls are recorded, not performed
 *   VSHIM_TRACE               append one line per interposed call
 *   VSHIM_ROLE                free-form role name inherited by children
 *   VSHIM_CRASH=key:k         die (SIGKILL) before the k-th mutating call of process `key`
 *   VSHIM_CRASHFLAG=path      created at the crash; every other process dies at its next mutating call
 *   VSHIM_SIGNAL=key:k:signo  process `key` receives signal signo just before its k-th mutating call (raise(): the program's own
 *                             handler runs at that instant, e.g. qmail-queue's 24 h alarm); "key:k:signo:after" = right after that call
 *                             has been performed, before the program sees its result (where the kernel delivers a signal that arrived
 *                             during the call: program state set "once the call has returned" is not yet set)
 *   VSHIM_DNS=dir              res_query()/res_search() answer from files: dir/<type>.<name lower-cased> holds the raw DNS response, a file
 *                             dir/<type>.<name>.err holds the h_errno value to fail with; no file = HOST_NOT_FOUND (no packet leaves the box)
 *   VSHIM_SWAPOPEN=key|substr|src  right after the first successful open() of a path containing `substr` the file `src` is renamed over
 *                             that path - what another process could do between this program's open() and its next system call
 *   VSHIM_FORKDELAY=key:ms    the parent side of every fork() of program `key` sleeps ms milliseconds before it returns
 *   VSHIM_PAUSE=key|substr|n  (driven programs only) just before the n-th open() of a path containing `substr` the process reports
 *                             "P <path>" on its control socket and waits for a byte from the driver; signals sent meanwhile run their
 *                             handlers at that instant (a breakpoint inside the daemon's work, e.g. in the middle of reread())
 *   VSHIM_FAULT=key:class:k:errno|short   k-th call of class fails ("errno+": that call and every later one of the class fail - a condition
 *                             that persists, e.g. a full descriptor table)
 *   VSHIM_CRASH_GEN=n, VSHIM_FAULT_GEN=n  (optional) the crash/fault spec applies only to processes that are n fork()s
 *                             away from their last exec (0 = the exec'd program itself, 1 = its not-exec'd fork child, ...);
 *                             needed because counters restart at 0 in a fork child that keeps the parent's key
 *   VSHIM_EUID=n              geteuid() answers n (getuid() keeps answering the faked real uid)
 *   VSHIM_CLOCK=path          8-byte offset added to time()
 *   VSHIM_DRIVE=prog, VSHIM_CTL=sockpath  driven select() for program `prog`
 *   VSHIM_GATE=sockpath       gate mode: queue-relevant calls ask a scheduler first
 *   VSHIM_FIXPID/VSHIM_FIXHOST fixed getpid()/gethostname() results
 * key = "<role>.<program short name>" ; a spec key matches if it equals the key, the role or the program.
 */
#define _GNU_SOURCE
#include <dlfcn.h>
#include <errno.h>
#include <fcntl.h>
#include <grp.h>
#include <pwd.h>
#include <signal.h>
#include <stdarg.h>
#include <stdio.h>
#include <stdlib.h>
#include <string.h>
#include <unistd.h>
#include <dirent.h>
#include <poll.h>
#include <time.h>
#include <sys/file.h>
#include <sys/mman.h>
#include <sys/select.h>
#include <sys/socket.h>
#include <sys/stat.h>
#include <sys/time.h>
#include <sys/types.h>
#include <sys/un.h>
#include <sys/wait.h>
#include <sys/syscall.h>
#include <resolv.h>

extern char *program_invocation_short_name;

#define REAL(fn) static __typeof__(fn) *real_##fn; if (!real_##fn) real_##fn = dlsym(RTLD_NEXT, #fn)

static int inited;
static int tracefd = -1;
static char role[64] = "-";
static char key[160];
static const char *home, *qmailhome;
static char crash_key[160]; static long crash_k = -1;
static const char *crashflag;
static char fault_key[160], fault_class[32]; static long fault_k = -1; static int fault_errno; static int fault_short; static int fault_persist;
static long mutcount;
static long classcount[32];
static long forkgen; static long crash_gen = -1, fault_gen = -1;
static char sig_key[128]; static long sig_k = -1; static int sig_no; static int sig_after, sig_armed;
static char pause_key[128], pause_sub[200]; static long pause_n = -1, pause_seen;
static char swap_key[128], swap_sub[300], swap_src[600]; static int swap_done;
static volatile long long *clockoff;
static int drive; static int ctlfd = -1; static const char *ctlpath;
static const char *gatepath; static int gatefd = -1; static pid_t gatepid;
static long spins; static long calls_since_select; static long max_idle_spins; static long ready_spins;
static int in_shim;

static int cred_set; static long cred_uid = -1, cred_gid = -1; static char cred_groups[128] = "";

static const char *classes[] = {"open","read","write","fsync","link","unlink","stat","utimes","close","ftruncate","rename","flock","mkdir","opendir","lseek","fork","pipe","exec","pwrite","fstat","chdir","readdir","setuid","setgid","setgroups","socket","waitpid","malloc",0};
static int classidx(const char *c) { int i; for (i = 0; classes[i]; ++i) if (!strcmp(classes[i], c)) return i; return 31; }

static int keymatch(const char *spec)
{
  if (!*spec) return 0;
  if (!strcmp(spec, key)) return 1;
  if (!strcmp(spec, role)) return 1;
  if (!strcmp(spec, program_invocation_short_name)) return 1;
  return 0;
}

static void load_cred(void)
{
  const char *c = getenv("VSHIM_CRED");
  const char *u = getenv("VSHIM_UID");
  if (c) { cred_set = 1; sscanf(c, "%ld:%ld:%127s", &cred_uid, &cred_gid, cred_groups); }
  else if (u) { cred_set = 1; cred_uid = atol(u); cred_gid = getenv("VSHIM_GID") ? atol(getenv("VSHIM_GID")) : cred_uid; }
}

static void save_cred(void)
{
  char b[300];
  if (!cred_set) return;
  snprintf(b, sizeof b, "%ld:%ld:%s", cred_uid, cred_gid, cred_groups[0] ? cred_groups : "-");
  setenv("VSHIM_CRED", b, 1);
}

static void init(void)
{
  const char *s;
  if (inited) return;
  inited = 1;
  in_shim++;
  s = getenv("VSHIM_ROLE"); if (s) snprintf(role, sizeof role, "%s", s);
  snprintf(key, sizeof key, "%s.%s", role, program_invocation_short_name);
  home = getenv("VSHIM_HOME"); qmailhome = getenv("VSHIM_QMAIL"); if (!qmailhome) qmailhome = "/var/qmail";
  s = getenv("VSHIM_TRACE");
  if (s) { REAL(open); tracefd = real_open(s, O_WRONLY | O_APPEND | O_CREAT | O_CLOEXEC, 0644);
           if (tracefd >= 0 && tracefd < 200) { int n = fcntl(tracefd, F_DUPFD_CLOEXEC, 200); if (n >= 0) { REAL(close); real_close(tracefd); tracefd = n; } } }
  s = getenv("VSHIM_CRASH");
  if (s) { const char *c = strrchr(s, ':'); if (c) { snprintf(crash_key, sizeof crash_key, "%.*s", (int)(c - s), s); crash_k = atol(c + 1); } }
  crashflag = getenv("VSHIM_CRASHFLAG");
  s = getenv("VSHIM_SIGNAL");
  if (s) { char b[200], *p, *q; snprintf(b, sizeof b, "%s", s); p = strchr(b, ':');
           if (p) { *p++ = 0; q = strchr(p, ':'); if (q) { *q++ = 0; snprintf(sig_key, sizeof sig_key, "%s", b); sig_k = atol(p); sig_no = atoi(q); sig_after = strstr(q, ":after") != 0; } } }
  s = getenv("VSHIM_PAUSE");
  if (s) { char b[400], *p, *q; snprintf(b, sizeof b, "%s", s); p = strchr(b, '|');
           if (p) { *p++ = 0; q = strchr(p, '|'); if (q) { *q++ = 0; snprintf(pause_key, sizeof pause_key, "%s", b); snprintf(pause_sub, sizeof pause_sub, "%s", p); pause_n = atol(q); } } }
  s = getenv("VSHIM_SWAPOPEN");
  if (s) { char b[1100], *p, *q; snprintf(b, sizeof b, "%s", s); p = strchr(b, '|');
           if (p) { *p++ = 0; q = strchr(p, '|'); if (q) { *q++ = 0; snprintf(swap_key, sizeof swap_key, "%s", b); snprintf(swap_sub, sizeof swap_sub, "%s", p); snprintf(swap_src, sizeof swap_src, "%s", q); } } }
  s = getenv("VSHIM_CRASH_GEN"); if (s && *s) crash_gen = atol(s);
  s = getenv("VSHIM_FAULT_GEN"); if (s && *s) fault_gen = atol(s);
  s = getenv("VSHIM_FAULT");
  if (s) {
    char b[300], *p, *q; snprintf(b, sizeof b, "%s", s);
    /* key:class:k:kind  (key may not contain ':') */
    p = strchr(b, ':'); if (p) { *p++ = 0; snprintf(fault_key, sizeof fault_key, "%s", b);
      q = strchr(p, ':'); if (q) { *q++ = 0; snprintf(fault_class, sizeof fault_class, "%s", p);
        p = strchr(q, ':'); if (p) { *p++ = 0; fault_k = atol(q);
          if (!strcmp(p, "short")) fault_short = 1; else { fault_errno = atoi(p); if (strchr(p, '+')) fault_persist = 1; } } } }
  }
  s = getenv("VSHIM_CLOCK");
  if (s) { REAL(open); int fd = real_open(s, O_RDONLY | O_CLOEXEC);
           if (fd >= 0) { void *m = mmap(0, 8, PROT_READ, MAP_SHARED, fd, 0); if (m != MAP_FAILED) clockoff = m; REAL(close); real_close(fd); } }
  s = getenv("VSHIM_DRIVE"); ctlpath = getenv("VSHIM_CTL");
  if (s && ctlpath && !strcmp(s, program_invocation_short_name)) drive = 1;
  gatepath = getenv("VSHIM_GATE");
  load_cred();
  in_shim--;
}

/* sanitised builds (VERIF_SANITIZE): AddressSanitizer reports are also appended to $VSHIM_SANLOG.<pid> so that a check can collect them
 * wherever the program's stderr goes */
static void san_report(const char *report)
{
  const char *base = getenv("VSHIM_SANLOG"); char p[700]; int fd; REAL(open); REAL(write); REAL(close);
  if (!base) return;
  snprintf(p, sizeof p, "%s.%d", base, (int)syscall(SYS_getpid));
  fd = real_open(p, O_WRONLY | O_CREAT | O_APPEND, 0644);
  if (fd < 0) return;
  if (real_write(fd, report, strlen(report)) < 0) {}
  real_close(fd);
}

__attribute__((constructor)) static void ctor(void)
{
  init();
  if (getenv("VSHIM_SANLOG")) {
    void (*set_cb)(void (*)(const char *)) = (void (*)(void (*)(const char *)))dlsym(RTLD_DEFAULT, "__asan_set_error_report_callback");
    if (set_cb) set_cb(san_report);
  }
}

/* ------------------------------------------------------------------ trace */

static void esc(char *dst, size_t n, const char *s)
{
  size_t i = 0;
  if (!s) { snprintf(dst, n, "(null)"); return; }
  for (; *s && i + 4 < n; ++s) {
    unsigned char c = *s;
    if (c <= 32 || c >= 127 || c == '%') { snprintf(dst + i, n - i, "%%%02X", c); i += 3; }
    else dst[i++] = c;
  }
  dst[i] = 0;
}

static void fdpath(int fd, char *out, size_t n)
{
  char p[64]; char buf[512]; ssize_t r;
  { struct stat st; REAL(fstat); if (real_fstat(fd, &st) == 0 && S_ISREG(st.st_mode)) { int k = snprintf(out, n, "ino:%lu:", (unsigned long)st.st_ino); out += k; n -= k; } }
  snprintf(p, sizeof p, "/proc/self/fd/%d", fd);
  r = readlink(p, buf, sizeof buf - 1);
  if (r < 0) { snprintf(out, n, "fd%d", fd); return; }
  buf[r] = 0;
  esc(out, n, buf);
}

static long trace_bytes;
static void tr(const char *fmt, ...)
{
  char b[1400]; int n; va_list ap; int e = errno;
  ++calls_since_select;
  if (tracefd < 0) return;
  n = snprintf(b, sizeof b, "%d\t%s\t", (int)syscall(SYS_getpid), key);
  va_start(ap, fmt); n += vsnprintf(b + n, sizeof b - n - 2, fmt, ap); va_end(ap);
  if (n > (int)sizeof b - 2) n = sizeof b - 2;
  b[n++] = '\n';
  { REAL(write); real_write(tracefd, b, n); }
  /* a program that has gone wild (or lost its harness) must not fill the scratch file system: 256 MB of trace per process is far beyond
     anything a check produces (largest legitimate trace measured: 40 MB) */
  trace_bytes += n;
  if (trace_bytes > (256L << 20)) raise(SIGKILL);
  if (sig_armed) { sig_armed = 0; raise(sig_no); }
  errno = e;
}

/* the interposer's own sockets bypass the interposed socket() below */
static int shim_socket(int d, int t, int p) { REAL(socket); return real_socket(d, t, p); }

/* ------------------------------------------------------------------ gate mode */

static int gate_connect(void)
{
  struct sockaddr_un sa; REAL(close);
  if (gatefd >= 0 && gatepid == getpid()) return gatefd;
  if (gatefd >= 0) { real_close(gatefd); gatefd = -1; }
  gatefd = shim_socket(AF_UNIX, SOCK_STREAM | SOCK_CLOEXEC, 0);
  if (gatefd < 0) return -1;
  if (gatefd < 200) { int n = fcntl(gatefd, F_DUPFD_CLOEXEC, 210); if (n >= 0) { real_close(gatefd); gatefd = n; } }
  memset(&sa, 0, sizeof sa); sa.sun_family = AF_UNIX; snprintf(sa.sun_path, sizeof sa.sun_path, "%s", gatepath);
  if (connect(gatefd, (struct sockaddr *)&sa, sizeof sa) < 0) { real_close(gatefd); gatefd = -1; return -1; }
  gatepid = getpid();
  return gatefd;
}

/* ask the scheduler for permission; kind: "REQ" (about to do call) or "BLK" (would block) */
static void gate(const char *kind, const char *call, const char *path)
{
  char b[700], e[520], r[8]; int n; ssize_t k; REAL(write); REAL(read);
  if (!gatepath || in_shim) return;
  in_shim++;
  if (gate_connect() >= 0) {
    esc(e, sizeof e, path ? path : "-");
    n = snprintf(b, sizeof b, "%s %d %s %s %s\n", kind, (int)getpid(), key, call, e);
    if (real_write(gatefd, b, n) == n) {
      for (;;) { k = real_read(gatefd, r, 1); if (k == 1 || (k < 0 && errno != EINTR) || k == 0) break; }
    }
  }
  in_shim--;
}

/* tell the scheduler that this process is about to exec: the new image counts as running until it connects or dies */
static void gate_exec_note(const char *path)
{
  char b[700], e[520]; int n; REAL(write);
  if (!gatepath || in_shim) return;
  in_shim++;
  if (gate_connect() >= 0) {
    esc(e, sizeof e, path ? path : "-");
    n = snprintf(b, sizeof b, "EXE %d %s exec %s\n", (int)syscall(SYS_getpid), key, e);
    if (real_write(gatefd, b, n) < 0) {}
  }
  in_shim--;
}

static int gate_only_match(const char *p)
{
  /* VSHIM_GATE_ONLY = comma separated substrings; empty/unset = every queue/mailbox path */
  const char *o = getenv("VSHIM_GATE_ONLY"); char item[64]; const char *c;
  if (!o || !*o) return 1;
  while (*o) {
    size_t l; c = strchr(o, ','); l = c ? (size_t)(c - o) : strlen(o);
    if (l && l < sizeof item) { memcpy(item, o, l); item[l] = 0; if (strstr(p, item)) return 1; }
    if (!c) break;
    o = c + 1;
  }
  return 0;
}

static int gated_path(const char *p)
{
  if (!gatepath || !p) return 0;
  /* queue tree and mailbox files: relative names used by the programs */
  static const char *pre[] = {"mess/","todo/","intd/","info/","local/","remote/","bounce/","pid/","lock/","todo","Maildir","./Maildir","tmp/","new/","cur/","./mbox","mbox",0};
  int i; for (i = 0; pre[i]; ++i) if (!strncmp(p, pre[i], strlen(pre[i]))) return gate_only_match(p);
  return 0;
}

static int gated_fd(int fd)
{
  char b[512]; struct stat st; REAL(fstat);
  if (!gatepath) return 0;
  if (fd == tracefd || fd == gatefd || fd == ctlfd) return 0;
  if (real_fstat(fd, &st) < 0) return 0;
  if (S_ISREG(st.st_mode) || S_ISFIFO(st.st_mode) || S_ISDIR(st.st_mode)) {
    fdpath(fd, b, sizeof b);
    if ((home && strstr(b, home)) || strstr(b, "/queue/") || strstr(b, "Maildir") || strstr(b, "mbox")) return gate_only_match(b);
  }
  return 0;
}

/* ------------------------------------------------------------------ crash / fault */

static void maybe_crash(const char *call, const char *arg)
{
  if (crashflag) { REAL(access); if (real_access(crashflag, F_OK) == 0) { tr("CRASHED-ALONG\t%s", call); raise(SIGKILL); } }
  tr("M\t%ld\t%s\t%s", mutcount, call, arg ? arg : "-");
  if (crash_k >= 0 && keymatch(crash_key) && (crash_gen < 0 || crash_gen == forkgen)) {
    if (mutcount == crash_k) {
      tr("CRASH\t%ld\t%s\t%s", mutcount, call, arg ? arg : "-");
      if (crashflag) { REAL(open); REAL(close); int fd = real_open(crashflag, O_WRONLY | O_CREAT, 0644); if (fd >= 0) real_close(fd); }
      raise(SIGKILL);
    }
  }
  if (sig_k >= 0 && mutcount == sig_k && keymatch(sig_key) && forkgen == 0) {
    long k = mutcount++;            /* the handler may itself make mutating calls */
    tr("SIGNAL\t%ld\t%d\t%s\t%s%s", k, sig_no, call, arg ? arg : "-", sig_after ? "\tafter" : "");
    if (sig_after) sig_armed = 1;   /* raised by tr() when the wrapper logs the result of the call */
    else raise(sig_no);
    return;
  }
  ++mutcount;
}

/* returns 1 if this call must fail (errno set), 2 for a short write */
static int maybe_fault(const char *cls)
{
  int ci = classidx(cls); long c = classcount[ci]++;
  if (fault_k < 0 || strcmp(cls, fault_class) || !keymatch(fault_key)) return 0;
  if (fault_gen >= 0 && fault_gen != forkgen) return 0;
  if (fault_persist ? c < fault_k : c != fault_k) return 0;     /* "errno+": the condition persists (every call from the k-th on fails) */
  if (fault_persist) { errno = fault_errno; return 1; }
  { /* exactly one fault per run, also across the processes that share the key */
    const char *once = getenv("VSHIM_FAULTONCE");
    if (once) { REAL(open); REAL(close); int fd = real_open(once, O_WRONLY | O_CREAT | O_EXCL, 0644); if (fd < 0) return 0; real_close(fd); }
  }
  if (fault_short) return 2;
  errno = fault_errno;
  return 1;
}

static const char *mappath(const char *p, char *buf, size_t n)
{
  size_t l;
  if (!home || !p) return p;
  l = strlen(qmailhome);
  if (!strncmp(p, qmailhome, l) && (p[l] == 0 || p[l] == '/')) { snprintf(buf, n, "%s%s", home, p + l); return buf; }
  return p;
}

static int ctl_connect(void);
static void maybe_pause(const char *path)
{
  REAL(write); REAL(read); char msg[700]; int n; char ch;
  if (pause_n < 0 || !drive || !keymatch(pause_key) || !strstr(path, pause_sub)) return;
  if (pause_seen++ != pause_n) return;
  if (ctl_connect() < 0) return;
  tr("PAUSE\t%s", path);
  n = snprintf(msg, sizeof msg, "P %s\n", path);
  if (real_write(ctlfd, msg, n) != n) raise(SIGKILL);
  for (;;) {
    ssize_t k = real_read(ctlfd, &ch, 1);
    if (k == 1) break;
    if (k < 0 && errno == EINTR) continue;      /* a signal handler ran: exactly what the driver wanted */
    raise(SIGKILL);
  }
}

/* ------------------------------------------------------------------ filesystem calls */

int chdir(const char *path)
{
  char b[1024]; REAL(chdir); int r; init();
  if (maybe_fault("chdir") == 1) { tr("chdir\t-\t-1\t%d\tFAULT", errno); return -1; }
  r = real_chdir(mappath(path, b, sizeof b));
  { char e[600]; esc(e, sizeof e, path); tr("chdir\t%s\t%d\t%d", e, r, r < 0 ? errno : 0); }
  return r;
}

/* with a virtual clock (VSHIM_CLOCK) files written by the programs carry virtual timestamps: the times are set when a descriptor that
 * was opened for writing is closed, so that "age = now - mtime" means the same thing for the programs as on a real system */
static unsigned char fdwr[1024];
static int fd_is_reg(int fd);
static void stamp_virtual(int fd)
{
  if (clockoff && fd >= 0 && fd < 1024 && fdwr[fd]) {
    struct timespec ts[2]; time_t v = time(0);
    ts[0].tv_sec = v; ts[0].tv_nsec = 0; ts[1] = ts[0];
    futimens(fd, ts);
  }
  if (fd >= 0 && fd < 1024) fdwr[fd] = 0;
}

static int is_mut_open(int flags) { return (flags & (O_CREAT | O_TRUNC | O_APPEND)) || (flags & O_ACCMODE) != O_RDONLY; }

int open(const char *path, int flags, ...)
{
  char b[1024], e[600]; REAL(open); int r; mode_t mode = 0; int f;
  init();
  if (flags & O_CREAT) { va_list ap; va_start(ap, flags); mode = va_arg(ap, int); va_end(ap); }
  if (in_shim) return real_open(path, flags, mode);
  path = mappath(path, b, sizeof b);
  esc(e, sizeof e, path);
  if (gated_path(path)) gate("REQ", "open", path);
  if (is_mut_open(flags)) maybe_crash("open", e);
  maybe_pause(path);
  f = maybe_fault("open");
  if (f == 1) { tr("open\t%s\t%d\t-1\t%d\tFAULT", e, flags, errno); return -1; }
  r = real_open(path, flags, mode);
  if (r >= 0 && r < 1024) fdwr[r] = is_mut_open(flags) ? 1 : 0;
  tr("open\t%s\t%d\t%d\t%d", e, flags, r, r < 0 ? errno : 0);
  if (r >= 0 && swap_src[0] && !swap_done && keymatch(swap_key) && strstr(path, swap_sub)) {
    REAL(rename); int e2 = errno; swap_done = 1;
    tr("SWAP\t%s\t%d", e, real_rename(swap_src, path));
    errno = e2;
  }
  return r;
}

int open64(const char *path, int flags, ...)
{
  mode_t mode = 0;
  if (flags & O_CREAT) { va_list ap; va_start(ap, flags); mode = va_arg(ap, int); va_end(ap); }
  return open(path, flags, mode);
}

int close(int fd)
{
  char p[600]; REAL(close); int r; init();
  if (in_shim || fd == tracefd || fd == gatefd || fd == ctlfd) return real_close(fd);
  fdpath(fd, p, sizeof p);
  if (maybe_fault("close") == 1) { int e = errno; real_close(fd); errno = e; tr("close\t%d\t%s\t-1\t%d\tFAULT", fd, p, errno); return -1; }
  if (gated_fd(fd)) gate("REQ", "close", p);
  if (fd_is_reg(fd)) stamp_virtual(fd); else if (fd >= 0 && fd < 1024) fdwr[fd] = 0;
  r = real_close(fd);
  tr("close\t%d\t%s\t%d\t%d", fd, p, r, r < 0 ? errno : 0);
  return r;
}

static int fd_is_reg(int fd) { struct stat st; REAL(fstat); if (real_fstat(fd, &st) < 0) return 0; return S_ISREG(st.st_mode); }
static int fd_is_fifo(int fd) { struct stat st; REAL(fstat); if (real_fstat(fd, &st) < 0) return 0; return S_ISFIFO(st.st_mode); }

ssize_t write(int fd, const void *buf, size_t n)
{
  char p[600]; REAL(write); ssize_t r; int f; off_t pos; init();
  if (in_shim || fd == tracefd || fd == gatefd || fd == ctlfd) return real_write(fd, buf, n);
  if (!fd_is_reg(fd)) {
    /* pipes, sockets, ttys: traced lightly, never counted as mutating */
    f = maybe_fault("pwrite");
    if (f == 1) {
      tr("pwrite\t%d\t%zu\t-1\t%d\tFAULT", fd, n, errno);
      /* a write to a pipe, FIFO or socket whose reader is gone fails with EPIPE AND raises SIGPIPE: programs that ignore the signal see
         the error, programs that left the default action die - the injected failure does what the kernel does */
      if (errno == EPIPE) { raise(SIGPIPE); errno = EPIPE; }
      return -1;
    }
    if (gatepath && fd_is_fifo(fd) && gated_fd(fd)) { fdpath(fd, p, sizeof p); gate("REQ", "write", p); }
    r = real_write(fd, buf, n);
    if (tracefd >= 0) tr("pwrite\t%d\t%zu\t%zd\t%d", fd, n, r, r < 0 ? errno : 0);
    return r;
  }
  fdpath(fd, p, sizeof p);
  if (gated_fd(fd)) gate("REQ", "write", p);
  maybe_crash("write", p);
  { REAL(lseek); pos = real_lseek(fd, 0, SEEK_CUR); }
  f = maybe_fault("write");
  if (f == 1) { tr("write\t%d\t%s\t%lld\t%zu\t-1\t%d\tFAULT", fd, p, (long long)pos, n, errno); return -1; }
  if (f == 2 && n > 1) { r = real_write(fd, buf, n / 2); tr("write\t%d\t%s\t%lld\t%zu\t%zd\t0\tSHORT", fd, p, (long long)pos, n, r); return r; }
  r = real_write(fd, buf, n);
  tr("write\t%d\t%s\t%lld\t%zu\t%zd\t%d", fd, p, (long long)pos, n, r, r < 0 ? errno : 0);
  return r;
}

ssize_t read(int fd, void *buf, size_t n)
{
  REAL(read); ssize_t r; int f; init();
  if (in_shim || fd == tracefd || fd == gatefd || fd == ctlfd) return real_read(fd, buf, n);
  if (gatepath && !getenv("VSHIM_GATE_BLOCKREAD") && !fd_is_reg(fd)) {
    /* poll-and-yield: never block while holding the scheduler's token */
    for (;;) {
      struct pollfd pf; pf.fd = fd; pf.events = POLLIN; pf.revents = 0;
      int fl = fcntl(fd, F_GETFL);
      if (fl >= 0 && (fl & O_NONBLOCK)) break;
      if (poll(&pf, 1, 0) != 0) break;
      { char p[64]; snprintf(p, sizeof p, "fd%d", fd); gate("BLK", "read", p); }
    }
  }
  f = maybe_fault("read");
  if (f == 1) { tr("read\t%d\t%zu\t-1\t%d\tFAULT", fd, n, errno); return -1; }
  if (f == 2 && n > 1) n = 1;
  r = real_read(fd, buf, n);
  if (tracefd >= 0) tr("read\t%d\t%zu\t%zd\t%d", fd, n, r, r < 0 ? errno : 0);
  return r;
}

static void shadow_copy(int fd)
{
  const char *d = getenv("VSHIM_SHADOW"); struct stat st; char p[700], buf[8192]; int o; off_t off = 0; ssize_t k;
  REAL(fstat); REAL(open); REAL(close); REAL(write);
  if (!d) return;
  if (real_fstat(fd, &st) < 0 || !S_ISREG(st.st_mode)) return;
  snprintf(p, sizeof p, "%s/%lu", d, (unsigned long)st.st_ino);
  o = real_open(p, O_WRONLY | O_CREAT | O_TRUNC, 0644);
  if (o < 0) return;
  { char q[64]; int in; snprintf(q, sizeof q, "/proc/self/fd/%d", fd); in = real_open(q, O_RDONLY);
    if (in >= 0) { while ((k = pread(in, buf, sizeof buf, off)) > 0) { real_write(o, buf, k); off += k; } real_close(in); } }
  real_close(o);
}

int fsync(int fd)
{
  char p[600]; REAL(fsync); int r; init();
  fdpath(fd, p, sizeof p);
  if (gated_fd(fd)) gate("REQ", "fsync", p);
  maybe_crash("fsync", p);
  if (maybe_fault("fsync") == 1) { tr("fsync\t%d\t%s\t-1\t%d\tFAULT", fd, p, errno); return -1; }
  r = getenv("VSHIM_NOFSYNC") ? 0 : real_fsync(fd);
  if (r == 0) shadow_copy(fd);
  tr("fsync\t%d\t%s\t%d\t%d", fd, p, r, r < 0 ? errno : 0);
  return r;
}

int ftruncate(int fd, off_t len)
{
  char p[600]; REAL(ftruncate); int r; init();
  fdpath(fd, p, sizeof p);
  if (gated_fd(fd)) gate("REQ", "ftruncate", p);
  maybe_crash("ftruncate", p);
  if (maybe_fault("ftruncate") == 1) { tr("ftruncate\t%d\t%s\t%lld\t-1\t%d\tFAULT", fd, p, (long long)len, errno); return -1; }
  r = real_ftruncate(fd, len);
  tr("ftruncate\t%d\t%s\t%lld\t%d\t%d", fd, p, (long long)len, r, r < 0 ? errno : 0);
  return r;
}
int ftruncate64(int fd, off_t len) { return ftruncate(fd, len); }

int link(const char *a, const char *b)
{
  char ea[600], eb[600]; REAL(link); int r; init();
  esc(ea, sizeof ea, a); esc(eb, sizeof eb, b);
  if (gated_path(a) || gated_path(b)) gate("REQ", "link", b);
  maybe_crash("link", eb);
  if (maybe_fault("link") == 1) { tr("link\t%s\t%s\t-1\t%d\tFAULT", ea, eb, errno); return -1; }
  r = real_link(a, b);
  tr("link\t%s\t%s\t%d\t%d", ea, eb, r, r < 0 ? errno : 0);
  return r;
}

int unlink(const char *a)
{
  char ea[600]; REAL(unlink); int r; init();
  esc(ea, sizeof ea, a);
  if (gated_path(a)) gate("REQ", "unlink", a);
  maybe_crash("unlink", ea);
  if (maybe_fault("unlink") == 1) { tr("unlink\t%s\t-1\t%d\tFAULT", ea, errno); return -1; }
  r = real_unlink(a);
  tr("unlink\t%s\t%d\t%d", ea, r, r < 0 ? errno : 0);
  return r;
}

int rename(const char *a, const char *b)
{
  char ea[600], eb[600]; REAL(rename); int r; init();
  esc(ea, sizeof ea, a); esc(eb, sizeof eb, b);
  if (gated_path(a) || gated_path(b)) gate("REQ", "rename", b);
  maybe_crash("rename", eb);
  if (maybe_fault("rename") == 1) { tr("rename\t%s\t%s\t-1\t%d\tFAULT", ea, eb, errno); return -1; }
  r = real_rename(a, b);
  tr("rename\t%s\t%s\t%d\t%d", ea, eb, r, r < 0 ? errno : 0);
  return r;
}

int mkdir(const char *a, mode_t m)
{
  char ea[600]; REAL(mkdir); int r; init();
  esc(ea, sizeof ea, a);
  maybe_crash("mkdir", ea);
  if (maybe_fault("mkdir") == 1) { tr("mkdir\t%s\t-1\t%d\tFAULT", ea, errno); return -1; }
  r = real_mkdir(a, m);
  tr("mkdir\t%s\t%d\t%d", ea, r, r < 0 ? errno : 0);
  return r;
}

int utimes(const char *a, const struct timeval tv[2])
{
  char ea[600]; REAL(utimes); int r; init();
  esc(ea, sizeof ea, a);
  if (gated_path(a)) gate("REQ", "utimes", a);
  maybe_crash("utimes", ea);
  if (maybe_fault("utimes") == 1) { tr("utimes\t%s\t-1\t%d\tFAULT", ea, errno); return -1; }
  r = real_utimes(a, tv);
  tr("utimes\t%s\t%ld\t%d\t%d", ea, tv ? (long)tv[1].tv_sec : -1L, r, r < 0 ? errno : 0);
  return r;
}

int stat(const char *a, struct stat *st)
{
  char ea[600], b[1024]; REAL(stat); int r; init();
  if (in_shim) return real_stat(a, st);
  a = mappath(a, b, sizeof b);
  esc(ea, sizeof ea, a);
  if (gated_path(a)) gate("REQ", "stat", a);
  if (maybe_fault("stat") == 1) { tr("stat\t%s\t-1\t%d\tFAULT", ea, errno); return -1; }
  r = real_stat(a, st);
  tr("stat\t%s\t%d\t%d", ea, r, r < 0 ? errno : 0);
  return r;
}

int lstat(const char *a, struct stat *st)
{
  char ea[600]; REAL(lstat); int r; init();
  esc(ea, sizeof ea, a);
  if (maybe_fault("stat") == 1) { tr("lstat\t%s\t-1\t%d\tFAULT", ea, errno); return -1; }
  r = real_lstat(a, st);
  tr("lstat\t%s\t%d\t%d", ea, r, r < 0 ? errno : 0);
  return r;
}

int fstat(int fd, struct stat *st)
{
  REAL(fstat); int r; init();
  if (in_shim || fd == tracefd) return real_fstat(fd, st);
  if (maybe_fault("fstat") == 1) { tr("fstat\t%d\t-1\t%d\tFAULT", fd, errno); return -1; }
  r = real_fstat(fd, st);
  tr("fstat\t%d\t%d\t%d\t%lu", fd, r, r < 0 ? errno : 0, r == 0 ? (unsigned long)st->st_ino : 0UL);
  return r;
}

off_t lseek(int fd, off_t off, int wh)
{
  REAL(lseek); off_t r; init();
  if (in_shim || tracefd < 0) return real_lseek(fd, off, wh);
  if (maybe_fault("lseek") == 1) { tr("lseek\t%d\t%lld\t%d\t-1\t%d\tFAULT", fd, (long long)off, wh, errno); return -1; }
  r = real_lseek(fd, off, wh);
  tr("lseek\t%d\t%lld\t%d\t%lld\t%d", fd, (long long)off, wh, (long long)r, r < 0 ? errno : 0);
  return r;
}
off_t lseek64(int fd, off_t off, int wh) { return lseek(fd, off, wh); }

int flock(int fd, int op)
{
  char p[600]; REAL(flock); int r; init();
  fdpath(fd, p, sizeof p);
  if (maybe_fault("flock") == 1) { tr("flock\t%d\t%s\t%d\t-1\t%d\tFAULT", fd, p, op, errno); return -1; }
  if (gatepath && gated_fd(fd) && !(op & LOCK_NB) && !(op & LOCK_UN)) {
    gate("REQ", "flock", p);
    for (;;) {
      r = real_flock(fd, op | LOCK_NB);
      if (r == 0 || errno != EWOULDBLOCK) break;
      gate("BLK", "flock", p);
    }
  } else {
    if (gatepath && gated_fd(fd)) gate("REQ", "flock", p);
    r = real_flock(fd, op);
  }
  tr("flock\t%d\t%s\t%d\t%d\t%d", fd, p, op, r, r < 0 ? errno : 0);
  return r;
}

DIR *opendir(const char *a)
{
  char ea[600]; REAL(opendir); DIR *d; init();
  esc(ea, sizeof ea, a);
  if (gated_path(a)) gate("REQ", "opendir", a);
  if (maybe_fault("opendir") == 1) { tr("opendir\t%s\t-1\t%d\tFAULT", ea, errno); return 0; }
  in_shim++; d = real_opendir(a); in_shim--;
  tr("opendir\t%s\t%d\t%d", ea, d ? 0 : -1, d ? 0 : errno);
  return d;
}

struct dirent *readdir(DIR *d)
{
  REAL(readdir); struct dirent *e; init();
  if (gatepath && !in_shim) { char p[600]; fdpath(dirfd(d), p, sizeof p); if (gated_fd(dirfd(d))) gate("REQ", "readdir", p); }
  if (maybe_fault("readdir") == 1) { tr("readdir\t-1\t%d\tFAULT", errno); return 0; }
  in_shim++; errno = 0; e = real_readdir(d); in_shim--;
  if (tracefd >= 0) { char en[300]; esc(en, sizeof en, e ? e->d_name : "(end)"); tr("readdir\t%s", en); }
  return e;
}

/* ------------------------------------------------------------------ identity */

static struct passwd pwbuf; static char pwline[1024];
static struct passwd *pwscan(const char *name, long uid)
{
  const char *f = getenv("VSHIM_PASSWD"); FILE *fp; struct passwd *res = 0;
  if (!f) return 0;
  in_shim++;
  fp = fopen(f, "r");
  if (fp) {
    while (fgets(pwline, sizeof pwline, fp)) {
      char *fld[7]; int i = 0; char *p = pwline; size_t l = strlen(pwline);
      if (l && pwline[l - 1] == '\n') pwline[l - 1] = 0;
      while (i < 7) { fld[i++] = p; p = strchr(p, ':'); if (!p) break; *p++ = 0; }
      if (i < 7) continue;
      if ((name && !strcmp(fld[0], name)) || (!name && atol(fld[2]) == uid)) {
        pwbuf.pw_name = fld[0]; pwbuf.pw_passwd = fld[1]; pwbuf.pw_uid = atol(fld[2]); pwbuf.pw_gid = atol(fld[3]);
        pwbuf.pw_gecos = fld[4]; pwbuf.pw_dir = fld[5]; pwbuf.pw_shell = fld[6]; res = &pwbuf; break;
      }
    }
    fclose(fp);
  }
  in_shim--;
  return res;
}

struct passwd *getpwnam(const char *name)
{
  REAL(getpwnam); struct passwd *r; init();
  if (!getenv("VSHIM_PASSWD")) return real_getpwnam(name);
  if (getenv("VSHIM_PWFAIL") && !strcmp(getenv("VSHIM_PWFAIL"), name)) { errno = ETXTBSY; tr("getpwnam\t%s\tETXTBSY", name); return 0; }
  errno = 0;
  r = pwscan(name, 0);
  { char e[300]; esc(e, sizeof e, name); tr("getpwnam\t%s\t%ld", e, r ? (long)r->pw_uid : -1L); }
  return r;
}

struct passwd *getpwuid(uid_t uid)
{
  REAL(getpwuid); init();
  if (!getenv("VSHIM_PASSWD")) return real_getpwuid(uid);
  return pwscan(0, uid);
}

static struct group grbuf; static char grline[512]; static char *grmem[1] = {0};
struct group *getgrnam(const char *name)
{
  REAL(getgrnam); const char *f; FILE *fp; struct group *res = 0; init();
  f = getenv("VSHIM_GROUP");
  if (!f) return real_getgrnam(name);
  in_shim++;
  fp = fopen(f, "r");
  if (fp) {
    while (fgets(grline, sizeof grline, fp)) {
      char *n = grline, *p, *g;
      p = strchr(n, ':'); if (!p) continue; *p++ = 0;
      g = strchr(p, ':'); if (!g) continue; *g++ = 0;
      if (!strcmp(n, name)) { grbuf.gr_name = n; grbuf.gr_passwd = p; grbuf.gr_gid = atol(g); grbuf.gr_mem = grmem; res = &grbuf; break; }
    }
    fclose(fp);
  }
  in_shim--;
  return res;
}

uid_t getuid(void) { REAL(getuid); init(); if (cred_set) return cred_uid; return real_getuid(); }
/* VSHIM_EUID: an effective uid that differs from the (faked) real one - a caller that dropped privileges with seteuid() only */
uid_t geteuid(void) { REAL(geteuid); const char *s; init(); if ((s = getenv("VSHIM_EUID"))) return (uid_t)atol(s); if (cred_set) return cred_uid; return real_geteuid(); }
gid_t getgid(void) { REAL(getgid); init(); if (cred_set) return cred_gid; return real_getgid(); }
gid_t getegid(void) { REAL(getegid); init(); if (cred_set) return cred_gid; return real_getegid(); }

int setuid(uid_t u)
{
  REAL(setuid); init();
  if (!cred_set) return real_setuid(u);
  if (maybe_fault("setuid") == 1) { tr("setuid\t%ld\t-1\t%d\tFAULT", (long)u, errno); return -1; }
  cred_uid = u; save_cred(); tr("setuid\t%ld\t0", (long)u); return 0;
}
int setgid(gid_t g)
{
  REAL(setgid); init();
  if (!cred_set) return real_setgid(g);
  if (maybe_fault("setgid") == 1) { tr("setgid\t%ld\t-1\t%d\tFAULT", (long)g, errno); return -1; }
  cred_gid = g; save_cred(); tr("setgid\t%ld\t0", (long)g); return 0;
}
int setgroups(size_t n, const gid_t *l)
{
  REAL(setgroups); size_t i; int k = 0; init();
  if (!cred_set) return real_setgroups(n, l);
  if (maybe_fault("setgroups") == 1) { tr("setgroups\t-1\t%d\tFAULT", errno); return -1; }
  cred_groups[0] = 0;
  for (i = 0; i < n && k < 100; ++i) k += snprintf(cred_groups + k, sizeof cred_groups - k, "%s%ld", i ? "," : "", (long)l[i]);
  save_cred(); tr("setgroups\t%s\t0", cred_groups[0] ? cred_groups : "-"); return 0;
}
int initgroups(const char *user, gid_t g)
{
  REAL(initgroups); init();
  if (!cred_set) return real_initgroups(user, g);
  snprintf(cred_groups, sizeof cred_groups, "init:%s:%ld", user, (long)g);
  save_cred(); tr("initgroups\t%s\t%ld\t0", user, (long)g); return 0;
}

pid_t getpid(void)
{
  REAL(getpid); const char *s;
  if (inited && !in_shim && (s = getenv("VSHIM_FIXPID"))) return atol(s);
  return real_getpid();
}

int gethostname(char *name, size_t len)
{
  REAL(gethostname); const char *s = getenv("VSHIM_FIXHOST");
  if (s) { snprintf(name, len, "%s", s); return 0; }
  return real_gethostname(name, len);
}

/* ------------------------------------------------------------------ clock */

time_t time(time_t *t)
{
  REAL(time); time_t r; const char *s; init();
  s = getenv("VSHIM_FIXTIME");
  r = s ? atol(s) : real_time(0);
  if (clockoff) r += *clockoff;
  if (t) *t = r;
  return r;
}

unsigned int sleep(unsigned int n)
{
  REAL(sleep); init();
  tr("sleep\t%u", n);
  if (clockoff || getenv("VSHIM_NOSLEEP")) return 0;
  return real_sleep(n);
}

unsigned int alarm(unsigned int n)
{
  REAL(alarm); init();
  tr("alarm\t%u", n);
  if (getenv("VSHIM_ALARM_SCALE")) { /* long alarms are only recorded */ if (n > 60) return 0; }
  return real_alarm(n);
}

/* ------------------------------------------------------------------ process */

static void trexec(const char *path, char *const argv[])
{
  char b[1200]; int n = 0, i; char e[300];
  if (tracefd < 0) return;
  esc(e, sizeof e, path); n += snprintf(b + n, sizeof b - n, "%s", e);
  for (i = 0; argv && argv[i] && n < 1000; ++i) { esc(e, sizeof e, argv[i]); n += snprintf(b + n, sizeof b - n, "\t%s", e[0] ? e : "%00"); }
  tr("exec\t%ld:%ld:%s\t%s", cred_uid, cred_gid, cred_groups[0] ? cred_groups : "-", b);
}

extern char **environ;
int execve(const char *path, char *const argv[], char *const envp[])
{
  REAL(execve); init(); save_cred(); trexec(path, argv);
  if (maybe_fault("exec") == 1) return -1;
  gate_exec_note(path);
  return real_execve(path, argv, envp == environ ? environ : envp);
}
int execv(const char *path, char *const argv[])
{
  REAL(execve); init(); save_cred(); trexec(path, argv);
  if (maybe_fault("exec") == 1) return -1;
  gate_exec_note(path);
  return real_execve(path, argv, environ);
}
int execvp(const char *file, char *const argv[])
{
  REAL(execvpe); init(); save_cred(); trexec(file, argv);
  if (maybe_fault("exec") == 1) return -1;
  gate_exec_note(file);
  return real_execvpe(file, argv, environ);
}

pid_t fork(void)
{
  REAL(fork); pid_t r; init();
  if (maybe_fault("fork") == 1) { tr("fork\t-1\t%d\tFAULT", errno); return -1; }
  r = real_fork();
  if (r == 0) { mutcount = 0; memset(classcount, 0, sizeof classcount); spins = 0; ++forkgen;
    if (gatepath) { if (gatefd >= 0) { REAL(close); real_close(gatefd); gatefd = -1; } gate("REQ", "forked", "-"); } }
  else {
    tr("fork\t%d", (int)r);
    { /* VSHIM_FORKDELAY=key:ms  the parent is held up right after fork() - the child may run, finish and raise SIGCHLD before the parent has
         noted its pid (a legal schedule on any loaded machine) */
      const char *fd_ = getenv("VSHIM_FORKDELAY"); const char *c = fd_ ? strrchr(fd_, ':') : 0;
      if (c && r > 0) { char k[128]; snprintf(k, sizeof k, "%.*s", (int)(c - fd_), fd_);
        if (keymatch(k)) { struct timespec ts; long ms = atol(c + 1); ts.tv_sec = ms / 1000; ts.tv_nsec = (ms % 1000) * 1000000L; nanosleep(&ts, &ts); nanosleep(&ts, 0); } }
    }
    if (gatepath && r > 0 && !in_shim) {   /* the child counts as running until it reports to the scheduler itself */
      char b[128]; int n; REAL(write);
      in_shim++;
      if (gate_connect() >= 0) { n = snprintf(b, sizeof b, "FRK %d %s fork %d\n", (int)syscall(SYS_getpid), key, (int)r); if (real_write(gatefd, b, n) < 0) {} }
      in_shim--;
    }
  }
  return r;
}

/* ------------------------------------------------------------------ DNS answers from files */
#include <netdb.h>
static int fake_dns(const char *name, int type, unsigned char *ans, int anslen)
{
  const char *dir = getenv("VSHIM_DNS"); char p[900], nm[300]; int fd, n; size_t i; REAL(open); REAL(read); REAL(close);
  for (i = 0; name[i] && i + 1 < sizeof nm; ++i) nm[i] = (name[i] >= 'A' && name[i] <= 'Z') ? name[i] + 32 : (name[i] == '/' ? '_' : name[i]);
  nm[i] = 0;
  while (i > 0 && nm[i - 1] == '.') nm[--i] = 0;
  snprintf(p, sizeof p, "%s/%d.%s.err", dir, type, nm);
  in_shim++;
  fd = real_open(p, O_RDONLY);
  if (fd >= 0) { char b[16]; n = real_read(fd, b, sizeof b - 1); real_close(fd); in_shim--; b[n > 0 ? n : 0] = 0; h_errno = atoi(b); tr("dns\t%d\t%s\t-1\t%d", type, nm, h_errno); return -1; }
  snprintf(p, sizeof p, "%s/%d.%s", dir, type, nm);
  fd = real_open(p, O_RDONLY);
  if (fd < 0) { in_shim--; h_errno = HOST_NOT_FOUND; tr("dns\t%d\t%s\t-1\t%d", type, nm, h_errno); return -1; }
  n = real_read(fd, ans, anslen);
  real_close(fd);
  in_shim--;
  tr("dns\t%d\t%s\t%d\t0", type, nm, n);
  return n;
}

int res_query(const char *name, int class, int type, unsigned char *ans, int anslen)
{
  REAL(res_query); init();
  if (!getenv("VSHIM_DNS")) return real_res_query(name, class, type, ans, anslen);
  return fake_dns(name, type, ans, anslen);
}

int res_search(const char *name, int class, int type, unsigned char *ans, int anslen)
{
  REAL(res_search); init();
  if (!getenv("VSHIM_DNS")) return real_res_search(name, class, type, ans, anslen);
  return fake_dns(name, type, ans, anslen);
}

/* ------------------------------------------------------------------ memory: the k-th malloc() of a program fails (class "malloc") */
extern void *__libc_malloc(size_t);
void *malloc(size_t n)
{
  int f;
  if (in_shim || !inited || fault_k < 0 || strcmp(fault_class, "malloc")) {
    if (!in_shim && inited && tracefd >= 0 && getenv("VSHIM_MALLOC_TRACE")) { in_shim++; tr("malloc\t%zu", n); in_shim--; }
    return __libc_malloc(n);
  }
  in_shim++;
  f = maybe_fault("malloc");
  if (f == 1) { tr("malloc\t%zu\t0\t12\tFAULT", n); in_shim--; errno = ENOMEM; return 0; }
  in_shim--;
  return __libc_malloc(n);
}

/* the package grows its strings with realloc() (gen_allocdefs.h, alloc.h): same class, same counter */
extern void *__libc_realloc(void *, size_t);
void *realloc(void *p, size_t n)
{
  int f;
  if (in_shim || !inited || fault_k < 0 || strcmp(fault_class, "malloc")) {
    if (!in_shim && inited && tracefd >= 0 && getenv("VSHIM_MALLOC_TRACE")) { in_shim++; tr("malloc\t%zu\trealloc", n); in_shim--; }
    return __libc_realloc(p, n);
  }
  in_shim++;
  f = maybe_fault("malloc");
  if (f == 1) { tr("malloc\t%zu\t0\t12\tFAULT\trealloc", n); in_shim--; errno = ENOMEM; return 0; }
  in_shim--;
  return __libc_realloc(p, n);
}

int socket(int d, int t, int p)
{
  REAL(socket); int r; init();
  if (maybe_fault("socket") == 1) { tr("socket\t%d\t-1\t%d\tFAULT", d, errno); return -1; }
  r = real_socket(d, t, p);
  tr("socket\t%d\t%d", d, r);
  return r;
}

int pipe(int fds[2])
{
  REAL(pipe); int r; init();
  if (maybe_fault("pipe") == 1) { tr("pipe\t-1\t%d\tFAULT", errno); return -1; }
  r = real_pipe(fds);
  return r;
}

pid_t waitpid(pid_t pid, int *st, int opt)
{
  REAL(waitpid); pid_t r; init();
  /* class "waitpid" exists for one purpose: a blocking wait that is interrupted by a signal (-1/EINTR, nothing reaped) - not a failure,
     correct callers simply wait again */
  if (!(opt & WNOHANG) && maybe_fault("waitpid") == 1) { tr("waitpid\t%d\t-1\t%d\tFAULT", (int)pid, errno); return -1; }
  if (gatepath && !(opt & WNOHANG)) {
    for (;;) {
      r = real_waitpid(pid, st, opt | WNOHANG);
      if (r != 0) break;
      gate("BLK", "waitpid", "-");
    }
  } else r = real_waitpid(pid, st, opt);
  if (r > 0) tr("waitpid\t%d\t%d", (int)r, st ? *st : 0);
  return r;
}

/* ------------------------------------------------------------------ driven select */

static int ctl_connect(void)
{
  struct sockaddr_un sa; REAL(close);
  if (ctlfd >= 0) return ctlfd;
  ctlfd = shim_socket(AF_UNIX, SOCK_STREAM | SOCK_CLOEXEC, 0);
  if (ctlfd < 0) return -1;
  if (ctlfd < 200) { int n = fcntl(ctlfd, F_DUPFD_CLOEXEC, 220); if (n >= 0) { real_close(ctlfd); ctlfd = n; } }
  memset(&sa, 0, sizeof sa); sa.sun_family = AF_UNIX; snprintf(sa.sun_path, sizeof sa.sun_path, "%s", ctlpath);
  if (connect(ctlfd, (struct sockaddr *)&sa, sizeof sa) < 0) { real_close(ctlfd); ctlfd = -1; return -1; }
  return ctlfd;
}

static int fmtset(char *b, int n, int nfds, fd_set *s)
{
  int i, k = 0; b[0] = '-'; b[1] = 0;
  if (!s) return 1;
  for (i = 0; i < nfds; ++i) if (FD_ISSET(i, s)) k += snprintf(b + k, n - k, "%s%d", k ? "," : "", i);
  if (!k) { b[0] = '-'; b[1] = 0; k = 1; }
  return k;
}

int select(int nfds, fd_set *rf, fd_set *wf, fd_set *ef, struct timeval *tv)
{
  REAL(select); REAL(read); REAL(write);
  fd_set r0, w0; struct timeval z; int r; long tmo; long t_entry = 0; int have_entry = 0;
  init();
  if (!drive && !gatepath) return real_select(nfds, rf, wf, ef, tv);
  if (rf) r0 = *rf; else FD_ZERO(&r0);
  if (wf) w0 = *wf; else FD_ZERO(&w0);
  tmo = tv ? (long)tv->tv_sec + (tv->tv_usec ? 1 : 0) : -1;
  for (;;) {
    fd_set r1 = r0, w1 = w0;
    z.tv_sec = 0; z.tv_usec = 0;
    r = real_select(nfds, rf ? &r1 : 0, wf ? &w1 : 0, 0, &z);
    if (r != 0 || tmo == 0) {
      if (tmo == 0 && r == 0) { if (calls_since_select == 0) ++spins; else spins = 1; if (spins > max_idle_spins) max_idle_spins = spins; } else spins = 0;
      /* select() reporting readiness over and over while the program does nothing about it is spinning, too */
      if (r > 0) { if (calls_since_select == 0) ++ready_spins; else ready_spins = 0; if (ready_spins > 20000) { tr("BUSYLOOP\tready\t%ld", ready_spins); raise(SIGKILL); } }
      calls_since_select = 0;
      if (rf) *rf = r1; if (wf) *wf = w1; if (ef) FD_ZERO(ef);
      if (tracefd >= 0 && (r != 0 || spins <= 2)) { char a[256]; fmtset(a, sizeof a, nfds, rf); tr("select\t%ld\t%d\t%s\t%ld", tmo, r, a, spins); calls_since_select = 0; }
      if (tmo == 0 && r == 0 && spins > 100000) { tr("BUSYLOOP\t%ld", spins); raise(SIGKILL); }
      return r;
    }
    /* quiescent: nothing ready and the caller is willing to wait */
    if (gatepath && !drive) { gate("BLK", "select", "-"); continue; }
    {
      char msg[700], a[256], b[256], rep[64]; int n; ssize_t k; sigset_t all, old; struct pollfd pf; long nowv, remaining;
      if (ctl_connect() < 0) return real_select(nfds, rf, wf, ef, tv);
      nowv = (long)time(0);
      if (!have_entry) { t_entry = nowv; have_entry = 1; }
      remaining = tmo < 0 ? -1 : t_entry + tmo - nowv;
      if (tmo >= 0 && remaining <= 0) {       /* the driver moved the clock past the deadline */
        if (rf) FD_ZERO(rf); if (wf) FD_ZERO(wf); if (ef) FD_ZERO(ef);
        tr("select\t%ld\t0\tTIMEOUT", tmo);
        return 0;
      }
      fmtset(a, sizeof a, nfds, rf ? &r0 : 0); fmtset(b, sizeof b, nfds, wf ? &w0 : 0);
      n = snprintf(msg, sizeof msg, "Q %ld %s %s %ld %ld %ld\n", remaining, a, b, max_idle_spins, nowv, tmo);
      max_idle_spins = 0;
      tr("quiescent\t%ld\t%s\t%s\t%ld\t%ld", remaining, a, b, spins, nowv);
      spins = 0;
      sigfillset(&all); sigprocmask(SIG_BLOCK, &all, &old);
      if (real_write(ctlfd, msg, n) != n) { sigprocmask(SIG_SETMASK, &old, 0); raise(SIGKILL); }
      pf.fd = ctlfd; pf.events = POLLIN; pf.revents = 0;
      r = ppoll(&pf, 1, 0, &old);
      if (r < 0 && errno == EINTR) {
        sigprocmask(SIG_SETMASK, &old, 0);
        tr("select-eintr");
        /* tell the driver that this quiescent point ended through a signal */
        real_write(ctlfd, "I\n", 2);
        errno = EINTR; return -1;
      }
      k = real_read(ctlfd, rep, 1);
      sigprocmask(SIG_SETMASK, &old, 0);
      if (k <= 0) raise(SIGKILL);
      if (rep[0] == 'T') {       /* pretend the timeout elapsed */
        fd_set r2 = r0, w2 = w0; z.tv_sec = 0; z.tv_usec = 0;
        r = real_select(nfds, rf ? &r2 : 0, wf ? &w2 : 0, 0, &z);
        if (rf) *rf = r2; if (wf) *wf = w2; if (ef) FD_ZERO(ef);
        tr("select\t%ld\t%d\tTIMEOUT", tmo, r);
        return r;
      }
      if (rep[0] == 'W') {       /* wait for real readiness (a helper process owes an answer) */
        fd_set r2 = r0, w2 = w0; struct timeval w; w.tv_sec = 20; w.tv_usec = 0;
        r = real_select(nfds, rf ? &r2 : 0, wf ? &w2 : 0, 0, &w);
        if (r > 0) { if (rf) *rf = r2; if (wf) *wf = w2; if (ef) FD_ZERO(ef); tr("select\t%ld\t%d\tWAITED", tmo, r); return r; }
        if (r < 0) return r;
        continue;
      }
      /* 'R': re-poll */
    }
  }
}
