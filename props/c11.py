"""C11 - Local deliveries run as exactly the user the address belongs to, never root.

Part A (whole programs): Hypothesis generates a users/assign table, a passwd database with home directories
(existing / missing / owned by somebody else; real chown, we are root in the sandbox) and local parts derived
from both.  The REAL qmail-newu compiles the table, the REAL qmail-lspawn (the driver plays qmail-send on fd 0/1)
resolves every address with the REAL qmail-getpw, and shim/standin is installed as bin/qmail-local: its record
gives the exact argv and the credential state accumulated by the shim; the shim trace gives the order of
setgroups/setgid/setuid/exec.  Oracle = independent model of qmail-users.9 / qmail-getpw.9 (DESIGN.md 5/C11).
After the intact run the same addresses are delivered again with users/cdb truncated (a few cuts in header/records
- they all defer, the break-character record is the last one - and a spread sample of cuts inside the hash tables in
the quick tier, every cut inside the hash tables for a share of the scenarios in the thorough tier), replaced by a
directory, and under
single lookup faults (getpwnam ETXTBSY, stat EIO in qmail-getpw, failing setgroups/setgid/setuid): the delivery
must be the same as with the intact file or be deferred (Z) - never D, never another user, never an exec with
half-switched credentials.  Malformed tables (missing "." line, NUL, missing colon fields) must be refused by
qmail-newu and leave users/cdb byte-identical.

Part B (in-process, inproc/c11_cdb.c): writer<->reader differential of the cdb code: seeded key/value multisets
(duplicate keys, empty key, 0..300-byte keys, > 256 records, keys forced into one hash table so that the probe
wraps around) written with cdbmss_*/cdbmake_* and read back with cdb_seek/cdb_bread: every stored key returns its
FIRST value, absent keys (near misses included) return 0.

A violation found by the search is re-executed twice more and counts only if it reproduces 3/3 (DESIGN.md section 1).

Left out relative to the design: rapidcheck is replaced by a seeded generator (same domain); qmail-pw2u is not
exercised; random byte flips of users/cdb belong to C20."""
import os, re, json, shutil, subprocess
from lib import vlib, sandbox, inproc
from hypothesis import strategies as st
from props import c11_tools

LEVEL = "exploration"
RULE = ("Hypothesis draws (users/assign lines over a pool of local parts with shared prefixes, passwd accounts with home states, "
        "alias variant, local parts derived from every table entry/account: exact, extended, case-flipped, one char short/long); "
        "one case = one delivery command given to the real qmail-lspawn (intact cdb, truncated cdb or single lookup fault). "
        "Non-trivial = at least two table lines (or two passwd prefixes naming an account) apply to the address; distinct = "
        "(table digest, local part, mode). The cdb differential counts one case per database written and read back; non-trivial "
        "= it contains a duplicate key or a wrapped probe sequence.")
ASSUMPTIONS = ["identity is virtualised by the LD_PRELOAD shim: set*id calls are recorded (and getuid answers from the record) instead of performed",
               "home directory ownership is real (chown as root inside the sandbox); qmail-getpw sees every directory (we are root)",
               "lines of users/assign whose first character is neither '=', '+' nor '.' are not generated (qmail-users.9 does not define them); "
               "fields contain no ':'; uid/gid fields are plain decimal numbers below 2^31, plus the uids 2^32 and 2*2^32 (zero as a 32-bit uid_t: must be refused like uid 0)",
               "cdb damage = truncation / replacement by a directory; random byte flips are C20's domain",
               "one injected fault per lspawn session"]

AE = b"./Mailbox"          # aliasempty / defaultdelivery argument


# ------------------------------------------------------------------ model (qmail-users.9, qmail-getpw.9)

def fields(e):
    return [vlib.unjson(e[k]) if not isinstance(e[k], int) else b"%d" % e[k] for k in ("user", "uid", "gid", "home", "dash", "ext")]


def assign_text(lines, bad=None):
    """users/assign bytes for structured lines (+ optional malformation)."""
    out = []
    for e in lines:
        f = fields(e)
        out.append(e["kind"].encode() + vlib.unjson(e["local"]) + b":" + b":".join(f) + b":\n")
    if bad:
        k = bad["kind"]
        if k == "nodot":
            return b"".join(out)
        i = bad["at"] % len(out) if out else 0
        if k == "nul" and out:
            l = out[i]
            p = bad["pos"] % (len(l) - 1)
            out[i] = l[:p + 1] + b"\0" + l[p + 1:]
        elif k == "fewcolons" and out:
            # drop the last n colon-terminated fields (keeps the newline): fewer than 7 colons on the line
            l = out[i][:-1]
            parts = l.split(b":")           # 8 parts, last one empty
            keep = 1 + bad["pos"] % 6       # 1..6 colons remain
            out[i] = b":".join(parts[:keep]) + b":\n"
        elif k == "nocolon" and out:
            out[i] = out[i][:-1].replace(b":", b"") + b"\n"
    return b"".join(out) + b".\n"


class Acct:
    __slots__ = ("name", "uid", "gid", "home", "exists", "owner")

    def __init__(s, name, uid, gid, home, exists, owner):
        s.name, s.uid, s.gid, s.home, s.exists, s.owner = name, uid, gid, home, exists, owner


def pw_lookup(pw, name):
    for a in pw:            # getpwnam: first entry with exactly this name
        if a.name == name:
            return a
    return None


def model(tab, pw, alias_name, brk, local):
    """-> dict(kind='trash'|'exec'|'root'|'defer', user,uid,gid,home,dash,ext, path, napp, stat_first, names)
    tab = list of assign lines or None when there is no users/cdb."""
    if local == b"":
        return {"kind": "trash", "path": "trash", "napp": 0}        # qmail-lspawn.8: empty mailbox name = trash address
    low = local.lower()                                              # bytes.lower(): ASCII only, like case_lowerb
    res = None
    napp = 0
    if tab is not None:
        exact = [e for e in tab if e["kind"] == "=" and vlib.unjson(e["local"]).lower() == low]
        wild = [e for e in tab if e["kind"] == "+" and low.startswith(vlib.unjson(e["local"]).lower())]
        napp = len(exact) + len(wild)
        if exact:                                                    # "a simple assignment overrides any wildcard"; first duplicate wins
            e = exact[0]
            f = fields(e)
            res = {"path": "exact", "user": f[0], "uid": e["uid"], "gid": e["gid"], "home": f[3], "dash": f[4], "ext": f[5]}
        elif wild:                                                   # "a more specific wildcard overrides a less specific"
            best = max(len(vlib.unjson(e["local"])) for e in wild)
            e = [e for e in wild if len(vlib.unjson(e["local"])) == best][0]
            f = fields(e)
            res = {"path": "wild", "user": f[0], "uid": e["uid"], "gid": e["gid"], "home": f[3], "dash": f[4],
                   "ext": f[5] + local[best:]}                       # "=locext:...:preext:" - ext as given in the address
    names = []          # account names qmail-getpw has to look up before it decides, in order
    stat_first = None   # first account whose home directory has to be examined
    if res is None:
        napp2 = 0
        for cut in range(len(local), -1, -1):
            if cut != len(local) and local[cut:cut + 1] != brk:
                continue
            if cut >= 32:                                            # "assumes that all account names are shorter than 32 characters"
                continue
            name = local[:cut].lower()                               # "ignores account names containing uppercase letters"
            a = pw_lookup(pw, name)
            if res is None:
                names.append(name)
            if a is None:
                continue
            napp2 += 1
            if res is not None:
                continue                                             # only counting further applicable prefixes
            if a.uid == 0:                                           # (1) nonzero uid
                continue
            if stat_first is None:
                stat_first = name
            if not a.exists:                                         # (2) home exists
                continue
            if a.owner != a.uid:                                     # (3) owns its home
                continue
            res = {"path": "pwuser", "user": a.name, "uid": a.uid, "gid": a.gid, "home": a.home,
                   "dash": b"-" if cut < len(local) else b"", "ext": local[cut + 1:], "acct": a.name}
        napp = max(napp, napp2)
        if res is None:
            a = pw_lookup(pw, alias_name)
            names.append(alias_name)
            if a is None:
                return {"kind": "defer", "path": "noalias", "napp": napp, "names": names, "stat_first": stat_first}
            res = {"path": "alias", "user": a.name, "uid": a.uid, "gid": a.gid, "home": a.home, "dash": b"-", "ext": local, "acct": a.name}
    res["kind"] = "root" if res["uid"] % (1 << 32) == 0 else "exec"      # the uid the process would really get is uid mod 2^32
    res["napp"] = napp
    res["names"] = names
    res["stat_first"] = stat_first
    return res


# ------------------------------------------------------------------ running qmail-lspawn

def cdb_hash(key):
    h = 5381
    for c in key:
        h = ((h + (h << 5)) ^ c) & 0xffffffff
    return h


class Runner:
    def __init__(self, tree, wid):
        self.tree = tree
        self.root = os.path.join(vlib.scratch_root(), "c11-%s" % wid)
        self.h = sandbox.Home(tree, os.path.join(self.root, "home"))
        h = self.h
        self.shim, self.standin = c11_tools.private_tools()
        h.link_bins(overrides={"qmail-local": self.standin})
        self.brk = tree.conf("conf-break")[:1].encode("latin-1")
        self.rec = os.path.join(self.root, "rec")
        os.makedirs(self.rec, exist_ok=True)
        self.homes = os.path.join(self.root, "homes")
        os.makedirs(self.homes, exist_ok=True)
        self.syslines = [l for l in open(h.passwd).read().split("\n") if l]
        self.alias_name = h.usernames["a"].encode()
        self.n = 4242
        p = h.qpath("mess", self.n)
        open(p, "wb").write(b"Subject: x\n\nbody\n")
        os.chown(p, h.uids["q"], h.gids["q"])
        self.messid = b"%d/%d" % (self.n % h.split, self.n)
        self.cdb = os.path.join(h.dir, "users", "cdb")
        self.assign = os.path.join(h.dir, "users", "assign")
        self.sess = None
        self.auto_spawn = int(tree.conf("conf-spawn"))

    # -- world construction
    def setup(self, sc):
        h = self.h
        pw = []
        lines = []
        adir = os.path.join(h.dir, "alias")
        av = sc["alias"]
        for l in self.syslines:
            f = l.split(":")
            name = f[0].encode()
            uid, gid, home = int(f[2]), int(f[3]), f[5]
            if name == self.alias_name:
                if av == "missing":
                    continue
                if av == "uid0":
                    uid = 0
                owner = uid if av == "owned" else 0
                os.chown(adir, owner, 0)
                pw.append(Acct(name, uid, gid, home.encode(), True, owner))
                lines.append("%s:x:%d:%d::%s:/bin/sh" % (f[0], uid, gid, home))
            else:
                pw.append(Acct(name, uid, gid, home.encode(), True, 0))
                lines.append(l)
        seen = {a.name for a in pw} | {self.alias_name}
        for i, a in enumerate(sc["passwd"]):
            name = vlib.unjson(a["name"])
            if name in seen:
                continue
            seen.add(name)
            d = os.path.join(self.homes, "h%d" % i)
            state = a["home"]
            for p_ in (d, d + "-real"):          # left over from the previous scenario (a directory or a link)
                if os.path.islink(p_):
                    os.unlink(p_)
                elif os.path.isdir(p_):
                    shutil.rmtree(p_)
            if state == "missing":
                d = d + "-missing"
                owner, exists = None, False
            elif state.startswith("link"):
                # the passwd entry names a symbolic link made by root (/home/joe -> /export/home/joe): what counts is the directory behind it
                real = d + "-real"
                if state == "link_dangling":
                    os.symlink(real + "-nowhere", d)
                    owner, exists = None, False
                else:
                    os.makedirs(real, exist_ok=True)
                    owner = a["uid"] if state == "link_own" else a["uid"] + 1
                    os.chown(real, owner, a["gid"])
                    os.symlink(real, d)
                    exists = True
                os.lchown(d, 0, 0)
            else:
                os.makedirs(d, exist_ok=True)
                owner = a["uid"] if state == "own" else (a["uid"] + 1 if state == "other" else 0)
                os.chown(d, owner, a["gid"])
                exists = True
            pw.append(Acct(name, a["uid"], a["gid"], d.encode(), exists, owner))
            lines.append("%s:x:%d:%d::%s:/bin/sh" % (name.decode("latin-1"), a["uid"], a["gid"], d))
        with open(h.passwd, "w", encoding="latin-1") as f:
            f.write("\n".join(lines) + "\n")
        self.pw = pw

    def newu(self, data):
        open(self.assign, "wb").write(data)
        rc, out, err = sandbox.run_proc([self.tree.path("qmail-newu")], self.h.env(role="newu", trace=False, LD_PRELOAD=self.shim))
        return rc, err

    # -- one qmail-lspawn session
    def start(self, **extra):
        self.stop()
        env = self.h.env(role="ls", uid=0, gid=0, **dict(sandbox.standin_env(self.rec), LD_PRELOAD=self.shim, **extra))
        open(self.h.trace, "wb").close()
        self.sess = sandbox.Session([self.tree.path("qmail-lspawn"), AE.decode()], env)
        first = self.sess.read_until(lambda b: 1 if b else None)
        if first is None:
            return None
        if first != bytes([self.auto_spawn]):
            raise vlib.HarnessError("qmail-lspawn did not announce its concurrency: %r" % first)
        return True

    def stop(self):
        if self.sess is not None:
            self.sess.close_stdin()
            self.sess.kill()
            self.sess = None

    def batch(self, locals_, domain=b"d.example"):
        """Deliver to every local part; -> list of (report bytes, record or None, child events, getpw events) or None on watchdog."""
        s = self.sess
        for f in os.listdir(self.rec):
            os.unlink(os.path.join(self.rec, f))
        os.truncate(self.h.trace, 0)
        n = len(locals_)
        if n == 0:
            return []
        data = b""
        for k, loc in enumerate(locals_):
            data += bytes([k]) + self.messid + b"\0" + b"s%d@s.example\0" % k + loc + b"@" + domain + b"\0"
        if not s.send(data):
            return None
        reports = {}

        def pred(b):
            i = 0
            cnt = 0
            while i + 1 < len(b):
                j = b.find(b"\0", i + 1)
                if j < 0:
                    break
                cnt += 1
                i = j + 1
            return i if cnt >= n else None
        raw = s.read_until(pred)
        if raw is None or s.eof:
            return None
        i = 0
        while i + 1 < len(raw):
            j = raw.find(b"\0", i + 1)
            if j < 0:
                break
            reports.setdefault(raw[i], []).append(raw[i + 1:j])
            i = j + 1
        ev = self.h.read_trace()
        main = self.sess.p.pid
        kids = [int(e["a"][0]) for e in ev if e["pid"] == main and e["call"] == "fork" and e["a"] and e["a"][0].isdigit()]
        if len(kids) != n:
            raise vlib.HarnessError("trace shows %d forks of qmail-lspawn for %d commands" % (len(kids), n))
        bypid = {}
        for e in ev:
            bypid.setdefault(e["pid"], []).append(e)
        recs = {r["pid"]: r for r in sandbox.standin_records(self.rec)}
        out = []
        for k in range(n):
            kev = bypid.get(kids[k], [])
            gk = [int(e["a"][0]) for e in kev if e["call"] == "fork" and e["a"] and e["a"][0].isdigit()]
            gev = [bypid.get(g, []) for g in gk]
            out.append((reports.get(k, []), recs.get(kids[k]), kev, gev))
        if set(recs) - set(kids):
            raise vlib.HarnessError("stand-in records from unknown processes: %r" % (set(recs) - set(kids)))
        return out


IDCALLS = ("setgroups", "setgid", "setuid", "initgroups", "exec")


def idseq(events):
    return [(e["call"],) + tuple(e["a"]) for e in events if e["call"] in IDCALLS]


def judge(r, m, local, obs, mode, domain=b"d.example", k=0):
    """mode: 'intact' (must equal the model), 'damaged' (model's outcome or a Z report), 'mustdefer' (Z, no exec).
    -> (violation or None, class)"""
    reports, rec, kev, gev = obs
    h = r.h
    if len(reports) != 1:
        return "expected exactly one report for the delivery, got %r" % (reports,), "bad"
    rep = reports[0]
    ids = idseq(kev)
    execs = [x for x in ids if x[0] == "exec"]
    # qmail-getpw runs only after setgroups/setgid(nofiles)/setuid(qmailp)
    gidn, uidp = h.gids["n"], h.uids["p"]
    for ge in gev:
        gi = idseq(ge)
        ex = [x for x in gi if x[0] == "exec"]
        if not ex:
            continue
        want = [("setgroups", str(gidn), "0"), ("setgid", str(gidn), "0"), ("setuid", str(uidp), "0")]
        i = gi.index(ex[0])
        if ex[0][2] != "bin/qmail-getpw":
            return "grandchild of qmail-lspawn executes %r" % (ex[0],), "bad"
        if gi[:i] != want or ex[0][1] != "%d:%d:%d" % (uidp, gidn, gidn):
            return "qmail-getpw started without dropping to %d:%d first: identity calls %r" % (uidp, gidn, gi[:i + 1]), "bad"
        if len(gi) != i + 1:
            return "qmail-getpw changes identity: %r" % (gi,), "bad"
    if rep[:1] not in (b"K", b"Z", b"D"):
        return "report %r does not start with K, Z or D" % rep[:40], "bad"
    if m["kind"] == "trash":
        if rec is not None or execs:
            return "empty mailbox name (trash address) but a program was executed: %r" % (execs,), "bad"
        if rep[:1] != b"K":
            return "empty mailbox name (trash address) reported as %r" % rep[:40], "bad"
        return None, "trash"
    deferred = rep[:1] == b"Z" and rec is None and not [x for x in execs if x[2] == "bin/qmail-local"]
    if rep[:1] == b"D":
        return "delivery to %r bounced (%r): lookup problems must defer" % (local, rep[:60]), "bad"
    if mode == "mustdefer" or m["kind"] in ("root", "defer"):
        if not deferred:
            why = {"root": "the address belongs to uid 0", "defer": "there is no alias user"}.get(m["kind"]) if mode != "mustdefer" else "a lookup/identity fault was injected"
            return ("%s, expected a Z report and no qmail-local; got report %r, argv %r, identity calls %r"
                    % (why, rep[:60], rec and rec.get("argv"), ids)), "bad"
        return None, ("root_refused" if m["kind"] == "root" else "deferred")
    if deferred and mode == "damaged":
        return None, "damaged_deferred"
    # an exec of qmail-local is expected (or happened): it must be exactly the model's
    want_argv = [b"bin/qmail-local", b"--", m["user"], m["home"], local, m["dash"], m["ext"], domain, b"s%d@s.example" % k, AE]
    if rec is None:
        return ("no qmail-local was started for %r (report %r); expected user %r uid %d ext %r via %s"
                % (local, rep[:60], m["user"], m["uid"], m["ext"], m["path"])), "bad"
    if rec.get("argv") != want_argv:
        return "qmail-local argv %r, expected %r (via %s)" % (rec.get("argv"), want_argv, m["path"]), "bad"
    cred = "%d:%d:%d" % (m["uid"], m["gid"], m["gid"])
    if rec.get("meta", {}).get("cred") != cred or rec["meta"].get("uid") != str(m["uid"]):
        return "qmail-local runs with credentials %r (uid %s), expected %s" % (rec.get("meta", {}).get("cred"), rec.get("meta", {}).get("uid"), cred), "bad"
    want_ids = [("setgroups", str(m["gid"]), "0"), ("setgid", str(m["gid"]), "0"), ("setuid", str(m["uid"]), "0")]
    if len(ids) != 4 or ids[:3] != want_ids or ids[3][0] != "exec" or ids[3][1] != cred or ids[3][2] != "bin/qmail-local":
        return "identity calls before qmail-local are %r, expected setgroups,setgid,setuid then exec as %s" % (ids, cred), "bad"
    if rep[:1] != b"K":
        return "qmail-local (stand-in, exit 0) ran but the report is %r" % rep[:40], "bad"
    return None, "exec_" + m["path"]


def trunc_lengths(size, cdbbytes, keys, tape, every, cap):
    """Truncation lengths for users/cdb. The record for the empty key (wildcard break characters) is the LAST record, so every
    cut before the end of the records defers at once; the cuts that can change a lookup lie in the hash tables after the
    records. All of that region in the thorough tier (when the scenario asks), a spread sample of it otherwise."""
    tstart = size
    for t in range(256):
        pos = int.from_bytes(cdbbytes[8 * t:8 * t + 4], "little")
        if int.from_bytes(cdbbytes[8 * t + 4:8 * t + 8], "little") and pos < tstart:
            tstart = pos
    coarse = {0, 2047, max(tstart - 1, 0)}
    for key in keys[:1]:
        coarse.add(8 * (cdb_hash(key) & 255) + 3)
    for t in tape[:1]:
        coarse.add(t % max(tstart, 1))
    region = list(range(tstart, size))
    if not every and len(region) > cap:
        # spread sample, the tape shifts the phase
        step = len(region) / float(cap)
        ph = (tape[2] if len(tape) > 2 else 0) % max(int(step), 1)
        region = sorted({region[min(len(region) - 1, int(i * step) + ph)] for i in range(cap)} | {size - 1, size - 4, size - 8})
    return sorted(x for x in coarse if 0 <= x < size) + [x for x in region if 0 <= x < size]


def run_scenario(r, sc, stats, thorough=False):
    """Returns a violation message or None."""
    h = r.h
    brk = r.brk
    r.setup(sc)
    tab = sc["assign"] if sc["cdb"] else None
    locals_ = [vlib.unjson(x) for x in sc["locals"]][:60]
    tkey = vlib.digest([sc["assign"] if sc["cdb"] else None, sc["passwd"], sc["alias"]])[:16]
    try:
        if os.path.isdir(r.cdb):
            shutil.rmtree(r.cdb)
        elif os.path.exists(r.cdb):
            os.unlink(r.cdb)
        if sc["cdb"]:
            rc, err = r.newu(assign_text(sc["assign"]))
            if rc is None:
                stats.inconclusive += 1
                return None
            if rc != 0 or not os.path.exists(r.cdb):
                return "qmail-newu refused a well-formed table (exit %s, %r)" % (rc, err[:100])
            stats.cls("newu_ok")
        good = open(r.cdb, "rb").read() if sc["cdb"] else None
        bad = sc.get("bad")
        if bad and (bad["lines"] or bad["kind"] == "nodot"):
            rc, err = r.newu(assign_text(bad["lines"], bad))
            if rc is None:
                stats.inconclusive += 1
                return None
            now = open(r.cdb, "rb").read() if os.path.exists(r.cdb) else None
            stats.case(scenario=None, nontrivial=good is not None, classes=["newu_bad_" + bad["kind"]], key=("bad", vlib.digest(bad)))
            if rc == 0:
                return "qmail-newu accepted a malformed table (%s): %r" % (bad["kind"], assign_text(bad["lines"], bad)[:200])
            if now != good:
                return "qmail-newu refused the table (exit %d) but users/cdb changed" % rc
        ms = [model(tab, r.pw, r.alias_name, brk, l) for l in locals_]

        def record(l, m, mode, cls):
            stats.case(scenario={"assign": tab, "passwd": sc["passwd"], "alias": sc["alias"], "local": vlib.jsonable(l), "mode": mode},
                       nontrivial=m["napp"] >= 2, classes=[mode + ":" + cls], key=(tkey, vlib.jsonable(l), mode))

        # 1. intact
        if r.start() is None:
            stats.inconclusive += 1
            return None
        obs = r.batch(locals_)
        if obs is None:
            stats.inconclusive += 1
            return None
        for k, (l, m) in enumerate(zip(locals_, ms)):
            v, cls = judge(r, m, l, obs[k], "intact", k=k)
            record(l, m, "intact", cls)
            if v:
                return v + " | local=%r" % l
        # 2. damaged users/cdb (same session: the file is opened per delivery)
        if good is not None and locals_:
            sel = [i for i in range(len(locals_)) if ms[i]["kind"] != "trash"]
            pick = sc.get("pick", [])
            chosen = []
            for t in pick[:4]:
                if sel:
                    chosen.append(sel[t % len(sel)])
            chosen = sorted(set(chosen)) or sel[:2]
            sub = [locals_[i] for i in chosen]
            subm = [ms[i] for i in chosen]
        if good is not None and locals_ and sub:
            keys = [b"!" + l.lower() + b"\0" for l in sub] + [b"!" + l.lower() for l in sub] + [b"!"]
            lens = trunc_lengths(len(good), good, keys, sc.get("trunc", []), thorough and sc.get("every"), 40 if thorough else 16)
            for ln in lens + ["dir"]:
                os.unlink(r.cdb)
                if ln == "dir":
                    os.mkdir(r.cdb)
                else:
                    open(r.cdb, "wb").write(good[:ln])
                obs = r.batch(sub)
                if obs is None:
                    stats.inconclusive += 1
                    return None
                for k, (l, m) in enumerate(zip(sub, subm)):
                    v, cls = judge(r, m, l, obs[k], "damaged", k=k)
                    record(l, m, "cdbdir" if ln == "dir" else "trunc", cls)
                    if v:
                        return v + " | users/cdb %s; local=%r" % ("replaced by a directory" if ln == "dir" else "truncated to %d of %d bytes" % (ln, len(good)), l)
            os.rmdir(r.cdb)
            open(r.cdb, "wb").write(good)
        r.stop()
        # 3. single faults
        for ft in sc.get("faults", []):
            sub = locals_[:24]
            subm = ms[:24]
            extra = {}
            if ft["kind"] == "pwfail":
                # the account the address resolves to answers ETXTBSY
                cands = [m for m in subm if m.get("path") == "pwuser"] or [m for m in subm if m.get("acct")]
                if not cands:
                    continue
                name = cands[ft["i"] % len(cands)]["acct"]
                extra["VSHIM_PWFAIL"] = os.fsdecode(name)
            elif ft["kind"] == "stat":
                extra["VSHIM_FAULT"] = "qmail-getpw:stat:0:5"
            else:
                extra["VSHIM_FAULT"] = "qmail-lspawn:%s:0:1" % ft["kind"]
            if r.start(**extra) is None:
                stats.inconclusive += 1
                return None
            obs = r.batch(sub)
            r.stop()
            if obs is None:
                stats.inconclusive += 1
                return None
            for k, (l, m) in enumerate(zip(sub, subm)):
                if m["kind"] == "trash":
                    mode = "intact"
                elif ft["kind"] == "pwfail":
                    mode = "mustdefer" if name in m.get("names", []) else "intact"
                elif ft["kind"] == "stat":
                    mode = "mustdefer" if m.get("stat_first") is not None and m["path"] in ("pwuser", "alias", "noalias") else "intact"
                else:
                    mode = "mustdefer"
                v, cls = judge(r, m, l, obs[k], mode, k=k)
                record(l, m, "fault_" + ft["kind"], cls if mode == "mustdefer" else "unaffected")
                if v:
                    return v + " | fault=%s %r; local=%r" % (ft["kind"], extra, l)
    finally:
        r.stop()
        if os.path.isdir(r.cdb):
            shutil.rmtree(r.cdb, ignore_errors=True)
    return None


# ------------------------------------------------------------------ generators

STEMS = [b"joe", b"j", b"list", b"bob", b"a", b"jo", b"x1", b"m\xe9", b"ann"]


def flip(b, mode):
    if mode == 0:
        return b
    if mode == 1:
        return b.upper()
    if mode == 2:
        return b[:1].upper() + b[1:]
    if mode == 3:
        return b[:-1] + b[-1:].upper()
    return b.swapcase() if mode == 4 else bytes(c ^ 32 if (i % 2 and chr(c).isalpha() and c < 128) else c for i, c in enumerate(b))


def scenarios(brk):
    B = brk
    sufs = [b"", b"", B, B + b"a", B + b"a" + B, b"x", B + B, b".", B + b"a" + B + b"b", b"A", B + b"A", b"+"]

    @st.composite
    def gen(draw):
        stems = draw(st.lists(st.sampled_from(STEMS), min_size=1, max_size=3, unique=True))
        focus = draw(st.sampled_from(["table", "table", "passwd", "mixed"]))
        namest = st.builds(lambda s, x, f: flip(s + x, f), st.sampled_from(stems), st.sampled_from(sufs), st.sampled_from([0, 0, 0, 1, 2, 3, 4, 5]))
        nlines = draw(st.integers(0, 2 if focus == "passwd" else 8))
        lines = []
        for i in range(nlines):
            kind = draw(st.sampled_from(["=", "+", "+"]))
            loc = draw(namest)
            if kind == "+" and draw(st.integers(0, 11)) == 0:
                loc = b""
            # 2^32 and 2*2^32 are well-formed decimal uids that become 0 when stored in a 32-bit uid_t: "never root" must hold for them too
            uid = draw(st.sampled_from([0] + [1000 + i] * 9 + [1, 65534, 2147483647, 4294967296, 8589934592]))
            lines.append({"kind": kind, "local": vlib.jsonable(loc),
                          "user": vlib.jsonable(draw(st.sampled_from([b"u%d" % i, b"u%d" % i, b"joe", b"root", b"U" + B + b"%d" % i, b""]))),
                          "uid": uid, "gid": draw(st.sampled_from([2000 + i] * 6 + [0, 100])),
                          "home": vlib.jsonable(draw(st.sampled_from([b"/home/e%d" % i, b"/home/e%d" % i, b"/", b"/h" + B + b"%d/sub dir" % i]))),
                          "dash": vlib.jsonable(draw(st.sampled_from([b"", B, b"-", b"+"]))),
                          "ext": vlib.jsonable(draw(st.sampled_from([b"", b"", b"x", b"pre" + B, b"Ext", B])))})
        cdb = draw(st.sampled_from([True, False] if focus == "passwd" else [True, True, True, False]))
        naccts = draw(st.integers(1, 6) if focus != "table" else st.integers(0, 3))
        astems = stems + ([draw(st.sampled_from(STEMS))] if focus != "table" else [])
        accts = []
        for i in range(naccts):
            nm = draw(st.one_of(st.builds(lambda s, x: (s + x).lower(), st.sampled_from(astems), st.sampled_from(sufs)),
                                st.builds(lambda s, x: (s + x).lower(), st.sampled_from(astems), st.sampled_from(sufs)),
                                st.builds(lambda s, x: (s + x).lower(), st.sampled_from(astems), st.sampled_from(sufs)),
                                st.builds(lambda s, x: flip(s + x, 2), st.sampled_from(astems), st.sampled_from(sufs)),
                                st.builds(lambda s, n: (s + B + b"y" * 40)[:n], st.sampled_from(astems), st.sampled_from([30, 31, 32, 33]))))
            if b":" in nm or not nm:
                nm = b"acct%d" % i
            accts.append({"name": vlib.jsonable(nm), "uid": draw(st.sampled_from([0] + [8000 + i] * 7)), "gid": 9000 + i,
                          "home": draw(st.sampled_from(["own", "own", "own", "own", "other", "root", "missing", "link_own", "link_own", "link_other", "link_dangling"]))})
        alias = draw(st.sampled_from(["present"] * 5 + ["owned", "owned", "missing", "uid0"]))
        # local parts: derived from every entry and account
        bases = [vlib.unjson(l["local"]) for l in lines] + [vlib.unjson(a["name"]) for a in accts] * (3 if focus == "passwd" else 1) + stems + [b"alias"]
        exts = [b"", b"", B + b"foo", b"foo", B + b"Foo" + B + b"Bar", B, b"x", B + b"a", b"A", b"@b", b"\xff", B + b"y" * 40]
        loc1 = st.builds(lambda b, e, f, cut: (flip(b, f) + e)[:len(b + e) - cut] if cut < len(b + e) else b + e,
                         st.sampled_from(bases), st.sampled_from(exts), st.sampled_from([0, 0, 0, 1, 2, 3, 4, 5]), st.sampled_from([0, 0, 0, 0, 0, 1]))
        rnd = st.binary(min_size=0, max_size=12).map(lambda b: b.replace(b"\0", b"n"))
        nloc = draw(st.integers(1, 14))
        locs = [draw(st.one_of(loc1, loc1, loc1, loc1, loc1, loc1, rnd)) for _ in range(nloc)]
        # always deliver to every entry's own local part as well (exact form)
        locs += [vlib.unjson(l["local"]) for l in lines if draw(st.booleans())]
        sc = {"assign": lines, "cdb": cdb, "passwd": accts, "alias": alias, "locals": [vlib.jsonable(l) for l in locs],
              "pick": draw(st.lists(st.integers(0, 1000), min_size=3, max_size=3)),
              "trunc": draw(st.lists(st.integers(0, 100000), min_size=4, max_size=4)),
              "every": draw(st.sampled_from([False] * 7 + [True])),
              "faults": draw(st.lists(st.fixed_dictionaries({"kind": st.sampled_from(["pwfail", "stat", "setuid", "setgid", "setgroups"]),
                                                             "i": st.integers(0, 20)}), max_size=2))}
        if draw(st.integers(0, 3)) == 0:
            src = lines if (lines and draw(st.booleans())) else [dict(lines[0], local=vlib.jsonable(b"other"))] if lines else []
            kind = draw(st.sampled_from(["nodot", "nul", "fewcolons", "nocolon"]))
            sc["bad"] = {"kind": kind, "lines": src, "at": draw(st.integers(0, 7)), "pos": draw(st.integers(0, 60))}
        return sc
    return gen()


def regress_scenarios():
    out = []
    d = os.path.join(vlib.VERIF, "corpus", "C11", "regress")
    if os.path.isdir(d):
        for f in sorted(os.listdir(d)):
            if f.endswith(".json"):
                j = json.load(open(os.path.join(d, f)))
                out.append(j.get("scenario", j))
    return out


def worker(job):
    tree, wid, seed, nex, tier, reg = job
    stats = vlib.Stats()
    r = Runner(tree, wid)
    for sc in reg:
        v = run_scenario(r, sc, stats, thorough=True)
        stats.cls("regress_files")
        if v:
            stats.violations.append((v, sc))
            return stats

    def runfn(sc, stats):
        v = run_scenario(r, sc, stats, thorough=(tier == "thorough"))
        if v:
            # DESIGN.md section 1: a violation counts only if it reproduces 3/3 (same scenario, fresh processes)
            again = [run_scenario(r, sc, vlib.Stats(), thorough=(tier == "thorough")) for _ in range(2)]
            if any(a is None for a in again):
                stats.inconclusive += 1
                stats.cls("unreproducible_violation")
                stats.extra["unreproducible_example"] = {"msg": v[:600], "reruns": [a and a[:200] for a in again], "scenario": vlib.jsonable(sc)}
                return None
        return v
    if nex:
        vlib.hyp_search(scenarios(r.brk), runfn, nex, seed, stats)
    return stats


# ------------------------------------------------------------------ cdb differential (in-process)

def build_cdb(tree):
    tree.make("qmail-newu", "qmail-lspawn")
    out = tree.path("c11-cdb")
    libs = "cdbmss.o cdbmake.a cdb.a substdio.a error.a str.a"
    inproc.link(tree, out, [os.path.join(vlib.VERIF, "inproc/c11_cdb.c")], libs)
    return out


def run_cdb(ctx, tree):
    binp = build_cdb(tree)
    d = os.path.join(vlib.scratch_root(), "c11-cdbfiles")
    os.makedirs(d, exist_ok=True)
    cnt = ctx.n(900, 20000)
    cmds = [[binp, "--rand", str(vlib.subseed(ctx.seed, "c11cdb", i)), str(cnt), os.path.join(d, "f%d" % i)] for i in range(vlib.NCPU)]
    res = inproc.run_shards(cmds)
    viols = inproc.merge_c_stats(ctx, res, "cdb")
    for v in viols:
        ctx.stats.violations.append(("cdb writer/reader differential: " + v[:1200], {"kind": "cdb", "case": v[:4000]}))


def replay_cdb(ctx, tree, case):
    binp = build_cdb(tree)
    m = re.match(r"seed=(\d+) index=(\d+)", case)
    if not m:
        return ["unparsable cdb case: " + case[:200]]
    f = os.path.join(vlib.scratch_root(), "c11-replay-cdb")
    p = subprocess.run([binp, "--one", m.group(1), m.group(2), f], stdout=subprocess.PIPE, stderr=subprocess.STDOUT,
                       env=dict(os.environ, ASAN_OPTIONS="detect_leaks=0"))
    out = p.stdout.decode(errors="replace")
    _, v = inproc.parse_stats(out)
    if p.returncode == 0:
        return []
    return v or ["cdb harness crashed: " + out[-800:]]


# ------------------------------------------------------------------ entry points

def run(ctx):
    sandbox.ensure_shim()
    c11_tools.private_tools()
    tree = vlib.Tree().make("qmail-lspawn", "qmail-getpw", "qmail-newu")
    only = getattr(ctx, "only", None)
    if not only or "cdb" in only:
        run_cdb(ctx, tree)
    if not only or "lspawn" in only:
        reg = regress_scenarios()
        nw = vlib.NCPU
        per = ctx.n(380, 2400)
        jobs = [(tree, i, vlib.subseed(ctx.seed, "c11", i), per, ctx.tier, reg[i::nw]) for i in range(nw)]
        ctx.stats.merge(vlib.run_workers(worker, jobs))
    ctx.notes["conf_break"] = tree.conf("conf-break")[:1]
    if (not only or "lspawn" in only) and not ctx.stats.violations:
        # the documented compile-time delimiter (conf-break) set to '+': user+ext addresses; the dash handed to qmail-local for a password-file
        # user is still a hyphen (qmail-getpw.8), assignments and their wildcards follow the table (added after seeded change C11-M)
        t2 = break_tree()
        if t2 is not None:
            jobs = [(t2, "b%d" % i, vlib.subseed(ctx.seed, "c11-break", i), ctx.n(60, 600), ctx.tier, []) for i in range(vlib.NCPU)]
            st2 = vlib.run_workers(worker, jobs)
            st2.violations = [("build with conf-break '+': " + m, dict(sc_, conf_break="+") if isinstance(sc_, dict) else sc_) for m, sc_ in st2.violations]
            ctx.stats.merge(st2)
            ctx.stats.cls("conf_break_plus_build_cases", st2.evaluations)
    # generator health: every class named in the quantifier must have been exercised
    if not only:
        need = ["intact:exec_exact", "intact:exec_wild", "intact:exec_pwuser", "intact:exec_alias", "intact:root_refused", "intact:deferred",
                "trunc:damaged_deferred", "newu_ok"]
        missing = [c for c in need if not ctx.stats.classes.get(c)]
        if missing and not ctx.stats.violations:
            raise vlib.HarnessError("GENERATOR-STARVED: classes never produced: %r" % missing)


def break_tree():
    """second build of the working tree with conf-break = '+'"""
    t2 = vlib.Tree(tag="-break")
    p_ = t2.path("conf-break")
    lines = open(p_).read().split("\n")
    if lines[0] == "+":
        return None
    open(p_, "w").write("\n".join(["+"] + lines[1:]))
    t2.make("qmail-lspawn", "qmail-getpw", "qmail-newu")
    return t2


def replay(ctx, path):
    sandbox.ensure_shim()
    tree = vlib.Tree().make("qmail-lspawn", "qmail-getpw", "qmail-newu")
    sc = json.load(open(path))
    sc = sc.get("scenario", sc)
    if isinstance(sc, dict) and sc.get("conf_break") == "+":
        tree = break_tree()
    if isinstance(sc, dict) and sc.get("kind") == "cdb":
        return replay_cdb(ctx, tree, sc["case"])
    r = Runner(tree, "replay")
    v = run_scenario(r, sc, ctx.stats, thorough=True)
    return [v] if v else []
