"""C13 - Delivery instructions are interpreted as documented and loops are cut.

Real `qmail-local [-n] -- user homedir local dash ext domain sender defaultdelivery` under vshim, message on a seekable
stdin file, QMAILQUEUE = shim/standin (records the forwarded copy), program lines are small sh scripts that copy their
stdin / environment into marker files. Every generated case is run twice on the same freshly built home: first with -n
(must have no effect at all and describe the modelled instructions in order), then for real.

Oracle = an independent Python model of dot-qmail.5 / qmail-command.8 / qmail-local.8 (function `model`), see DESIGN.md 5/C13:
home refused (conf-patrn bits from the tree, sticky) => 111 and no effect; Delivered-To loop => 100 before any instruction;
control file = first existing regular file in the documented order (ext lower-cased, '.' -> ':'), every path qmail-local
opens/stats lies inside the home (trace); not found => defaultdelivery (dash empty) or 100; file refused (patrn bits) => 111;
empty => defaultdelivery; first line blank => 111; instructions in order by type; x bit / +list refuse file and program lines;
program exit codes 0 / 99 / 100,64,65,70,76,77,78,112 / anything else or a crash; nothing (and no forward) after a failure;
forwards submitted once, last, to exactly the listed addresses, sender per the -owner / -owner-default rule, message =
Delivered-To line + original; every line added to a delivered copy is a single line; environment seen by programs.

Slack (accepted both ways, counted): -n with a sticky home (only "defers delivery" is documented); DEFAULT for an exact match on
a name ending in "default"; case/'.' form of DEFAULT; HOSTn/EXTn when HOST/EXT has fewer dots/dashes than the variable needs;
exit status of a failing mbox/maildir instruction (any non-zero); files left in maildir tmp/.
A violation is reported only if it reproduces on two further executions of the same scenario (otherwise: inconclusive,
class `unreproducible`, message kept in the evidence); a run whose trace is empty (interposer not loaded) is inconclusive.
Left out relative to the design: `|cat > f; exit N` is folded into the marker program (every program copies stdin to M<tag>);
recipient/sender strings contain no bytes >= 0x80 in `ext` (lower-casing of 8-bit letters is not documented)."""
import os, re, json, stat, errno
from lib import vlib, sandbox
from props import local_common as lc
from hypothesis import strategies as st

LEVEL = "exploration"
RULE = ("Hypothesis generates (home mode, set of .qmail* files with modes/bodies from the instruction grammar, dash, ext incl. near "
        "misses, local/host/sender incl. hostile ones, defaultdelivery, message with/without a (near-)matching Delivered-To, "
        "qmail-queue exit status); each case is executed with -n and for real and compared with the dot-qmail model. Non-trivial = "
        ">= 2 candidate control files exist for the ext, or the executed body has >= 2 instruction kinds, or a failure "
        "precedes/prevents a forward; distinct = digest of the scenario.")
ASSUMPTIONS = ["the check runs as root: a mode-0000 .qmail is readable, only the conf-patrn bits refuse a file (readability is modelled with the effective uid)",
               "program lines are run by /bin/sh; /proc/self/environ shows the environment a program received",
               "the stand-in for qmail-queue parses the envelope as qmail-queue.8 specifies"]

PERM_CODES = (100, 64, 65, 70, 76, 77, 78, 112)
DOC_CODES = [0, 99, 100, 111, 64, 65, 70, 76, 77, 78, 112]


# ------------------------------------------------------------------ scenario -> concrete world

def lower_ascii(s):
    return re.sub("[A-Z]", lambda m: m.group().lower(), s)


def render_line(ins, tag):
    t = ins["t"]
    if t == "comment":
        s = "#" + ins.get("s", " a comment")
    elif t in ("blank", "ws"):
        s = ""
    elif t == "prog":
        if ins.get("kill"):
            s = "|kill -9 $$ # %s" % tag
        else:
            s = "|%scat >M%s; exit %d" % ("cat /proc/self/environ >E%s; " % tag if ins.get("env") else "", tag, ins["exit"])
    elif t == "mbox":
        s = ("./mb%s" if ins.get("ok", True) else "./nodir/mb%s") % tag
    elif t == "maildir":
        s = "./md%s/" % tag
    elif t == "fwd":
        s = ("&" if ins.get("amp") else "") + ins["addr"]
    elif t == "list":
        s = "+list"
    elif t == "plus":
        s = "+" + ins["s"]
    else:
        raise vlib.HarnessError("bad instruction %r" % (ins,))
    tr = ins.get("trail", "")
    if t == "ws" and not tr:
        tr = " "
    return s + tr


def render_body(body, fid, nonl=False):
    lines = [render_line(ins, "%s_%d" % (fid, i)) for i, ins in enumerate(body)]
    if not lines:
        return ""
    txt = "\n".join(lines)
    return txt if nonl else txt + "\n"


def maildirs_of(body, fid):
    return ["md%s_%d" % (fid, i) for i, ins in enumerate(body) if ins["t"] == "maildir" and ins.get("ok", True)]


def build_msg(m, dt):
    """message bytes; `dt` = the Delivered-To line the delivery would add (latin-1 str)."""
    hdr = [x + "\n" for x in m["hdr"]]
    body = [x + "\n" for x in m["body"]]
    k = m["dt"]
    variants = {"exact": dt, "case": re.sub("[A-Za-z]", lambda m: m.group().swapcase(), dt), "trail": dt[:-1] + " \n", "longer": dt[:-1] + ".org\n",
                "shorter": dt[:-2] + "\n", "other": "Delivered-To: someone@else.example\n", "crlf": dt[:-1] + "\r\n",
                "folded": " " + dt}
    if k in variants:
        p = m["pos"] % (len(hdr) + 1)
        if m.get("pad") is not None:
            # the line starts at a chosen offset of the message (just before / on / after a multiple of the agent's 1024-byte read buffer)
            L = m["pad"] - sum(len(x) for x in hdr[:p])
            while L < 8:
                L += 1024
            hdr.insert(p, "X-Pad: " + "p" * (L - 8) + "\n")
            p += 1
        hdr.insert(p, variants[k])
    elif k == "twice":
        hdr.insert(m["pos"] % (len(hdr) + 1), dt)
        hdr.append(dt)
    elif k == "body":
        body.insert(m["pos"] % (len(body) + 1), dt)
    elif k == "lastnonl":
        return "".join(hdr) + dt[:-1]
    if m.get("nohdr"):
        out = "\n" + "".join(hdr) + "".join(body)
    else:
        out = "".join(hdr) + ("\n" + "".join(body) if (body or m.get("sep")) else "")
    if not m.get("final_nl", True) and out.endswith("\n"):
        out = out[:-1]
    return out


class World:
    """The concrete strings of one scenario."""

    def __init__(self, sc):
        self.sc = sc
        self.user = sc["user"]
        self.dash = sc["dash"]
        self.ext = sc["ext"]
        self.local = sc["local"] if sc.get("local") is not None else self.user + self.dash + self.ext
        self.host = sc["host"]
        self.sender = sc["sender"]
        self.dd = render_body(sc["dd"]["body"], "d", nonl=True) if isinstance(sc["dd"], dict) else sc["dd"]
        self.dt = lc.dtline(lc.b(self.local), lc.b(self.host)).decode(lc.L1)
        self.rp = lc.rpline(lc.b(self.sender)).decode(lc.L1)
        self.msg = build_msg(sc["msg"], self.dt)
        self.files = []
        for i, f in enumerate(sc["files"]):
            self.files.append((f["name"], f["kind"], f["mode"], render_body(f.get("body", []), str(i), f.get("nonl", False))))


def populate(box, w):
    """(Re)build <base>/home from the scenario. Also <base>/out, a control file OUTSIDE the home that must never be used."""
    box.reset()
    home = box.home
    sc = w.sc
    seen = set()
    mds = list(maildirs_of(sc["dd"]["body"], "d")) if isinstance(sc["dd"], dict) else []
    for i, (name, kind, mode, text) in enumerate(w.files):
        if name in seen:
            continue
        seen.add(name)
        p = os.path.join(home, name)
        if "/" in name or name in (".", ".."):
            continue            # file names are single components: nothing is ever created outside the home
        if kind == "d":
            os.makedirs(p, exist_ok=True)
            with open(os.path.join(p, "x"), "w", encoding=lc.L1) as f:
                f.write(text)
            os.chmod(os.path.join(p, "x"), 0o600)
            os.chmod(p, 0o700)
        else:
            with open(p, "w", encoding=lc.L1, newline="") as f:
                f.write(text)
            os.chmod(p, mode)
        mds += maildirs_of(sc["files"][i].get("body", []), str(i))
    for md in mds:
        for s in ("tmp", "new", "cur"):
            os.makedirs(os.path.join(home, md, s), exist_ok=True)
    with open(os.path.join(box.base, "out"), "w") as f:
        f.write("|cat >Mo_0; exit 0\n")
    os.chmod(os.path.join(box.base, "out"), 0o600)
    with open(box.msgf, "wb") as f:
        f.write(lc.b(w.msg))
    os.chmod(home, sc["hmode"])


# ------------------------------------------------------------------ the model (dot-qmail.5, qmail-command.8, qmail-local.8)

def loops(msg, dt):
    """qmail-local.8: 'If exactly the same Delivered-To: local@domain already appears in the header'. Complete lines only."""
    for ln in re.findall(r"[^\n]*\n|[^\n]+\Z", msg):
        if not ln.endswith("\n") or ln == "\n":
            return False
        if ln == dt:
            return True
    return False


def candidates(dash, ext):
    """dot-qmail.5 EXTENSION ADDRESSES: .qmail-ext, then .qmail-<prefix up to a dash>default from the longest prefix down to
    .qmail-default; dots -> colons, upper -> lower case."""
    safe = lower_ascii(ext).replace(".", ":")
    out = [(".qmail" + dash + safe, None)]
    for i in range(len(safe), -1, -1):
        if i == 0 or safe[i - 1] == "-":
            out.append((".qmail" + dash + safe[:i] + "default", i))
    return safe, out


def exists(home, rel):
    try:
        os.stat(os.path.join(home, rel))
        return True
    except OSError:
        return False


def model(w, home, patrn, dry, euid, qq=0):
    """-> dict(exit=int|'nonzero'|'perm', actions=[...], fwd=None|(sender,[rcpt]), progs=[cmd], mboxes=[path], maildirs=[path],
               described=[(kind,arg)], info={...}); `actions` ends with the failing attempt if an instruction failed."""
    sc = w.sc
    E = {"exit": 0, "actions": [], "fwd": None, "progs": [], "mboxes": [], "maildirs": [], "described": [], "info": {},
         "env": None}
    info = E["info"]

    def stop(code, why):
        E["exit"] = code
        info["why"] = why
        return E
    if sc["hmode"] & patrn:
        return stop(111, "home_refused")
    if sc["hmode"] & 0o1000:
        if not dry:
            return stop(111, "home_sticky")
        info["sticky_dry"] = True
    if not dry and loops(w.msg, w.dt):
        return stop(100, "loop")
    safe, cands = candidates(w.dash, w.ext)
    sel = None
    ncand = 0
    for name, cut in cands:
        try:
            s = os.stat(os.path.join(home, name))
        except OSError:
            continue
        if not stat.S_ISREG(s.st_mode):
            continue
        ncand += 1
        if sel is None:
            sel = (name, cut, s.st_mode & 0o7777)
    info["ncand"] = ncand
    default = None          # None = must be unset, str = must have this value, tuple = any of these / unset where None is a member
    if sel is None:
        if w.dash:
            return stop(100, "no_mailbox")
        text, fonly = w.dd, False
        info["sel"] = "dd_nofile"
    else:
        name, cut, mode = sel
        info["sel_name"] = name
        if euid != 0 and not (mode & 0o400):
            return stop(111, "file_unreadable")
        if mode & patrn:
            return stop(111, "file_refused")
        with open(os.path.join(home, name), encoding=lc.L1, newline="") as f:
            text = f.read()
        fonly = bool(mode & 0o100)
        if cut is None:
            info["sel"] = "exact"
            if safe.endswith("default"):
                default = (None, w.ext[len(w.ext) - 7:], safe[len(safe) - 7:])
        else:
            info["sel"] = "default"
            default = (w.ext[cut:], safe[cut:])
        if text == "":
            text, fonly = w.dd, False
            info["sel"] += "_empty_dd"
    # forwarding sender (dot-qmail.5)
    newsender = w.sender
    if w.sender not in ("", "#@[]"):
        if exists(home, ".qmail" + w.dash + safe + "-owner"):
            if exists(home, ".qmail" + w.dash + safe + "-owner-default"):
                newsender = w.local + "-owner-@" + w.host + "-@[]"
                info["owner"] = "verp"
            else:
                newsender = w.local + "-owner@" + w.host
                info["owner"] = "owner"
    E["env"] = {"default": default, "newsender": newsender}
    lines = text.split("\n")
    if text.endswith("\n"):
        lines.pop()
    fwd = []
    kinds = set()
    for idx, raw in enumerate(lines):
        ln = raw.rstrip(" \t")
        if ln == "":
            if idx == 0:
                return stop(111, "first_blank")
            continue
        c = ln[0]
        if c == "#":
            continue
        if c == "+":
            if ln == "+list":
                fonly = True
                info["list"] = True
            continue
        if c in "./|":
            if fonly:
                info["fwd_lost"] = bool(fwd)
                return stop(111, "forwardonly_refused")
            if c == "|":
                kinds.add("prog")
                cmd = ln[1:]
                E["described"].append(("program", cmd))
                if dry:
                    continue
                E["actions"].append(("prog", cmd))
                E["progs"].append(cmd)
                m = re.search(r"exit (\d+)$", cmd)
                if cmd.startswith("kill -9 $$"):
                    info["fwd_lost"] = bool(fwd) or any(l and l[0] not in "#+./|" for l in lines[idx + 1:])
                    return stop(111, "prog_crash")
                code = int(m.group(1))
                if code == 0:
                    continue
                if code == 99:
                    info["flag99"] = True
                    break
                info["fwd_lost"] = bool(fwd) or any(l and l[0] not in "#+./|" for l in lines[idx + 1:])
                if code in PERM_CODES:
                    return stop(100, "prog_hard")
                return stop(111, "prog_soft")
            elif ln.endswith("/"):
                kinds.add("maildir")
                E["described"].append(("maildir", ln))
                if dry:
                    continue
                E["actions"].append(("maildir", ln))
                if not (os.path.isdir(os.path.join(home, ln, "tmp")) and os.path.isdir(os.path.join(home, ln, "new"))):
                    info["fwd_lost"] = bool(fwd) or any(l and l[0] not in "#+./|" for l in lines[idx + 1:])
                    return stop("nonzero", "maildir_fail")
                E["maildirs"].append(ln)
            else:
                kinds.add("mbox")
                E["described"].append(("mbox", ln))
                if dry:
                    continue
                E["actions"].append(("mbox", ln))
                if not os.path.isdir(os.path.dirname(os.path.join(home, ln))):
                    info["fwd_lost"] = bool(fwd) or any(l and l[0] not in "#+./|" for l in lines[idx + 1:])
                    return stop("nonzero", "mbox_fail")
                E["mboxes"].append(ln)
            continue
        kinds.add("fwd")
        addr = ln[1:] if c == "&" else ln
        E["described"].append(("forward", addr))
        fwd.append(addr)
    info["kinds"] = sorted(kinds)
    if fwd and not dry:
        E["actions"].append(("forward",))
        E["fwd"] = (newsender, fwd)
        if qq:
            info["fwd_lost"] = True
            return stop("perm" if 11 <= qq <= 40 else 111, "qq_failed")
    return E


# ------------------------------------------------------------------ observation

def observe_actions(events, qmailhome):
    main = lc.main_pid(events)
    acts = []
    for e in events:
        if not e["key"].endswith(".qmail-local"):
            continue
        c, a = e["call"], e["a"]
        if c == "exec":
            if len(a) > 4 and a[1] == "/bin/sh":
                acts.append(("prog", sandbox.unesc(a[4])))
            else:
                acts.append(("forward",))
        elif c == "open" and e["pid"] == main and sandbox.is_mut(e):
            acts.append(("mbox", sandbox.unesc(a[0])))
        elif c == "chdir" and e["pid"] != main and a[0] != qmailhome:
            acts.append(("maildir", sandbox.unesc(a[0])))
    return main, acts


def inside_home(events, main, home):
    """Every path the delivery agent itself opens or stats must stay inside the home directory."""
    for e in events:
        if e["pid"] != main or e["call"] not in ("open", "stat", "lstat"):
            continue
        p = sandbox.unesc(e["a"][0])
        if ".." in p.split("/"):
            return "qmail-local used a path with a '..' component: %r" % p
        full = os.path.normpath(os.path.join(home, p))
        if not (full == home or full.startswith(home + "/")):
            return "qmail-local used a path outside the home directory: %r" % p
    return None


def exit_ok(rc, want):
    if want == "nonzero":
        return rc not in (0, None) and rc > 0
    if want == "perm":
        return rc not in (0, 111) and rc is not None and rc > 0
    return rc == want


def parse_environ(data):
    d = {}
    for item in data.split(b"\0"):
        if b"=" in item:
            k, v = item.split(b"=", 1)
            d[k.decode(lc.L1)] = v.decode(lc.L1)
    return d


def check_env(env, w, exp, t0, t1, stats, home):
    want = {"SENDER": w.sender, "NEWSENDER": exp["env"]["newsender"], "RECIPIENT": w.local + "@" + w.host, "USER": w.user,
            "HOST": w.host, "LOCAL": w.local, "EXT": w.ext, "DTLINE": w.dt, "RPLINE": w.rp}
    for k, v in want.items():
        if env.get(k) != v:
            return "program saw %s=%r, documented %r" % (k, env.get(k), v)
    if env.get("HOME") != home:
        return "program saw HOME=%r, documented the homedir argument %r" % (env.get("HOME"), home)
    # HOSTn: portion of HOST preceding the last / second-to-last / third-to-last dot
    h = w.host
    for n in (2, 3, 4):
        j = h.rfind(".")
        if j < 0:
            stats.slack += 1
            break
        h = h[:j]
        if env.get("HOST%d" % n) != h:
            return "program saw HOST%d=%r, documented %r" % (n, env.get("HOST%d" % n), h)
    x = w.ext
    for n in (2, 3, 4):
        j = x.find("-")
        if j < 0:
            stats.slack += 1
            break
        x = x[j + 1:]
        if env.get("EXT%d" % n) != x:
            return "program saw EXT%d=%r, documented %r" % (n, env.get("EXT%d" % n), x)
    d = exp["env"]["default"]
    got = env.get("DEFAULT")
    if d is None:
        if got is not None:
            return "program saw DEFAULT=%r although the control file name does not end in default" % got
    else:
        if len(set(d)) > 1:
            stats.slack += 1
        if got not in d:
            return "program saw DEFAULT=%r, documented %r" % (got, d)
    err = lc.check_ufline(lc.b(env.get("UFLINE", "")), lc.b(w.sender), t0, t1)
    if err:
        return "UFLINE: " + err
    return None


def judge_real(box, w, exp, rc, events, before, t0, t1, stats):
    home = box.home
    why = exp["info"].get("why")
    main, acts = observe_actions(events, box.h.qmailpath)
    err = inside_home(events, main, home)
    if err:
        return err
    if not exit_ok(rc, exp["exit"]):
        return "exit status %s, documented %s (%s)" % (rc, exp["exit"], why or "all instructions succeed")
    if acts != exp["actions"]:
        return "instructions executed %r, documented %r (%s)" % (acts, exp["actions"], why or "ok")
    after = lc.tree_listing(home)
    msg = lc.b(w.msg)
    expected_new = set()
    for cmd in exp["progs"]:
        m = re.search(r">M(\S+);", cmd)
        if m:
            p = "M" + m.group(1)
            expected_new.add(p)
            try:
                got = open(os.path.join(home, p), "rb").read()
            except OSError:
                return "program %r did not run to completion (no %s)" % (cmd, p)
            if got != msg:
                return "program %r read %r on stdin, documented: exactly the message (%d bytes)" % (cmd, got[:80], len(msg))
        m = re.search(r">E(\S+);", cmd)
        if m:
            p = "E" + m.group(1)
            expected_new.add(p)
            try:
                env = parse_environ(open(os.path.join(home, p), "rb").read())
            except OSError:
                return "program %r left no environment dump" % cmd
            e = check_env(env, w, exp, t0, t1, stats, home)
            if e:
                return e
    rp, dt = lc.b(w.rp), lc.b(w.dt)
    if rp.count(b"\n") != 1 or dt.count(b"\n") != 1:
        return "model error: added lines are not single lines"
    for mb in exp["mboxes"]:
        rel = os.path.normpath(mb)
        expected_new.add(rel)
        try:
            data = open(os.path.join(home, rel), "rb").read()
        except OSError:
            return "mbox %r was not written" % mb
        pre, msgs = lc.mbox_read(data)
        if pre or len(msgs) != 1:
            return "mbox %r: reader finds %d messages (+%d stray bytes), documented 1" % (mb, len(msgs), len(pre))
        e = lc.check_ufline(msgs[0][0], lc.b(w.sender), t0, t1)
        if e:
            return "mbox %r: %s" % (mb, e)
        if msgs[0][1] != rp + dt + lc.delivered(msg):
            return "mbox %r: delivered copy %r, documented Return-Path + Delivered-To + message %r" % (mb, msgs[0][1][:200], (rp + dt)[:200])
        if not data.endswith(b"\n\n"):
            return "mbox %r: entry does not end with a blank line" % mb
    for md in exp["maildirs"]:
        rel = os.path.normpath(md)
        new = os.path.join(home, rel, "new")
        ents = os.listdir(new)
        if len(ents) != 1:
            return "maildir %r: %d entries in new/, documented 1" % (md, len(ents))
        expected_new.add(os.path.join(rel, "new", ents[0]))
        got = open(os.path.join(new, ents[0]), "rb").read()
        if got != rp + dt + msg:
            return "maildir %r: delivered copy %r, documented Return-Path + Delivered-To + message %r" % (md, got[:200], (rp + dt)[:200])
        for t in os.listdir(os.path.join(home, rel, "tmp")):
            expected_new.add(os.path.join(rel, "tmp", t))
            stats.slack += 1
    for p, v in after.items():
        if p not in before:
            if p not in expected_new:
                return "unexpected file %r appeared in the home directory (%s)" % (p, why or "ok")
        elif before[p] != v and v[0] == "f":
            return "pre-existing file %r was modified" % p
    for p in before:
        if p not in after:
            return "pre-existing file %r disappeared" % p
    recs = sandbox.standin_records(box.rec)
    if exp["fwd"] is None:
        if recs:
            return "message was forwarded (%d submissions) although the model forwards nothing (%s)" % (len(recs), why or "no forward lines")
    else:
        if len(recs) != 1:
            return "%d qmail-queue submissions, documented exactly one" % len(recs)
        r = recs[0]
        envl = sandbox.parse_envelope(r.get("fd1", b""))
        if envl is None:
            return "forward: malformed envelope %r" % r.get("fd1", b"")[:200]
        snd, rcpts = envl
        ws, wr = exp["fwd"]
        if snd != lc.b(ws):
            return "forward: envelope sender %r, documented %r" % (snd, ws)
        if rcpts != [lc.b(x) for x in wr]:
            return "forward: recipients %r, documented %r" % (rcpts, wr)
        if r.get("fd0") != dt + msg:
            return "forward: message %r..., documented Delivered-To line + original message" % r.get("fd0", b"")[:200]
    return None


def judge_dry(box, w, exp, rc, out, events, before, stats):
    home = box.home
    main, acts = observe_actions(events, box.h.qmailpath)
    err = inside_home(events, main, home)
    if err:
        return "-n: " + err
    if acts:
        return "-n: instructions were executed: %r" % acts
    if lc.tree_listing(home) != before:
        return "-n: the home directory was modified"
    if sandbox.standin_records(box.rec):
        return "-n: a message was forwarded"
    if exp["info"].get("sticky_dry"):
        stats.slack += 1
        if rc == 111:
            return None
    if not exit_ok(rc, exp["exit"]):
        return "-n: exit status %s, documented %s (%s)" % (rc, exp["exit"], exp["info"].get("why") or "ok")
    lines = out.decode(lc.L1).split("\n")
    pos = 0
    for kind, arg in exp["described"]:
        while pos < len(lines) and arg not in lines[pos]:
            pos += 1
        if pos >= len(lines):
            return "-n: description %r lacks (in order) the %s instruction %r" % (out[:300], kind, arg)
        pos += 1
    return None


def run_case(box, sc, stats, patrn):
    """One case; a violation is reported only if it reproduces on two further executions of the same scenario (DESIGN.md 1:
    'replayed 3x'); otherwise it is counted as inconclusive/unreproducible and its message kept in the evidence."""
    v = run_case_once(box, sc, stats, patrn)
    if v is None:
        return None
    for _ in range(2):
        v2 = run_case_once(box, sc, vlib.Stats(), patrn)
        if v2 is None:
            stats.inconclusive += 1
            stats.cls("unreproducible")
            stats.extra["unreproducible_example"] = v[:1500]
            dbg = os.environ.get("VERIF_DEBUGLOG")
            if dbg:
                with open(dbg, "a") as f:
                    f.write("C13 unreproducible: %s\n" % v)
            return None
    return v


def run_case_once(box, sc, stats, patrn):
    w = World(sc)
    for s in (w.user, w.local, w.dash, w.ext, w.host, w.sender, w.dd):
        if "\0" in s:
            return None
    populate(box, w)
    euid = os.geteuid()
    qq = sc.get("qq", 0)
    before = lc.tree_listing(box.home)
    # ---- -n
    expd = model(w, box.home, patrn, True, euid, qq)
    rc, out, errb, t0, t1 = box.run(box.argv(w.user, w.local, w.dash, w.ext, w.host, w.sender, w.dd, dry=True), box.env(qq_exit=qq))
    if rc is None:
        stats.inconclusive += 1
        return None
    evd = box.h.read_trace()
    if lc.main_pid(evd) is None:        # the interposer was not loaded (e.g. vshim.so being rebuilt): nothing can be judged
        stats.inconclusive += 1
        return None
    v = judge_dry(box, w, expd, rc, out, evd, before, stats)
    if v:
        stats.case(scenario=sc, nontrivial=True, classes=["violation_dry"])
        return v + " | " + json.dumps(vlib.jsonable(sc))[:1200]
    # ---- for real
    box.clear_run()
    exp = model(w, box.home, patrn, False, euid, qq)
    rc, out, errb, t0, t1 = box.run(box.argv(w.user, w.local, w.dash, w.ext, w.host, w.sender, w.dd), box.env(qq_exit=qq))
    if rc is None:
        stats.inconclusive += 1
        return None
    evr = box.h.read_trace()
    if lc.main_pid(evr) is None:
        stats.inconclusive += 1
        return None
    v = judge_real(box, w, exp, rc, evr, before, t0, t1, stats)
    info = exp["info"]
    kinds = info.get("kinds", [])
    nontrivial = info.get("ncand", 0) >= 2 or len(kinds) >= 2 or bool(info.get("fwd_lost"))
    classes = ["exit_%s" % exp["exit"], "why_%s" % (info.get("why") or "delivered")]
    if "sel" in info:
        classes.append("sel_" + info["sel"])
    if info.get("ncand", 0) >= 2:
        classes.append("candidates_ge2")
    if len(kinds) >= 2:
        classes.append("kinds_ge2")
    if info.get("fwd_lost"):
        classes.append("failure_blocks_forward")
    if info.get("flag99"):
        classes.append("exit99_stops")
    if info.get("list"):
        classes.append("plus_list")
    if exp["fwd"]:
        classes.append("forwarded")
        classes.append("fwd_sender_" + info.get("owner", "kept"))
    if "\n" in w.sender or "\n" in w.local or "\n" in w.host:
        classes.append("hostile_newline")
    if "/" in w.ext or ".." in w.ext:
        classes.append("ext_path_chars")
    if lower_ascii(w.ext) != w.ext or "." in w.ext:
        classes.append("ext_case_or_dot")
    if exp["mboxes"] or exp["maildirs"]:
        classes.append("mailbox_copy_checked")
    if any(">E" in c for c in exp["progs"]):
        classes.append("env_checked")
    stats.case(scenario=sc, nontrivial=nontrivial, classes=classes)
    if v:
        return v + " | " + json.dumps(vlib.jsonable(sc))[:1200]
    if sc.get("fsel") is not None:
        vf = fault_run(box, sc, w, evr, stats, patrn, sc["fsel"])
        if vf:
            return vf + " | " + json.dumps(vlib.jsonable(sc))[:1200]
    if info.get("why") in ("file_refused", "forwardonly_refused") and info.get("sel_name"):
        vs = swap_run(box, sc, w, exp, stats)
        if vs:
            return vs + " | " + json.dumps(vlib.jsonable(sc))[:1200]
    return None


def swap_run(box, sc, w, exp, stats):
    """The owner replaces the refused control file by a harmless one (mv .qmail-x.new .qmail-x, mode 0600) in the instant after the delivery
    agent opened it (added after seeded change C13-F). The instructions the agent holds are those of the file it opened, so the verdict about
    THAT file stands: writable by others => 111 and no effect; executable => file and program lines refused."""
    name = exp["info"]["sel_name"]
    box.reset()
    populate(box, w)
    src = os.path.join(box.h.dir, "swap-src")
    with open(src, "w") as f:
        f.write("# harmless replacement\n")
    os.chmod(src, 0o600)
    st_ = os.stat(os.path.join(box.home, name))
    os.chown(src, st_.st_uid, st_.st_gid)
    before = lc.tree_listing(box.home)
    rc, out, errb, t0, t1 = box.run(box.argv(w.user, w.local, w.dash, w.ext, w.host, w.sender, w.dd),
                                    box.env(qq_exit=sc.get("qq", 0), VSHIM_SWAPOPEN="loc|%s|%s" % (name, src)))
    if os.path.exists(src):
        os.unlink(src)
    if rc is None:
        stats.inconclusive += 1
        return None
    ev = box.h.read_trace()
    if not any(e["call"] == "SWAP" for e in ev):
        stats.cls("swap_not_reached")
        return None
    stats.case(scenario={"base": vlib.digest(sc)[:12], "swap": name}, nontrivial=True, classes=["control_file_replaced_after_open"], key=(vlib.digest(sc), "swap"))
    if rc != 111:
        return ("the control file %s (refused: %s) was replaced by a harmless file right after the delivery agent opened it: exit %r, documented 111 "
                "(the instructions in hand are those of the refused file)" % (name, exp["info"]["why"], rc))
    if exp["info"]["why"] != "file_refused":
        return None            # instructions in front of the refused line legitimately ran; only the status is judged
    after = lc.tree_listing(box.home)
    diff = [k for k in sorted(set(after.items()) ^ set(before.items())) if k[0] != name and not str(k[0]).endswith("/" + name)]
    if diff:
        return "the control file %s was replaced right after it was opened; exit 111 but the delivery had effects: %r" % (name, diff[:4])
    return None


def fault_run(box, sc, w, evr, stats, patrn, fsel):
    """Single I/O fault on the control file (added by the lead after seeded changes C13-C/D): one failing open() of a .qmail* file that
    exists (EACCES / ENFILE) or one failing read() from it (EIO) in the delivery agent itself. qmail-local(8)/dot-qmail(5): trouble with the
    control file is a temporary error - exit 111 and NO effect at all; in particular the search must not fall through to a shorter -default
    file or to 'no mailbox', and a partially read file must not be executed."""
    main = lc.main_pid(evr)
    cnt, fds, sites = {}, {}, []
    for e in evr:
        if e["pid"] != main:
            continue
        c = e["call"]
        if c == "open":
            k = cnt.get("open", 0)
            cnt["open"] = k + 1
            path = e["a"][0]
            if path.startswith(".qmail") and len(e["a"]) > 2 and e["a"][2] not in ("-1",):
                fds[e["a"][2]] = path
                sites.append(("open", k, "13", path))
                sites.append(("open", k, "23", path))
        elif c == "read":
            k = cnt.get("read", 0)
            cnt["read"] = k + 1
            if e["a"] and e["a"][0] in fds:
                for er in ("5", "13", "1", "116"):      # EIO, and what an NFS server re-checking permissions answers: EACCES, EPERM, ESTALE
                    sites.append(("read", k, er, fds[e["a"][0]]))
        elif c == "close" and e["a"] and e["a"][0] in fds:
            del fds[e["a"][0]]
        elif c in ("fork", "exec"):
            break           # instructions start: later faults belong to the deliveries (C12)
    if not sites:
        return None
    cls, k, err, path = sites[fsel % len(sites)]
    box.reset()
    populate(box, w)
    before = lc.tree_listing(box.home)
    rc, out, errb, t0, t1 = box.run(box.argv(w.user, w.local, w.dash, w.ext, w.host, w.sender, w.dd),
                                    box.env(qq_exit=sc.get("qq", 0), VSHIM_FAULT="loc:%s:%d:%s" % (cls, k, err), VSHIM_FAULT_GEN="0"))
    if rc is None:
        stats.inconclusive += 1
        return None
    ev = box.h.read_trace()
    if not any(e["a"] and e["a"][-1] == "FAULT" for e in ev):
        stats.cls("fault_not_reached")
        return None
    stats.case(scenario={"base": vlib.digest(sc)[:12], "fault": [cls, k, err, path]}, nontrivial=True, classes=["fault_%s_control_file" % cls],
               key=(vlib.digest(sc), cls, k, err))
    if rc != 111:
        return "a failing %s() (errno %s) on the control file %s ends in exit %r, documented: temporary error 111" % (cls, err, path, rc)
    after = lc.tree_listing(box.home)
    if after != before:
        diff = sorted(set(after.items()) ^ set(before.items()))[:4]
        return "a failing %s() on the control file %s was reported as 111 but the delivery had effects: %r" % (cls, path, diff)
    if lc.qq_records(box) if hasattr(lc, "qq_records") else False:
        return "a failing %s() on the control file %s: a message was forwarded nevertheless" % (cls, path)
    return None


# ------------------------------------------------------------------ generators

NAMES = [".qmail", ".qmail-a", ".qmail-a-default", ".qmail-a-b", ".qmail-default", ".qmail-a:b", ".qmail-a.b", ".qmail-a-owner",
         ".qmail-a-owner-default", ".qmail-a-b-owner", ".qmail-a-b-owner-default", ".qmail-b", ".qmail-b-default", ".qmail-A",
         ".qmail-a-B", ".qmail-owner", ".qmail-owner-default", ".qmail-d", ".qmail-a-", ".qmail-a--b", ".qmail--default",
         ".qmail-", ".qmaildefault", ".qmail-a-b-default", ".qmail-default-owner", ".qmail-a:b-owner", ".qmail-a-b-c",
         ".qmail-a-default-owner", ".qmaila", ".qmail-a:b-default", ".qmail-b-owner", ".qmail-x-owner", ".qmail-x-owner-default"]
BASE_EXTS = ["", "a", "b", "a-b", "a-b-c", "a-c", "c", "a:b", "a.b", "a.b-c", "default", "a-default", "owner", "a-owner", "a-", "a--b",
             "-", "-a", "a-b-", "d/x", "d/../../out", "../out", "a/b", "a/../a", "..", ".", "a..b", "x-y-z", "b-default-c", "x",
             "d", "a-b-owner", "a-b-c-d-e", "A", "a-B", "b-c"]
EXT_MUTS = ["none"] * 12 + ["upper", "cap1", "dot", "colon", "trail-", "lead-", "dbl-", "suffix", "slash", "dotdot", "trunc"]


def mutate_ext(base, mut):
    if mut == "upper":
        return base.upper()
    if mut == "cap1":
        return base[:1].upper() + base[1:]
    if mut == "dot":
        return base.replace(":", ".").replace("-", ".", 1) if ":" not in base else base.replace(":", ".")
    if mut == "colon":
        return base.replace(".", ":")
    if mut == "trail-":
        return base + "-"
    if mut == "lead-":
        return "-" + base
    if mut == "dbl-":
        return base.replace("-", "--", 1)
    if mut == "suffix":
        return base + "-zz"
    if mut == "slash":
        return base + "/"
    if mut == "dotdot":
        return base + "/.."
    if mut == "trunc":
        return base[:-1]
    return base


ADDRS = ["me@new.job.example", "a@b.example", "list-owner@lists.example", "x-y=z@h.example", "u1@h.example", "u2@h.example",
         "UPPER@CASE.Example", "a+b@c.example"]
SENDERS = ["s@x.example", "", "#@[]", "a b@c.example", "q\"uote@x.example", "new\nline@x.example",
           "multi\nX-Injected: yes\n\nbody@x.example", "no-at", "@", "a@b@c", "\tTab@x.example", ".dot@x.example", "a..b@x.example",
           "8bit\xe9@x.example", "back\\slash@x.example", "<>@x.example", "s@x.example\nReturn-Path: <evil>", "(c)@x", "a,b@x", "#@[]x",
           "trail \n", "\n", "cr\rlf@x"]
LOCALS = [None, None, None, None, "joe", "jo e", "new\nline", "x\nDelivered-To: evil@h.example", "q\"uote", "\n"]
HOSTS = ["h.example", "h.example", "a.b.c.d.example", "nodot", "h.example\nX-Injected: 1", "two.dots", "", "UPPER.Example", "h .example"]

trail = st.sampled_from(["", "", "", " ", "\t", "  \t "])
fwd_ins = st.fixed_dictionaries({"t": st.just("fwd"), "amp": st.booleans(), "addr": st.sampled_from(ADDRS), "trail": trail})
prog_ok = st.fixed_dictionaries({"t": st.just("prog"), "exit": st.just(0), "env": st.booleans(), "trail": trail})
prog_ins = st.one_of(
    prog_ok, prog_ok, prog_ok, prog_ok,
    st.fixed_dictionaries({"t": st.just("prog"), "exit": st.sampled_from(DOC_CODES), "env": st.booleans(), "trail": trail}),
    st.fixed_dictionaries({"t": st.just("prog"), "exit": st.sampled_from([0, 99]), "env": st.just(False), "trail": trail}),
    st.fixed_dictionaries({"t": st.just("prog"), "exit": st.integers(0, 255), "env": st.just(False)}),
    st.just({"t": "prog", "kill": True}))
file_ins = st.one_of(
    st.fixed_dictionaries({"t": st.just("mbox"), "ok": st.sampled_from([True] * 7 + [False]), "trail": trail}),
    st.fixed_dictionaries({"t": st.just("maildir"), "ok": st.sampled_from([True] * 7 + [False]), "trail": trail}))
misc_ins = st.one_of(
    st.fixed_dictionaries({"t": st.just("comment"), "s": st.sampled_from([" a comment", "", "|exit 100", "&x@y.example", "./mbox", "+list"])}),
    st.just({"t": "blank"}), st.fixed_dictionaries({"t": st.just("ws"), "trail": st.sampled_from([" ", "\t", " \t "])}),
    st.just({"t": "list"}), st.fixed_dictionaries({"t": st.just("plus"), "s": st.sampled_from(["listx", "lis", "LIST", "list x", ""])}))
instr = st.one_of(fwd_ins, fwd_ins, prog_ins, prog_ins, prog_ins, file_ins, file_ins, misc_ins)


def fix_body(body):
    """A whitespace-only FIRST line is not generated (documents call only an empty first line 'blank')."""
    if body and body[0]["t"] == "ws":
        body = [{"t": "blank"}] + body[1:]
    return body


body_st = st.one_of(st.lists(instr, min_size=1, max_size=6), st.lists(instr, min_size=2, max_size=6), st.lists(instr, min_size=0, max_size=3)).map(fix_body)
file_st = st.fixed_dictionaries({
    "name": st.one_of(st.sampled_from(NAMES), st.sampled_from(NAMES[:13])),
    "kind": st.sampled_from(["f"] * 9 + ["d"]),
    "mode": st.sampled_from([0o600] * 12 + [0o644] * 8 + [0o622, 0o700, 0o000, 0o755, 0o602, 0o640, 0o620, 0o744, 0o400]),
    "body": body_st,
    "nonl": st.sampled_from([False, False, False, True]),
})
dd_st = st.one_of(
    st.sampled_from(["./Mailbox", "./Maildir/", "./Mailbox", "|cat >Md_0; exit 0", "&postmaster@h.example", "./Mailbox\n&copy@h.example",
                     "|cat >Md_0; exit 99\n./Mailbox"]),
    st.fixed_dictionaries({"body": st.lists(st.one_of(fwd_ins, prog_ins, file_ins), min_size=1, max_size=3)}))
msg_st = st.fixed_dictionaries({
    "hdr": st.lists(st.sampled_from(["From: a@b.example", "To: joe@h.example", "Subject: hi", "Received: by x", "X-Long: " + "x" * 1100,
                                     "Delivered-To: someone@else.example", "\tfolded", "X-Empty:"]), max_size=4),
    "body": st.lists(st.sampled_from(["hello", "From me", "", ">From x", "\x00nul", "8bit \xe9", "x" * 1030]), max_size=3),
    "dt": st.sampled_from(["none"] * 40 + ["exact", "exact", "exact", "case", "trail", "longer", "shorter", "other", "crlf", "folded", "twice",
                                          "body", "lastnonl"]),
    "pos": st.integers(0, 5),
    "pad": st.sampled_from([None] * 5 + [985, 994, 1000, 1010, 1020, 1023, 1024, 1025, 2040, 2047, 3060, 4090, 8180]),
    "nohdr": st.sampled_from([False] * 7 + [True]),
    "sep": st.booleans(),
    "final_nl": st.sampled_from([True, True, True, False]),
})


OWNER_LABELS = ["x", "a", "x-y", "default", "B.c", "b", "zz-"]


def ext_for(name, draw):
    """An ext that (probably) selects `name`: the documented inverse of the search order."""
    if not name.startswith(".qmail-"):
        return None
    e = name[len(".qmail-"):]
    if e.endswith("-owner-default"):
        e = e[:-len("-owner-default")]
    elif e.endswith("-owner") and draw(st.booleans()):
        e = e[:-len("-owner")]
    if e.endswith("default") and draw(st.integers(0, 9)) < 8:
        e = e[:-7] + draw(st.sampled_from(OWNER_LABELS))
    if ":" in e and draw(st.booleans()):
        e = e.replace(":", ".")
    return e


@st.composite
def scenario(draw):
    files = draw(st.one_of(st.lists(file_st, min_size=1, max_size=7), st.lists(file_st, min_size=3, max_size=7),
                           st.lists(file_st, min_size=0, max_size=2)))
    dash = draw(st.sampled_from(["-"] * 5 + [""]))
    if dash == "" and draw(st.booleans()):
        files = files + [draw(file_st.map(lambda f: dict(f, name=".qmail")))]
    elif dash == "-" and draw(st.integers(0, 3)) == 0:
        files = files + [draw(file_st.map(lambda f: dict(f, name=".qmail-default")))]
    pick = draw(st.integers(0, 9))
    ext = None
    if dash == "":
        ext = "" if pick < 7 else None
    elif files and pick < 8:
        ext = ext_for(draw(st.sampled_from(files))["name"], draw)
    if ext is None:
        ext = draw(st.sampled_from(BASE_EXTS))
    if dash == "-" or ext:
        ext = mutate_ext(ext, draw(st.sampled_from(EXT_MUTS)))
    own = draw(st.integers(0, 11))
    if own < 3 and "/" not in ext:
        safe = lower_ascii(ext).replace(".", ":")
        files = files + [draw(file_st.map(lambda f: dict(f, name=".qmail" + dash + safe + "-owner")))]
        if own == 0:
            files = files + [draw(file_st.map(lambda f: dict(f, name=".qmail" + dash + safe + "-owner-default")))]
    return {
        "hmode": draw(st.sampled_from([0o755] * 30 + [0o700, 0o711, 0o775, 0o757, 0o1755, 0o777, 0o1777, 0o751, 0o1700])),
        "files": files, "dash": dash, "ext": ext, "user": "joe",
        "local": draw(st.sampled_from(LOCALS)), "host": draw(st.sampled_from(HOSTS)),
        "sender": draw(st.one_of(st.sampled_from(SENDERS), st.sampled_from(SENDERS[:3]),
                                 st.text(alphabet=st.characters(min_codepoint=1, max_codepoint=255), max_size=12))),
        "dd": draw(dd_st), "msg": draw(msg_st),
        "qq": draw(st.sampled_from([0] * 12 + [31, 53, 11, 91])),
        "fsel": draw(st.one_of(st.none(), st.none(), st.integers(0, 1000))),
    }


def plain_msg(dt="none"):
    return {"hdr": ["From: a@b.example", "Subject: hi"], "body": ["hello"], "dt": dt, "pos": 1, "nohdr": False, "sep": True, "final_nl": True}


def base_sc(**kw):
    sc = {"hmode": 0o755, "files": [], "dash": "-", "ext": "a", "user": "joe", "local": None, "host": "h.example",
          "sender": "s@x.example", "dd": "./Mailbox", "msg": plain_msg(), "qq": 0}
    sc.update(kw)
    return sc


def F(name, body, mode=0o600, kind="f", nonl=False):
    return {"name": name, "kind": kind, "mode": mode, "body": body, "nonl": nonl}


def P(code, env=False):
    return {"t": "prog", "exit": code, "env": env}


FW = {"t": "fwd", "amp": True, "addr": "me@new.job.example"}
FW2 = {"t": "fwd", "amp": False, "addr": "u1@h.example"}


def boundary_inputs(codes):
    out = []
    # every program exit status, followed by a forward that must only happen for 0 and 99
    for n in codes:
        out.append(base_sc(files=[F(".qmail-a", [FW2, P(n), {"t": "mbox", "ok": True}, FW])]))
    # the search order of dot-qmail.5 (foo-bar: .qmail-foo-bar, .qmail-foo-default, .qmail-default)
    allf = [F(".qmail-a-b", [P(0, True)]), F(".qmail-a-default", [P(0, True)]), F(".qmail-default", [P(0, True)]),
            F(".qmail-a-b-default", [P(0, True)]), F(".qmail-b-default", [P(0, True)])]
    for ext in ("a-b", "A-B", "a-c", "a-b-c", "b", "b-x-y", "c", "a-b-", "a-", "", "default", "a-default", "a.b", "d/../../out", "../out"):
        for drop in range(len(allf) + 1):
            out.append(base_sc(files=allf[drop:], ext=ext))
    # dots and case
    out.append(base_sc(files=[F(".qmail-a:b", [P(0)]), F(".qmail-a.b", [P(100)]), F(".qmail-default", [P(111)])], ext="A.b"))
    out.append(base_sc(files=[F(".qmail-A", [P(100)]), F(".qmail-default", [P(0, True)])], ext="A"))
    out.append(base_sc(files=[F(".qmail-d", [P(0)], kind="d"), F(".qmail-default", [P(0, True)])], ext="d/../../out"))
    out.append(base_sc(files=[F(".qmail-d", [P(0)], kind="d"), F(".qmail-default", [P(0, True)])], ext="d/x"))
    # modes
    for mode in (0o600, 0o644, 0o622, 0o602, 0o700, 0o000, 0o755, 0o620, 0o640):
        out.append(base_sc(files=[F(".qmail-a", [P(0), FW], mode=mode), F(".qmail-default", [P(0)])]))
        out.append(base_sc(files=[F(".qmail-a", [FW, FW2], mode=mode)]))
        out.append(base_sc(files=[F(".qmail-a", [], mode=mode)], dd="|cat >Md_0; exit 0"))
    for hm in (0o755, 0o700, 0o775, 0o757, 0o1755, 0o777, 0o1777):
        out.append(base_sc(files=[F(".qmail-a", [P(0), FW])], hmode=hm))
    # loops
    for dt in ("exact", "case", "trail", "longer", "shorter", "other", "crlf", "folded", "twice", "body", "lastnonl"):
        out.append(base_sc(files=[F(".qmail-a", [P(0), FW])], msg=plain_msg(dt)))
        out.append(base_sc(files=[F(".qmail-a", [P(0), FW])], msg=plain_msg(dt), local="new\nline", host="h.example\nX: y"))
    # +list and near misses, x bit
    for pl in ({"t": "list"}, {"t": "plus", "s": "listx"}, {"t": "plus", "s": "lis"}, {"t": "plus", "s": "LIST"}):
        out.append(base_sc(files=[F(".qmail-a", [FW, pl, P(0), FW2])]))
        out.append(base_sc(files=[F(".qmail-a", [P(0), pl, {"t": "mbox", "ok": True}, FW2])]))
        out.append(base_sc(files=[F(".qmail-a", [pl, FW, FW2])]))
    # owner rule
    for snd in ("s@x.example", "", "#@[]", "#@[]x", "new\nline@x"):
        for own in ([], [".qmail-a-owner"], [".qmail-a-owner", ".qmail-a-owner-default"], [".qmail-a-owner-default"], [".qmail-default-owner"]):
            out.append(base_sc(files=[F(".qmail-default", [FW, P(0, True)])] + [F(n, [P(100)]) for n in own], sender=snd))
    # exit 99 / failure ordering
    out.append(base_sc(files=[F(".qmail-a", [FW, P(99), P(100), FW2])]))
    out.append(base_sc(files=[F(".qmail-a", [FW, {"t": "prog", "kill": True}, FW2])]))
    out.append(base_sc(files=[F(".qmail-a", [FW, {"t": "maildir", "ok": False}, P(0)])]))
    out.append(base_sc(files=[F(".qmail-a", [{"t": "blank"}, P(0)])]))
    out.append(base_sc(files=[F(".qmail-a", [{"t": "comment", "s": ""}, {"t": "blank"}, {"t": "ws", "trail": " \t"}, P(0), {"t": "maildir", "ok": True}], nonl=True)]))
    out.append(base_sc(files=[], dash="", ext="", dd="./Mailbox"))
    out.append(base_sc(files=[F(".qmail", [], mode=0o700)], dash="", ext="", dd="./Maildir/"))
    out.append(base_sc(files=[F(".qmail-a", [FW, FW2])], qq=31))
    out.append(base_sc(files=[F(".qmail-a", [FW, FW2])], qq=53))
    return out


# ------------------------------------------------------------------ driver

REQUIRED_CLASSES = ["sel_exact", "sel_default", "why_no_mailbox", "why_home_refused", "why_home_sticky", "why_file_refused", "why_loop",
                    "why_first_blank", "why_forwardonly_refused", "why_prog_hard", "why_prog_soft", "why_prog_crash", "exit99_stops",
                    "forwarded", "fwd_sender_owner", "fwd_sender_verp", "failure_blocks_forward", "candidates_ge2", "kinds_ge2",
                    "hostile_newline", "ext_path_chars", "ext_case_or_dot", "env_checked", "mailbox_copy_checked", "plus_list"]


def get_patrn(tree):
    try:
        return int(tree.conf("conf-patrn"), 8)
    except ValueError:
        raise vlib.HarnessError("conf-patrn is not octal: %r" % tree.conf("conf-patrn"))


def worker(job):
    tree, wid, seed, nex, binputs = job
    stats = vlib.Stats()
    box = lc.Box(tree, "c13-%s" % wid)
    patrn = get_patrn(tree)
    for sc in binputs:
        v = run_case(box, sc, stats, patrn)
        if v:
            stats.violations.append((v, sc))
            return stats

    def runfn(sc, stats):
        stats.cls("hypothesis_examples")
        return run_case(box, sc, stats, patrn)
    if nex:
        vlib.hyp_search(scenario(), runfn, nex, seed, stats)
    return stats


def run(ctx):
    sandbox.ensure_shim()
    tree = vlib.Tree().make("qmail-local")
    if ctx.quick:
        import random
        rnd = random.Random(vlib.subseed(ctx.seed, "c13-codes"))
        codes = DOC_CODES + rnd.sample([c for c in range(256) if c not in DOC_CODES], 12)
    else:
        codes = list(range(256))
    b = boundary_inputs(codes)
    reg = []
    d = os.path.join(vlib.VERIF, "corpus", "C13", "regress")
    if os.path.isdir(d):
        for f in sorted(os.listdir(d)):
            if f.endswith(".json"):
                x = json.load(open(os.path.join(d, f)))
                reg.append(x.get("scenario", x))
    b = reg + b
    nw = vlib.NCPU
    per = ctx.n(1000, 16000)
    jobs = [(tree, i, vlib.subseed(ctx.seed, "c13", i), per, b[i::nw]) for i in range(nw)]
    ctx.stats.merge(vlib.run_workers(worker, jobs))
    ctx.notes["conf_patrn"] = oct(get_patrn(tree))
    ctx.notes["boundary_inputs"] = len(b)
    if not ctx.stats.violations:
        missing = [c for c in REQUIRED_CLASSES if not ctx.stats.classes.get(c)]
        if missing:
            raise vlib.HarnessError("GENERATOR-STARVED: classes never produced: %s" % missing)


def replay(ctx, path):
    sandbox.ensure_shim()
    tree = vlib.Tree().make("qmail-local")
    sc = json.load(open(path))
    sc = sc.get("scenario", sc)
    box = lc.Box(tree, "c13-replay")
    v = run_case(box, sc, ctx.stats, get_patrn(tree))
    return [v] if v else []
