"""C15 layers 1 and 2 (in-process): the retry arithmetic of qmail-send.c and the priority queue prioq.c.

  run_arith(ctx)            builds inproc/c15_send.c (qmail-send.c #included; squareroot(), nextretry()) and
                            inproc/c15_prioq.c (prioq.c #included behind a failing allocator), runs them in shards,
                            adds the counters to ctx.stats and appends violations (message, replay-file path).
  replay_arith(ctx, path)   re-executes one saved case file (*.c15case); returns the list of violation messages.

Layer 1 oracle: squareroot(x) = r with r*r <= x < (r+1)*(r+1) in 128-bit integers - thorough: EVERY x in [0, 2^32) in 16+
shards; quick: every x with |x - k*k| <= 2 (k <= 65536) plus 10^7 seeded x.  nextretry(birth, chan) with `recent` set by the
harness = birth + (floor(sqrt(max(recent-birth, 0))) + 10 (chan 0, local) | 20 (chan 1, remote))^2 and > recent, on the grid
now in {0, 1, 10^9, 2^31-1, 2^31, 2^32, 1.79*10^9, 2100-01-01, 10^10} / birth in {0, 1, 10^9, 2^31-1, 2^32, -1, -86400} x
age in {k^2-1, k^2, k^2+1 : k <= 65535} + {-5..5, lifetime-1..lifetime+1, 59..61, 3599..3601, 2^31-1, 2^31, 2^32-2, 2^32-1, ...}
x both channels, plus seeded triples.  Ages >= 2^32 (136 years) are outside the property's quantifier and are not checked.
Layer 2 oracle (model = sorted multiset of (dt, id) with unique ids): after every step sizes agree, heap order holds for every
parent/child, heap content == model, prioq_min gives an element with the minimal dt that is in the model, prioq_delmin removes
exactly it, a refused allocation makes prioq_insert return 0 and changes nothing; finally the queue drains in non-decreasing order.
ALL sequences over {insert 0..3, delmin} up to length 9 (quick) / 10 (thorough) x {no allocation failure, first, second allocator call
fails}; seeded sequences up to 400 / 1200 steps with keys from {0..3 | 0..15, full signed 64-bit incl. LONG_MIN/MAX, monotone,
reverse, clock + quadratic back-off}, the failing allocator call drawn from 0..4 (sizes pass the 102-element regrowth).
"""
import os, re, hashlib, subprocess
from lib import vlib, inproc

PID = "C15"
SEND_LIBS = ("qsutil.o control.o constmap.o newfield.o prioq.o trigger.o fmtqfn.o quote.o readsubdir.o qmail.o date822fmt.o "
             "datetime.a case.a ndelay.a getln.a wait.a fd.a sig.a open.a lock.a stralloc.a substdio.a error.a str.a fs.a "
             "auto_qmail.o auto_split.o env.a")

RULE_ARITH = ("squareroot: every x in [0,2^32) (thorough) / every x within 2 of a perfect square + 10^7 seeded (quick); nextretry: dense "
              "(now|birth, age, channel) grid + seeded triples; prioq: ALL operation sequences over {insert 0..3, delmin} up to length 9/10 "
              "x {no, 1st, 2nd allocator call failing} + seeded long sequences in five key families. Non-trivial: every arithmetic point; "
              "prioq sequences with >= 2 operations; distinct by construction (enumerations) / up to negligible collisions (seeded).")


def build(tree):
    tree.make("qmail-send")
    san = inproc.SAN
    send = tree.path("c15_send")
    cmd = "clang -g -O2 -fno-omit-frame-pointer %s -Wno-everything -I%s -I%s/inproc %s %s -o %s" % (
        san, tree.dir, vlib.VERIF, os.path.join(vlib.VERIF, "inproc/c15_send.c"), inproc.dedup_libs(SEND_LIBS), send)
    p = vlib.sh(cmd, cwd=tree.dir)
    if p.returncode != 0:
        raise vlib.HarnessError("c15_send harness build failed:\n%s\n%s" % (cmd, p.stdout.decode(errors="replace")[-3000:]))
    pq = tree.path("c15_prioq")
    cmd = "clang -g -O1 -fno-omit-frame-pointer %s -Wno-everything -I%s -I%s/inproc %s error.a -o %s" % (
        san, tree.dir, vlib.VERIF, os.path.join(vlib.VERIF, "inproc/c15_prioq.c"), pq)
    p = vlib.sh(cmd, cwd=tree.dir)
    if p.returncode != 0:
        raise vlib.HarnessError("c15_prioq harness build failed:\n%s\n%s" % (cmd, p.stdout.decode(errors="replace")[-3000:]))
    return send, pq


def _bin_for(line, send, pq):
    return pq if line.startswith("prioq ") else send


def replay_line(binp, line):
    d = os.path.join(vlib.scratch_root(), "rp15")
    os.makedirs(d, exist_ok=True)
    f = os.path.join(d, "case-%s-%d" % (hashlib.sha1(line.encode()).hexdigest()[:12], os.getpid()))
    open(f, "w").write(line + "\n")
    p = subprocess.run([binp, "--replay", f], stdout=subprocess.PIPE, stderr=subprocess.STDOUT,
                       env=dict(os.environ, ASAN_OPTIONS="detect_leaks=0"))
    os.unlink(f)
    out = p.stdout.decode(errors="replace")
    if p.returncode == 0:
        return None
    _, v = inproc.parse_stats(out)
    if v:
        return v[0].split(" msg=", 1)[-1]
    return "CRASH rc=%s %s" % (p.returncode, out[-1200:])


def shrink_prioq(pq, line):
    m = re.match(r"prioq fail=(-?\d+) ops=(\S*)", line)
    if not m:
        return line
    fail, ops = int(m.group(1)), [o for o in m.group(2).split(",") if o]

    def mk(o, f=fail):
        return "prioq fail=%d ops=%s" % (f, ",".join(o))

    def fails(o, f=fail):
        return replay_line(pq, mk(o, f)) is not None
    if fail >= 0 and fails(ops, -1):
        fail = -1
    # ddmin over the operation list
    n = 2
    while len(ops) >= 2:
        chunk = max(1, len(ops) // n)
        reduced = False
        for i in range(0, len(ops), chunk):
            cand = ops[:i] + ops[i + chunk:]
            if fails(cand, fail):
                ops, n, reduced = cand, max(n - 1, 2), True
                break
        if not reduced:
            if chunk == 1:
                break
            n = min(n * 2, len(ops))
    # smaller keys: rank-compress the inserted values
    vals = sorted({int(o[1:]) for o in ops if o.startswith("i")})
    rank = {v: i for i, v in enumerate(vals)}
    cand = ["i%d" % rank[int(o[1:])] if o.startswith("i") else o for o in ops]
    if fails(cand, fail):
        ops = cand
    return mk(ops, fail)


def save_case(line, msg):
    d = os.path.join(vlib.OUT, "replays", PID)
    os.makedirs(d, exist_ok=True)
    f = os.path.join(d, hashlib.sha1(line.encode()).hexdigest()[:16] + ".c15case")
    open(f, "w").write(line + " msg=" + msg.replace("\n", " ") + "\n")
    return f


def run_arith(ctx, tree=None):
    tree = tree or vlib.Tree(tag="-c15a")
    send, pq = build(tree)
    nsh = vlib.NCPU
    seed = ctx.seed
    viols = []
    # regression corpus
    reg = os.path.join(vlib.VERIF, "corpus", PID, "regress")
    nreg = 0
    if os.path.isdir(reg):
        for f in sorted(os.listdir(reg)):
            if not f.endswith(".c15case"):
                continue
            nreg += 1
            for line in open(os.path.join(reg, f)):
                line = line.strip()
                if line and not line.startswith("#"):
                    line = line.split(" msg=")[0]
                    m = replay_line(_bin_for(line, send, pq), line)
                    ctx.stats.evaluations += 1
                    if m:
                        viols.append((line, "regress:%s: %s" % (f, m)))
    ctx.stats.cls("arith:regress_files", nreg)
    # layer 1
    cmds = [[send, "--sqrt-near", str(i), str(nsh)] for i in range(nsh)]
    if ctx.quick:
        per = 10 ** 7 // nsh + 1
        cmds += [[send, "--sqrt-rand", str(vlib.subseed(seed, PID, "sq", i)), str(per)] for i in range(nsh)]
    else:
        nr = max(16, nsh) * 4           # 64+ ranges so that the shards balance
        step = (1 << 32) // nr
        cmds += [[send, "--sqrt-range", str(i * step), str((1 << 32) if i == nr - 1 else (i + 1) * step)] for i in range(nr)]
    v = inproc.merge_c_stats(ctx, inproc.run_shards(cmds), "sqrt")
    cmds = [[send, "--nextretry", str(vlib.subseed(seed, PID, "nr", i)), str(ctx.n(300000, 6000000)), str(i), str(nsh)] for i in range(nsh)]
    v += inproc.merge_c_stats(ctx, inproc.run_shards(cmds), "nextretry")
    # layer 2
    maxlen = ctx.n(9, 10)
    cmds = [[pq, "--enum", str(maxlen), str(i), str(nsh)] for i in range(nsh)]
    v += inproc.merge_c_stats(ctx, inproc.run_shards(cmds), "prioq-enum")
    cmds = [[pq, "--rand", str(vlib.subseed(seed, PID, "pq", i)), str(ctx.n(2500, 6000)), str(ctx.n(400, 1200))] for i in range(nsh)]
    v += inproc.merge_c_stats(ctx, inproc.run_shards(cmds), "prioq-rand")
    ctx.notes["arith_exhaustive_part"] = ("squareroot: %s; prioq: all %d-ary operation sequences up to length %d x 3 allocator scripts" % (
        "every x with |x-k^2| <= 2, k <= 65536" if ctx.quick else "every x in [0, 2^32)", 5, maxlen))
    ctx.exhaustive = True
    viols = viols[:3]
    seen = set()
    for line in v:
        if " msg=" not in line:
            key = re.sub(r"0x[0-9a-f]+|\d+", "#", line)[-60:]
            if key not in seen and len(seen) < 6:
                seen.add(key)
                viols.append((None, line))
            continue
        if len(seen) >= 6:
            break
        case, msg = line.split(" msg=", 1)
        key = re.sub(r"-?\d+", "#", msg)[:50]
        if key in seen:
            continue
        seen.add(key)
        if case.startswith("prioq "):
            case = shrink_prioq(pq, case)
            msg = replay_line(pq, case) or msg
        viols.append((case, msg))
    for case, msg in viols:
        if case is None:
            ctx.stats.violations.append(("arith: " + msg, None))
        else:
            ctx.stats.violations.append(("arith: %s | %s" % (msg, case[:600]), save_case(case, msg)))


def replay_arith(ctx, path, tree=None):
    tree = tree or vlib.Tree(tag="-c15a")
    send, pq = build(tree)
    out = []
    for line in open(path):
        line = line.strip()
        if not line or line.startswith("#"):
            continue
        line = line.split(" msg=")[0]
        m = replay_line(_bin_for(line, send, pq), line)
        if m:
            out.append(m)
    return out
