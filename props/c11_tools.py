"""Private copies of shim/vshim.so and shim/standin for one check run (used by C11 and C17).
The shared files under /verif/shim are rebuilt in place by `make` (sandbox.ensure_shim() of any concurrently running check does
that when vshim.c is newer); a process started during that window runs without the interposer ("invalid ELF header") and a
valid run looks like a violation. Each run therefore works on a verified private copy under its scratch directory."""
import os, shutil, subprocess, time
from lib import vlib, sandbox

_cache = {}


def private_tools():
    """-> (path of private vshim.so, path of private standin)"""
    if "t" in _cache:
        return _cache["t"]
    d = os.path.join(vlib.scratch_root(), "tools")
    os.makedirs(d, exist_ok=True)
    shim = os.path.join(d, "vshim.so")
    standin = os.path.join(d, "standin")
    last = ""
    for attempt in range(40):
        try:
            shutil.copy2(sandbox.SHIM, shim)
            shutil.copy2(sandbox.STANDIN, standin)
            os.chmod(standin, 0o755)
            p = subprocess.run(["/bin/true"], env={"LD_PRELOAD": shim}, stdout=subprocess.PIPE, stderr=subprocess.PIPE, timeout=20)
            t = os.path.join(d, "selftest")
            shutil.rmtree(t, ignore_errors=True)
            os.makedirs(t)
            q = subprocess.run([standin, "x"], env={"SI_DIR": t, "LD_PRELOAD": shim}, stdin=subprocess.DEVNULL, stdout=subprocess.PIPE,
                               stderr=subprocess.PIPE, timeout=20)
            if p.returncode == 0 and not p.stderr and q.returncode == 0 and not q.stderr and any(f.endswith(".argv") for f in os.listdir(t)):
                _cache["t"] = (shim, standin)
                return _cache["t"]
            last = (p.stderr + q.stderr).decode(errors="replace")[:300]
        except (OSError, subprocess.SubprocessError) as e:
            last = repr(e)
        time.sleep(0.5)
    raise vlib.HarnessError("no usable copy of shim/vshim.so + shim/standin: " + last)
