"""C06 - Outbound SMTP DATA cannot be terminated or hijacked by message content (qmail-remote blast())."""
from props import c0506_common as cc
LEVEL = "exploration"
RULE = ("In-process qmail-remote.c blast(): (a) ALL messages over {CR,LF,'.','x'} up to length 12/14; (b) every chunking of the "
        "file reads up to length 9/10; (c) seeded random long messages incl. the 1024-byte inbuf boundary, read errors at random "
        "offsets; (d) libFuzzer. Oracle: CRLF.CRLF exactly once and as suffix, no bare LF, the reference receiver AND qmail-smtpd's "
        "decoder consume exactly the payload and return lines(m); CR-free messages byte-identical; partial last line => D, "
        "read error => Z. Non-trivial = message has a CR or a line starting with '.'.")
ASSUMPTIONS = ["a bare CR in a queued message is a line break (as the repository's own test_blast_barecr fixes)"]
def run(ctx): cc.run(ctx, 6)
def replay(ctx, path): return cc.replay(ctx, 6, path)
