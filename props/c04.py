"""C04 - Finished recipients are never retried; at most one attempt in flight (driven world, see props/c03.py and lib/qhistory.py)."""
from props import qs_common as q
LEVEL = "exploration"
RULE = ("Histories as for C03 with concurrencylocal/remote in {0,1,2,3,255,1000}, announced spawner limits in {0,1,2,120,255}, up to 12 "
        "recipients per message incl. duplicate addresses (plus four fixed histories with 138..392 recipients against limits 120..255 and configured 5..400), TERM+restart, and crash points (image kept) taken from the scenario's own trace. "
        "Oracle over commands/reports/record marks: outstanding attempts per (message, channel, address) never exceed the unmarked records, "
        "outstanding per channel <= min(configured, announced), delivery numbers distinct and in range, no command after TERM, exit 0 only with "
        "nothing outstanding, crash-free histories give every recipient exactly one final (K/D) attempt. Non-trivial = >= 2 attempts outstanding "
        "at once or a restart/crash after a mark; distinct = scenario digest.")
ASSUMPTIONS = ["one action per quiescent point", "crash images restricted to 'kept' (a lost 1-byte mark legitimately causes a re-attempt, INTERNALS section 6)"]
TAGS = ("C04",)


CTL = {"me": "me.example\n", "locals": "loc.example\n"}


def fx(msgs, scripts, tape, actions, ctl=None, limits=(120, 120)):
    return {"controls": dict(CTL, **(ctl or {})), "limits": list(limits), "messages": msgs, "scripts": scripts, "bscript": "", "texts": ["ok"],
            "tape": tape, "actions": actions, "mode": {"kind": "none"}}


# fully swept in every run (all crash points with image kept, all single faults): a delivery that stays in flight while the clock is
# stepped past the 123 s system-failure retry and an ALRM arrives, then restarts - the situations in which a second job for the same
# message could be opened
FULLY_SWEPT = [
    fx([{"sender": "s@rem.example", "rcpts": ["r@rem.example"], "body": "x\n"}], {"0:0": "K"},
       [1, 0, 1, 0, 1, 0, 3, 0, 0, 0], ["answer", "inject", "advance", "alrm"]),
    fx([{"sender": "s@rem.example", "rcpts": ["joe@loc.example", "ann@loc.example", "joe@loc.example"], "body": "x\n"}], {"0:0": "ZK", "0:1": "K", "0:2": "ZZK"},
       [3, 0, 0, 0, 2, 0, 0, 0, 6, 0], ["answer", "inject", "advance", "alrm", "term"], limits=(2, 120)),
    # a deferred message on both channels is read back at the next start, where every call (the stat()s of the start-up scan among them) fails
    # once; then the clock passes the 123 s system-failure retry and the retry times (added after seeded change C04-I)
    dict(fx([{"sender": "s@rem.example", "rcpts": ["joe@loc.example", "r@rem.example"], "body": "x\n"}], {"0:0": "ZZK", "0:1": "ZZK"},
            [], ["answer", "inject", "advance", "term"]), plan=["inject", "answer", "answer", "term", "advance_due", "advance_due", "advance_due"]),
]


# message numbers are inode numbers: beyond 32 bits on file systems with 64-bit inodes. One recipient finishes while another is deferred, so
# the address list outlives the job; then the retry, an ALRM and a clean restart (added after seeded change C04-M)
BIG = [dict(fx([{"sender": "s@rem.example", "rcpts": ["joe@loc.example", "ann@loc.example", "r@rem.example", "q@rem.example"], "body": "x\n", "preplaced_id": n}],
               {"0:0": "K", "0:1": "ZZK", "0:2": "ZK", "0:3": "D"}, [], ["answer", "inject", "advance", "alrm", "term"]), plan=plan)
       for n in (2 ** 32 + 4242, 2 ** 40 + 7, 4242, 2 ** 63 + 11)
       for plan in (["answer", "answer", "answer", "answer", "alrm", "answer", "answer", "term"], ["answer", "answer", "answer", "answer", "term", "advance_due"])]


def wide(limits, conc, nloc, nrem, tape=()):
    """more simultaneously deliverable recipients than the announced limit allows (added after seeded change C04-D: limit bytes 128..255 and
    configured values above them; the random scenarios have at most 12 recipients and can never fill such a channel)"""
    rc = ["l%03d@loc.example" % i for i in range(nloc)] + ["r%03d@rem.example" % i for i in range(nrem)]
    return fx([{"sender": "s@rem.example", "rcpts": rc, "body": "x\n"}], {}, list(tape), ["answer", "inject", "advance"],
              ctl={"concurrencylocal": "%d\n" % conc[0], "concurrencyremote": "%d\n" % conc[1]}, limits=limits)


# run once each, no crash/fault sweep (hundreds of record marks each)
WIDE = [
    wide((120, 130), (10, 140), 2, 136),            # announced 130 < configured 140 < recipients
    wide((128, 120), (200, 5), 133, 7),             # smallest limit byte with the top bit set, local channel
    wide((255, 255), (400, 300), 130, 262),         # largest announceable limit, configured values beyond one byte
    wide((200, 127), (150, 250), 160, 131),         # configured below the announced limit on one channel, above on the other
]


def run(ctx):
    q.search(ctx, "C04", TAGS, 0, 0, sweep={"all": True, "kept_only": True, "restarts": True}, fixed=FULLY_SWEPT)
    q.search(ctx, "C04", TAGS, 0, 0, fixed=WIDE + BIG)
    q.search(ctx, "C04", TAGS, 50, 700, sweep={"crash_kept": 4, "fault": 3, "restarts": True})


def replay(ctx, path):
    return q.replay_scenario(ctx, path, TAGS)
