"""C04 - Finished recipients are never retried; at most one attempt in flight (driven world, see props/c03.py and lib/qhistory.py)."""
from props import qs_common as q
LEVEL = "exploration"
RULE = ("Histories as for C03 with concurrencylocal/remote in {0,1,2,3,255,1000}, announced spawner limits in {0,1,2,120,255}, up to 12 "
        "recipients per message incl. duplicate addresses, TERM+restart, and crash points (image kept) taken from the scenario's own trace. "
        "Oracle over commands/reports/record marks: outstanding attempts per (message, channel, address) never exceed the unmarked records, "
        "outstanding per channel <= min(configured, announced), delivery numbers distinct and in range, no command after TERM, exit 0 only with "
        "nothing outstanding, crash-free histories give every recipient exactly one final (K/D) attempt. Non-trivial = >= 2 attempts outstanding "
        "at once or a restart/crash after a mark; distinct = scenario digest.")
ASSUMPTIONS = ["one action per quiescent point", "crash images restricted to 'kept' (a lost 1-byte mark legitimately causes a re-attempt, INTERNALS section 6)"]
TAGS = ("C04",)


def run(ctx):
    q.search(ctx, "C04", TAGS, 60, 700, sweep={"crash_kept": 4})


def replay(ctx, path):
    return q.replay_scenario(ctx, path, TAGS)
