"""C20, daemon part: the real qmail-send / qmail-clean / qmail-queue built with AddressSanitizer + UndefinedBehaviorSanitizer and driven
through histories of the driven world (lib/qworld.py, lib/qhistory.py): deliveries with K/Z/D/garbled reports, bounces and double
bounces, expiry past queuelifetime, HUP with rewritten control files, ALRM, TERM + restart - each fixed history re-executed under EVERY
single injected I/O failure of the daemon taken from its own system-call trace (so the error paths of reread(), todo_do(), pass_dochan(),
injectbounce(), markdone() run under the sanitizers), plus Hypothesis-generated histories with a strided selection of faults.
Oracle (memory safety only; what the daemon does semantically is judged by C03/C04/C10/C14/C15): no AddressSanitizer report (collected
through the interposer's report callback, wherever the daemon's stderr goes) and the daemon is never killed by SIGSEGV/SIGBUS/SIGILL/
SIGABRT/SIGFPE (UBSan is built with -fno-sanitize-recover and aborts)."""
import os, glob, re, hashlib, signal
from lib import vlib, sandbox
from props import qs_common as q

CTL = {"me": "me.example\n", "locals": "loc.example\n", "virtualdomains": "virt.example:vuser\n"}
BAD_SIGNALS = {-signal.SIGSEGV, -signal.SIGBUS, -signal.SIGILL, -signal.SIGABRT, -signal.SIGFPE}


def hist(msgs, scripts, plan=(), tape=(), actions=("answer", "inject", "advance"), ctl=None, bscript="", texts=("ok", "user unknown\n"), hup=None):
    sc = {"controls": dict(CTL, **(ctl or {})), "limits": [120, 120], "messages": msgs, "scripts": scripts, "bscript": bscript,
          "texts": list(texts), "tape": list(tape), "plan": list(plan), "actions": list(actions), "mode": {"kind": "none"}}
    if hup:
        sc["hup_controls"] = hup
    return sc


M1 = {"sender": "s@rem.example", "rcpts": ["joe@loc.example", "ann@rem.example", "v@virt.example"], "body": "Subject: t\n\nb\n"}
M2 = {"sender": "t@rem.example", "rcpts": ["bob@rem.example", "list@virt.example"], "body": "y\n"}
LONG = "long " + "y" * 3000

# every single I/O failure of the daemon is injected into each of these (the whole sweep runs in every tier)
FULLY_SWEPT = [
    # HUP between two messages, control files rewritten (re-read succeeds / fails at every call), then ALRM and a clean stop
    hist([M1, M2], {"0:0": "K", "0:1": "ZK", "0:2": "D", "1:0": "K", "1:1": "K"}, plan=["inject", "answer", "hup", "inject", "answer", "alrm", "hup"],
         actions=("answer", "inject", "advance", "hup", "alrm", "term"), bscript="K",
         hup={"locals": "loc.example\nl2.example\n", "virtualdomains": "virt.example:vuser\n.virt.example:vsub\nrem.example:relay\n"}),
    # a message expiring past queuelifetime with a long temporary failure text, bounce -> double bounce -> discard
    hist([{"sender": "s@rem.example", "rcpts": ["r@rem.example", "joe@loc.example"], "body": "x\n"}], {"0:0": "ZZ", "0:1": "D"},
         ctl={"queuelifetime": "0\n"}, bscript="DD", texts=(LONG, "no such user\n\n<forged@x>:\nline")),
]


# envelopes wider than the daemon's own buffers (1 kB of records per channel while the other channel still has records pending, an 8 kB todo
# read buffer): run once each under the sanitizers, without the fault sweep (added after seeded change C20-L; C03 and C10 judge what
# comes out of the pre-processing, this part only that nothing is written outside a buffer on the way)
def _wide(nloc, nrem, first):
    loc = ["local-recipient-number-%03d@loc.example" % i for i in range(nloc)]
    rem = ["remote-recipient-number-%03d@rem.example" % i for i in range(nrem)]
    rc = (rem + loc) if first == "R" else (loc + rem)
    return hist([{"sender": "s@rem.example", "rcpts": rc, "body": "x\n"}], {"0:0": "ZK", "0:1": "D"}, bscript="K")


WIDE = [_wide(60, 10, "R"), _wide(10, 60, "L"), _wide(45, 45, "L"), _wide(300, 2, "R")]


def new_logs(base, seen):
    out = []
    for f in sorted(glob.glob(base + ".*")):
        if f not in seen:
            seen.add(f)
            out.append(f)
    return out


def report_key(txt):
    m = re.search(r"(ERROR: AddressSanitizer: [^\n]*|runtime error: [^\n]*)", txt)
    key = m.group(1) if m else txt[:120]
    frames = re.findall(r"#\d+ 0x[0-9a-f]+ in (\S+)", txt)[:3]
    return re.sub(r"0x[0-9a-f]+", "0x..", key)[:160] + (" in " + " < ".join(frames) if frames else "")


def run_daemon_part(ctx):
    sandbox.ensure_shim()
    tree = vlib.Tree(sanitize=True, tag="-c20d").make("qmail-queue", "qmail-send", "qmail-clean")
    logdir = os.path.join(vlib.scratch_root(), "c20d-logs")
    os.makedirs(logdir, exist_ok=True)
    nw = vlib.NCPU
    # the fully swept histories are split over the workers by fault site: each worker takes the whole history but a slice of the sites
    jobs = []
    for i in range(nw):
        jobs.append((tree, i, vlib.subseed(ctx.seed, "c20d", i), ctx.n(4, 120), [dict(sc, _slice=(i, nw)) for sc in FULLY_SWEPT], os.path.join(logdir, "asan-%d" % i)))
    for i, sc in enumerate(WIDE):
        jobs[(3 + 4 * i) % nw][4].append(dict(sc, _slice=(0, 10 ** 9)))
    st = vlib.run_workers(worker_sliced, jobs)
    ctx.stats.merge(st)
    ctx.notes["daemon_part"] = "sanitised qmail-send/qmail-clean/qmail-queue: %d fixed histories swept over every single I/O failure + generated histories" % len(FULLY_SWEPT)


def worker_sliced(job):
    """like worker(), but a fully swept history carries _slice=(i, n): this worker injects only every n-th fault site starting at i"""
    tree, wid, seed, nex, fixed, logbase = job
    plain = []
    for sc in fixed:
        sc = dict(sc)
        sl = sc.pop("_slice", None)
        plain.append((sc, sl))
    stats = vlib.Stats()
    r = q.Runner(tree, "c20d-%s" % wid)
    r.world.extra_env = {"VSHIM_SANLOG": logbase, "ASAN_OPTIONS": "detect_leaks=0", "UBSAN_OPTIONS": "print_stacktrace=1"}
    seen = set()

    def judge(sc, res):
        if res.inconclusive:
            stats.inconclusive += 1
            return None
        cls = sorted(c for c in res.classes if c.startswith(("hup", "alrm", "term", "bounce", "double_bounce", "fault_reached", "outcome_", "exit_under")))
        stats.case(scenario=sc if sc["mode"]["kind"] == "none" else {"mode": sc["mode"], "base": q.sc_key(sc)},
                   nontrivial=bool(res.classes & {"fault_reached", "hup", "bounce", "outcome_Z", "outcome_D"}),
                   classes=["daemon:" + c for c in cls] + ["daemon:history"], key=(q.sc_key(sc), vlib.digest(sc["mode"])))
        logs = new_logs(logbase, seen)
        if logs:
            txt = open(logs[0], errors="replace").read()
            return "sanitised qmail-send/qmail-clean/qmail-queue in a daemon history: %s" % report_key(txt)
        died = [c for c in res.classes if c.startswith("exit_under_fault_-") and int(c.rsplit("_", 1)[1]) in BAD_SIGNALS]
        for t, m in res.viol:
            mm = re.search(r"exited unexpectedly with status (-\d+)", m)
            if mm and int(mm.group(1)) in BAD_SIGNALS:
                died.append(m)
        if died:
            return "sanitised daemon killed by a fatal signal in a daemon history (%s); log tail %r" % (died[0][:160], res.stats.get("log_tail", "")[-200:])
        return None

    def sites_of(sc):
        ev = r.world.h.read_trace()
        sites = []
        seen_s = set()
        for cls, k, e in sandbox.fault_sites(ev):
            if not e["key"].startswith(("send.", "clean.")) or cls in ("pwrite", "close", "chdir", "lseek", "pipe", "fork", "flock"):
                continue
            if cls == "read" and not e["key"].endswith("qmail-send"):
                continue
            if (e["key"], cls, k) in seen_s:
                continue
            seen_s.add((e["key"], cls, k))
            for er in {"open": ["13", "23"], "read": ["5"], "write": ["28", "short"], "fsync": ["5"], "unlink": ["5"], "stat": ["5"], "fstat": ["5"],
                       "link": ["5"], "utimes": ["5"], "opendir": ["23"], "readdir": ["5"], "ftruncate": ["5"]}.get(cls, []):
                sites.append({"kind": "fault", "key": e["key"], "cls": cls, "k": k, "err": er})
        return sites

    def run_all(sc, sweep, sl=None):
        res = r.run(sc)
        v = judge(sc, res)
        if v:
            failing[0] = sc
            return v
        sites = sites_of(sc)
        if sl is not None:
            sites = sites[sl[0]::sl[1]]
        elif sweep != "all":
            h = int(q.sc_key(sc)[:8], 16)
            stride = max(1, len(sites) // sweep) if sites else 1
            sites = sites[h % stride::stride][:sweep]
        for mode in sites:
            sc2 = dict(sc, mode=mode)
            v = judge(sc2, r.run(sc2))
            if v:
                failing[0] = sc2
                return "%s | mode=%s" % (v, vlib.json.dumps(mode))
        return None

    failing = [None]
    try:
        for sc, sl in plain:
            v = run_all(sc, "all", sl)
            if v:
                stats.violations.append((v, failing[0]))
                return stats
        if nex:
            vlib.hyp_search(q.scenario_strategy("C03"), lambda sc, st_: run_all(sc, 3), nex, seed, stats)
            # Hypothesis reports the base history; the replay needs the failing mode as well
            stats.violations = [(m, failing[0] if failing[0] is not None and q.sc_key(dict(failing[0], mode={"kind": "none"})) == q.sc_key(sc_) else sc_)
                                for m, sc_ in stats.violations]
    finally:
        r.close()
    return stats


def replay(ctx, path):
    """re-execute one saved daemon history (with its injected failure, if any) three times under the sanitizers"""
    import json
    sandbox.ensure_shim()
    j = json.load(open(path))
    sc = j.get("scenario", j)
    tree = vlib.Tree(sanitize=True, tag="-c20d").make("qmail-queue", "qmail-send", "qmail-clean")
    logdir = os.path.join(vlib.scratch_root(), "c20d-logs")
    os.makedirs(logdir, exist_ok=True)
    out = []
    for i in range(3):
        st = worker_sliced((tree, "replay%d" % i, 1, 0, [dict(sc, _slice=(0, 10 ** 9)) if sc["mode"]["kind"] == "none" else dict(sc, _slice=(0, 10 ** 9))],
                            os.path.join(logdir, "asan-replay%d" % i)))
        out.append([m for m, _ in st.violations])
    return [out[0][0]] if all(out) else []
