"""C02 - Every queue entry is always in a documented state under any interleaving.
Gate-mode world (lib/gate.py): 1-3 real qmail-queue injectors, the real qmail-send and qmail-clean, every queue-relevant system call of
every process granted one at a time by the scheduler; both spawners played by the driver (scripted K/D outcomes, so bounces are injected
by the daemon's own qmail-queue child, which is scheduled too). After EVERY granted step the whole queue is scanned and compared with the
state table of INTERNALS.md section 2; unlink/link steps are checked against the documented order before they are granted.
Schedules: Hypothesis-drawn decision tapes (seeded random) plus a depth-first systematic prefix of the 1 injector x daemon world;
optional crash of any role before its k-th mutating call followed by restart; pre-aged leftovers for the 36 h garbage-collection rule;
a second qmail-send started while the first holds the lock."""
import os, re, json, time, signal, subprocess, hashlib, stat as _stat
from hypothesis import strategies as st
from lib import vlib, sandbox, qworld, gate

LEVEL = "exploration"
RULE = ("Scenario = (1-3 injections with 0-3 recipients, K/D outcome script, leftovers aged 36h +-{90s,1h} with/without todo, optional crash "
        "(role,k) + restart, optional second daemon, decision tape). Executions run the real programs under the gate scheduler; the invariant "
        "(state in S1..S5, mess/<n> has inode n in directory n mod split, unlink order, GC discipline, number never handed out twice) is evaluated "
        "after every granted step. Non-trivial = at least 3 decision points at which two or more processes were enabled (real interleaving); "
        "distinct = hash of the executed (role, call, path-class) sequence.")
ASSUMPTIONS = ["'at every instant' is observed at system-call boundaries of the gated calls (single-threaded programs)",
               "the virtual clock offset is 0 in gate-mode worlds; leftovers are aged with utime() at least 60 s away from the 36 h boundary",
               "?-columns of the INTERNALS state table are not tightened"]
OSSIFIED = 129600


def allowed_state(s):
    s = set(s)
    if not s:
        return True
    if "mess" not in s:
        return False
    if s <= {"mess", "intd"}:
        return True                       # S2, S3
    if "todo" in s:
        return "bounce" not in s          # S4
    if "info" in s:
        return "intd" not in s            # S5 (todo absent here)
    return False                          # local/remote/bounce without info or todo


class World:
    def __init__(self, tree, wid):
        self.tree = tree
        self.h = sandbox.Home(tree, os.path.join(vlib.scratch_root(), "c02-%s" % wid))
        self.h.link_bins(["qmail-queue", "qmail-clean", "qmail-send"])
        self.h.control("me", "me.example\n")
        self.h.control("locals", "loc.example\n")
        self.sock = os.path.join(self.h.dir, "gate")
        self.devnull = open(os.devnull, "r+b")
        self.ossified = OSSIFIED
        m = re.search(r"#define\s+OSSIFIED\s+(\d+)", open(tree.path("qmail-send.c")).read())
        if m:
            self.ossified_src = int(m.group(1))

    # ------------------------------------------------------------------ helpers
    def make_leftover(self, kind, age, dir0=False):
        """an abandoned entry as a crashed qmail-queue leaves it; returns n. dir0: pick a number that lands in mess/0, the first
        directory the daemon's garbage-collection sweep visits"""
        q = self.h.queue
        junk = []
        found = False
        base = len(os.listdir(os.path.join(q, "pid")))
        for attempt in range(8 * self.h.split):
            p = os.path.join(q, "pid", "left.%d.%d" % (base, attempt))
            open(p, "wb").write(b"Received: (qmail 1 invoked by uid 1); 1 Jan 2020 00:00:00 -0000\nleft\n")
            n = os.stat(p).st_ino
            if not dir0 or n % self.h.split == 0:
                found = True
                break
            junk.append(p)          # kept until a fitting number turns up: a freed inode number could be handed out again at once
        for j in junk:
            os.unlink(j)
        if not found:
            raise qworld.Inconclusive("no inode number for mess/0 among %d fresh files" % (8 * self.h.split))
        os.link(p, self.h.qpath("mess", n))
        os.unlink(p)
        if kind in ("S3", "S4"):
            open(self.h.qpath("intd", n), "wb").write(b"u1\0p1\0Fs@rem.example\0Tu@loc.example\0\0")
        if kind == "S4" and not dir0:
            os.link(self.h.qpath("intd", n), self.h.qpath("todo", n))
        t = time.time() - age
        for d in ("mess", "intd"):
            fp = self.h.qpath(d, n)
            if os.path.exists(fp):
                os.utime(fp, (t, t))
        return n

    def start_daemons(self, sched_env, crash=None, fault=None):
        h = self.h
        lcmd, lrep, rcmd, rrep, creq, crep = [os.pipe() for _ in range(6)]
        extra = {}
        if fault:
            once = os.path.join(h.dir, "faultonce")
            if os.path.exists(once):
                os.unlink(once)
            extra["VSHIM_FAULT"] = "%s:%s:%d:%s" % (fault["key"], fault["cls"], fault["k"], fault["err"])
            extra["VSHIM_FAULTONCE"] = once
            extra["VSHIM_FAULT_GEN"] = "0"
        if crash:
            extra["VSHIM_CRASH"] = crash
            extra["VSHIM_CRASHFLAG"] = os.path.join(h.dir, "crashflag")
        env_c = h.env(role="clean", uid=h.uids["q"], trace=True, **dict(sched_env, **extra))
        env_s = h.env(role="send", uid=h.uids["s"], trace=True, **dict(sched_env, **extra))
        dn = self.devnull.fileno()
        cpid = qworld.spawn([self.tree.path("qmail-clean")], env_c, {0: creq[0], 1: crep[1], 2: dn})
        spid = qworld.spawn([self.tree.path("qmail-send")], env_s, {0: dn, 1: lcmd[1], 2: lrep[0], 3: rcmd[1], 4: rrep[0], 5: creq[1], 6: crep[0]})
        for fd in (lcmd[1], lrep[0], rcmd[1], rrep[0], creq[0], creq[1], crep[0], crep[1]):
            os.close(fd)
        for fd in (lcmd[0], rcmd[0]):
            os.set_blocking(fd, False)
        for fd in (lrep[1], rrep[1]):
            try:
                os.write(fd, bytes([120]))
            except BrokenPipeError:
                pass                      # the daemon already gave up (injected start-up fault); its exit is noticed by the caller
        return {"pids": [cpid, spid], "cmd": [lcmd[0], rcmd[0]], "rep": [lrep[1], rrep[1]], "buf": [b"", b""]}

    def wait_proc(self, sched, key, pid=None):
        """-> True when the process reached its first gate, False when it exited before (pid given)"""
        t_end = time.time() + gate.WATCHDOG
        while not [x for x in sched.procs if x.key == key]:
            sched._pump(0.05)
            if pid is not None:
                try:
                    state = open("/proc/%d/stat" % pid).read().rsplit(")", 1)[1].split()[0]
                except (OSError, IndexError):
                    state = "Z"
                if state == "Z":
                    sched._pump(0.05)
                    if not [x for x in sched.procs if x.key == key]:
                        return False
            if time.time() > t_end:
                raise qworld.Inconclusive("%s did not reach its first gate" % key)
        return True

    def answer_commands(self, d, script, counter):
        """the driver is both spawners: answer every delivery command at once with the scripted letter"""
        n = 0
        for c in (0, 1):
            try:
                while True:
                    x = os.read(d["cmd"][c], 65536)
                    if not x:
                        break
                    d["buf"][c] += x
            except (BlockingIOError, OSError):
                pass
            while True:
                b = d["buf"][c]
                if len(b) < 2:
                    break
                parts = b[1:].split(b"\0", 3)
                if len(parts) < 4:
                    break
                d["buf"][c] = parts[3]
                letter = script[counter[0] % len(script)] if script else "K"
                counter[0] += 1
                try:
                    os.write(d["rep"][c], bytes([b[0]]) + letter.encode() + b"scripted\0")
                except OSError:
                    pass
                n += 1
        return n

    def kill(self, d):
        for pid in d["pids"]:
            try:
                os.killpg(pid, signal.SIGKILL)
            except (ProcessLookupError, PermissionError):
                pass
            try:
                os.kill(pid, signal.SIGKILL)      # the child may not have reached setsid() yet
            except (ProcessLookupError, PermissionError):
                pass
        for pid in d["pids"]:
            try:
                os.waitpid(pid, 0)
            except ChildProcessError:
                pass
        for fd in d["cmd"] + d["rep"]:
            try:
                os.close(fd)
            except OSError:
                pass

    # ------------------------------------------------------------------ invariant
    def check_pre(self, p, snap):
        """documented order of appearance/disappearance, evaluated on the step about to be granted"""
        kind, call, path = p.msg
        m = re.match(r"^(mess|info|local|remote)/\d+/(\d+)$|^(intd|todo|bounce)/(\d+)$", path)
        if not m:
            return None
        d = m.group(1) or m.group(3)
        n = int(m.group(2) or m.group(4))
        s = snap.get(n, set())
        role = (p.key or "").split(".")[0]
        if call == "link" and d == "mess":
            if s:
                return "message number %d handed out while its state is %r (must be S1)" % (n, sorted(s))
        if call == "unlink":
            if d == "info" and "todo" not in s and (s & {"local", "remote", "bounce"}):
                return "info/%d removed while %r still exist" % (n, sorted(s & {"local", "remote", "bounce"}))
            if d == "bounce" and (s & {"local", "remote"}):
                return "bounce/%d removed while recipient lists %r still exist" % (n, sorted(s & {"local", "remote"}))
            if d == "mess" and role != "inj" and (s & {"intd", "todo", "info", "local", "remote", "bounce"}):
                return "mess/%d removed by %s while %r still exist" % (n, role, sorted(s - {"mess"}))
            if d == "intd" and role == "clean" and "todo" not in s and "info" in s:
                return "intd/%d removal requested while info exists and todo does not" % n
            if d == "todo" and "intd" in s:
                return "todo/%d removed before intd/%d" % (n, n)
            if d == "todo" and "info" not in s:
                return "todo/%d removed although info/%d was never created" % (n, n)
        return None

    def check_post(self, snap, bad):
        if bad:
            return "stray files %r" % bad[:4]
        for n, s in snap.items():
            if not allowed_state(s):
                return "message %d is in state %r, which is none of S1..S5" % (n, sorted(s))
            if "mess" in s:
                try:
                    ino = os.stat(self.h.qpath("mess", n)).st_ino
                except FileNotFoundError:
                    continue
                if ino != n:
                    return "mess/%d/%d has inode %d" % (n % self.h.split, n, ino)
        return None

    # ------------------------------------------------------------------ one execution
    def execute(self, sc, prefix=None, systematic=False):
        h = self.h
        h.clean_queue()
        h.clear_trace()
        flag = os.path.join(h.dir, "crashflag")
        if os.path.exists(flag):
            os.unlink(flag)
        out = {"decisions": [], "verdict": None, "inconclusive": False, "steps": [], "ndec2": 0, "classes": set()}
        sched = gate.Scheduler(self.sock)
        senv = {"VSHIM_GATE": self.sock, "VSHIM_GATE_ONLY": "queue/,mess/,todo,intd/,info/,local/,remote/,bounce/,pid/,lock/"}
        tape = list(prefix if prefix is not None else sc.get("tape", []))
        inj = []
        d = None
        second = None
        try:
            now = time.time()
            left = {}
            late = []
            for lo in sc.get("leftovers", []):
                n = self.make_leftover(lo["kind"], lo["age"], lo.get("dir0", False))
                left[n] = lo
                if lo["kind"] == "S4" and lo.get("dir0"):
                    late.append(n)
            # the todo entries of the mess/0 backlog are linked in the opposite order of their message files, so the directory order
            # of todo/ and of mess/0 differ and the garbage-collection sweep can reach a message before the todo scan does
            for n in reversed(late):
                os.link(self.h.qpath("intd", n), self.h.qpath("todo", n))
            crash = sc.get("crash")
            d = self.start_daemons(senv, crash="%s:%d" % (crash["key"], crash["k"]) if crash else None, fault=sc.get("fault"))
            daemon_up = self.wait_proc(sched, "send.qmail-send", pid=d["pids"][1])
            if not daemon_up:
                if crash and os.path.exists(flag):
                    daemon_up = True                                       # the crash handling at the top of the loop takes over
                elif sc.get("fault") and os.path.exists(os.path.join(h.dir, "faultonce")):
                    out["classes"].add("daemon_gave_up_after_fault")     # "alert: cannot start: ..." after an I/O error: nothing was touched
                else:
                    out["verdict"] = "daemon exited during start-up without any injected fault"
            counter = [0]
            started = 0
            msgs = sc["messages"]
            di = 0
            nsteps = 0
            crashed = False
            accepted = []
            idle_rounds = 0
            maxsteps = 1500
            while daemon_up:
                sched.settle()
                if self.answer_commands(d, sc.get("script", "K"), counter):
                    sched.epoch += 1
                # machine crash requested by the shim?
                if crash and not crashed and os.path.exists(flag):
                    crashed = True
                    out["classes"].add("crash_reached")
                    for p in inj:
                        p.kill()
                        p.wait()
                    self.kill(d)
                    sched.close()
                    sched = gate.Scheduler(self.sock)
                    snap, bad, pids = h.snapshot()
                    v = self.check_post(snap, bad)
                    if v:
                        out["verdict"] = "after crash: " + v
                        break
                    os.unlink(flag)
                    inj = []
                    d = self.start_daemons(senv)
                    self.wait_proc(sched, "send.qmail-send")
                    continue
                # start the next injector when the tape says so (or when nothing else can run)
                en = sched.enabled()
                want_inject = started < len(msgs) and (not en or (tape and di < len(tape) and tape[di] % 5 == 4))
                if want_inject:
                    if en and tape and di < len(tape):
                        di += 1
                    m = msgs[started]
                    mf = os.path.join(h.dir, "m%d" % started)
                    ef = os.path.join(h.dir, "e%d" % started)
                    open(mf, "wb").write(m["body"].encode("latin-1"))
                    envb = b"F" + m["sender"].encode("latin-1") + b"\0" + b"".join(b"T" + r.encode("latin-1") + b"\0" for r in m["rcpts"]) + b"\0"
                    if m.get("bad_env") == "cut":
                        envb = envb[:-1]            # no terminator: qmail-queue backs out through cleanup() and exits 54
                    elif m.get("bad_env") == "letter":
                        envb = envb[:-1] + b"X\0"  # wrong record letter: exit 91, files left for the garbage collection
                    open(ef, "wb").write(envb)
                    env_i = h.env(role="inj%d" % started, uid=4242, trace=True, **senv)
                    ft = sc.get("fault")
                    if ft and ft["key"] == "inj%d" % started:
                        env_i["VSHIM_FAULT"] = "%s:%s:%d:%s" % (ft["key"], ft["cls"], ft["k"], ft["err"])
                        env_i["VSHIM_FAULTONCE"] = os.path.join(h.dir, "faultonce")
                    al = sc.get("alarm")
                    if al and al["inj"] == started:
                        # this injector's 24-hour timer fires just before its k-th mutating call (qmail-queue's own SIGALRM handler runs)
                        # (or, "after": right after that call has been performed, before the injector sees its result)
                        # "sig": 15 = the injector is killed by SIGTERM at that instant instead (catchable: whatever a handler tidies up, a
                        # message that is already visible must stay whole)
                        env_i["VSHIM_SIGNAL"] = "inj%d:%d:%d%s" % (started, al["k"], al.get("sig", 14), ":after" if al.get("after") else "")
                        out["classes"].add("injector_alarm")
                    pre = None
                    if al and al["inj"] == started and al.get("blocked"):
                        # the caller had SIGALRM blocked: a signal mask is inherited across exec, and the injector is documented to clear it
                        # first thing - otherwise its 24-hour death timer (on which the 36-hour collection rule rests) could never fire
                        pre = lambda: signal.pthread_sigmask(signal.SIG_BLOCK, [signal.SIGALRM])
                        out["classes"].add("injector_alarm_inherited_blocked_mask")
                    p = subprocess.Popen([self.tree.path("qmail-queue")], stdin=open(mf, "rb"), stdout=open(ef, "rb"), stderr=subprocess.DEVNULL,
                                         env=env_i, cwd="/", start_new_session=True, preexec_fn=pre)
                    inj.append(p)
                    started += 1
                    t_end = time.time() + gate.WATCHDOG
                    while not [x for x in sched.procs if x.key and x.key.startswith("inj%d" % (started - 1))]:
                        sched._pump(0.05)
                        if p.poll() is not None and not [x for x in sched.procs if x.key and x.key.startswith("inj%d" % (started - 1))]:
                            break
                        if time.time() > t_end:
                            raise qworld.Inconclusive("injector did not reach its first gate")
                    continue
                if sc.get("second_daemon_at") is not None and second is None and nsteps >= sc["second_daemon_at"] and \
                        any(k == "send.qmail-send" and c == "flock" for k, c, pth, kind in sched.steps) and \
                        [x for x in sched.procs if x.key == "send.qmail-send" and x.state != "dead" and x.msg[1] != "flock"]:
                    second = self.second_daemon()
                    if second:
                        out["verdict"] = second
                        break
                    second = True
                    out["classes"].add("second_daemon")
                if not en:
                    live_inj = [x for x in sched.procs if x.key and x.key.startswith("inj") and x.state != "dead"]
                    dm = [x for x in sched.procs if x.key == "send.qmail-send" and x.state != "dead"]
                    if not dm:
                        if crash and os.path.exists(flag):
                            continue
                        if sc.get("fault") and os.path.exists(os.path.join(h.dir, "faultonce")):
                            # an I/O error during start-up legitimately makes the daemon give up ("alert: cannot start: ..."); the state
                            # table was judged after every step it took, the final state is judged below
                            out["classes"].add("daemon_gave_up_after_fault")
                            break
                        out["verdict"] = "daemon died during the schedule"
                        break
                    if not live_inj and started >= len(msgs) and dm[0].state == "blk" and dm[0].msg[1] == "select":
                        if self.answer_commands(d, sc.get("script", "K"), counter):
                            sched.epoch += 1
                            continue
                        if idle_rounds >= 1:
                            break
                        idle_rounds += 1          # one more round of re-polls to be sure nothing is pending
                        sched.epoch += 1
                        continue
                    raise qworld.Inconclusive("no process enabled: %r" % [(x.key, x.state, x.msg) for x in sched.procs if x.state != "dead"])
                nsteps += 1
                if nsteps > maxsteps:
                    out["dbg"] = list(sched.steps); raise qworld.Inconclusive("schedule longer than %d steps" % maxsteps)
                if len(en) >= 2:
                    out["ndec2"] += 1
                    c = tape[di] % len(en) if di < len(tape) else (0 if systematic else nsteps % len(en))
                    out["decisions"].append((len(en), c))
                    di += 1
                    pick = en[c]
                else:
                    pick = en[0]
                if pick.msg[0] == "REQ" and pick.msg[1] in ("link", "unlink"):
                    snap, bad, pids = h.snapshot()
                    v = self.check_pre(pick, snap)
                    if v:
                        out["verdict"] = v + " (step %s %s %s)" % (pick.key, pick.msg[1], pick.msg[2])
                        break
                was_req = pick.msg[0] == "REQ"
                sched.grant(pick)
                if was_req:
                    idle_rounds = 0
                if was_req and pick.msg[1] in ("open", "link", "unlink", "rename", "mkdir"):
                    snap, bad, pids = h.snapshot()
                    v = self.check_post(snap, bad)
                    if v:
                        out["verdict"] = v + " (after step %s %s %s)" % (pick.key, pick.msg[1], pick.msg[2])
                        break
            out["steps"] = [(k.split(".")[0] + ("q" if k.endswith("qmail-queue") and k.startswith("send") else ""), c, re.sub(r"\d+", "N", pth.rsplit("/queue/", 1)[-1])[-20:])
                            for k, c, pth, kind in sched.steps if kind == "REQ"]
            if sc.get("fault") and os.path.exists(os.path.join(h.dir, "faultonce")):
                out["classes"].add("fault_reached_%s" % sc["fault"]["cls"])
            if not out["verdict"]:
                out["verdict"] = self.final_checks(sc, inj, left, crashed, now)
        except qworld.Inconclusive as e:
            out["inconclusive"] = True
            out["why"] = str(e)
        finally:
            for p in inj:
                try:
                    p.kill()
                    p.wait()
                except Exception:
                    pass
            if d:
                self.kill(d)
            sched.close()
        return out

    def second_daemon(self):
        """a second qmail-send while the first holds lock/sendmutex: exit 111, no mutating step"""
        h = self.h
        tr2 = os.path.join(h.dir, "trace2")
        if os.path.exists(tr2):
            os.unlink(tr2)
        env = h.env(role="second", uid=h.uids["s"], trace=True)
        env["VSHIM_TRACE"] = tr2
        r1, w1 = os.pipe()
        r2, w2 = os.pipe()
        os.write(w1, bytes([120]))
        os.write(w2, bytes([120]))
        dn = self.devnull.fileno()
        pid = qworld.spawn([self.tree.path("qmail-send")], env, {0: dn, 1: dn, 2: r1, 3: dn, 4: r2, 5: dn, 6: dn})
        for fd in (r1, w1, r2, w2):
            os.close(fd)
        t_end = time.time() + 10
        st = None
        while time.time() < t_end:
            p, s = os.waitpid(pid, os.WNOHANG)
            if p:
                st = os.waitstatus_to_exitcode(s)
                break
            time.sleep(0.002)
        if st is None:
            try:
                os.killpg(pid, signal.SIGKILL)
            except ProcessLookupError:
                pass
            os.waitpid(pid, 0)
            return "a second qmail-send kept running while the first holds lock/sendmutex"
        if st != 111:
            return "a second qmail-send exited %r, expected 111" % st
        muts = [e for e in sandbox.parse_trace(tr2) if e["call"] == "M" and "lock/sendmutex" not in " ".join(e["a"])]
        if muts:
            return "a second qmail-send performed mutating steps before refusing: %r" % [e["a"] for e in muts[:3]]
        return None

    def final_checks(self, sc, inj, left, crashed, t0):
        h = self.h
        for p in inj:
            try:
                rc = p.wait(timeout=10)
            except subprocess.TimeoutExpired:
                return None
            inj_fault = bool(sc.get("fault")) and sc["fault"]["key"].startswith("inj")       # an injector with a failing call reports it
            if rc != 0 and not crashed and not inj_fault and not any(m.get("bad_env") for m in sc["messages"]) and not (sc.get("alarm") and (rc == 52 or sc["alarm"].get("sig", 14) != 14)):
                return "injector exited %r" % rc
        if sc.get("alarm") and sc["alarm"].get("sig", 14) == 14 and not crashed and not sc.get("fault") and sc["alarm"]["inj"] < len(inj):
            # the death timer of an injector expired (the interposer raised SIGALRM in it): it is documented to stop there and then (exit 52),
            # whatever signal mask it was started with - the collection of S2/S3 leftovers after 36 hours relies on it
            rc = inj[sc["alarm"]["inj"]].returncode
            fired = any(e["call"] == "SIGNAL" and e["key"].startswith("inj%d." % sc["alarm"]["inj"]) for e in h.read_trace())
            if fired and rc != 52:
                return "injector %d went on after its 24-hour timer expired (exit status %r, documented 52)" % (sc["alarm"]["inj"], rc)
        snap, bad, pids = h.snapshot()
        v = self.check_post(snap, bad)
        if v:
            return "final: " + v
        if sc.get("fault"):
            # one I/O error in the daemon or the cleaner: the affected step is retried minutes later, so only the state table and the
            # removal order (checked at every step above) are judged, not the final emptiness of the queue
            if os.path.exists(os.path.join(h.dir, "faultonce")):
                return None
        # every accepted message ends in S1 (all outcomes are K or D); leftovers obey the 36 h rule
        for n, s in snap.items():
            lo = left.get(n)
            if lo is None:
                if (crashed or sc.get("alarm") or any(m.get("bad_env") for m in sc["messages"])) and s <= {"mess", "intd"}:
                    continue          # leftover of an injector that died / backed out: legitimately stays until ossified
                if sc.get("alarm") and s == {"mess", "intd", "todo"}:
                    continue          # the timer fired between link(todo) and the trigger: a pristine S4 entry waits for the periodic rescan
                return "message %d is still in the queue in state %r after all deliveries were answered" % (n, sorted(s))
            if lo["kind"] in ("S2", "S3") and lo["age"] > self.ossified + 60 and not crashed:
                return "leftover %d (%s, %d s old) was not collected although it is older than 36 hours" % (n, lo["kind"], lo["age"])
        for n, lo in left.items():
            if n in snap:
                continue
            if lo["kind"] in ("S2", "S3") and lo["age"] < self.ossified - 60:
                return "leftover %d (%s, only %d s old) was collected before 36 hours" % (n, lo["kind"], lo["age"])
        return None


# ------------------------------------------------------------------ generation
@st.composite
def scenario(draw):
    nm = draw(st.integers(1, 3))
    msgs = []
    for i in range(nm):
        nr = draw(st.integers(0, 3))
        msgs.append({"sender": draw(st.sampled_from(["s@rem.example", "", "#@[]"])),
                     "rcpts": [draw(st.sampled_from(["u@loc.example", "r@rem.example", "v@loc.example"])) for _ in range(nr)],
                     "body": draw(st.sampled_from(["x\n", "Subject: t\n\nbody\n", ""]))})
        if draw(st.integers(0, 5)) == 0:
            msgs[-1]["bad_env"] = draw(st.sampled_from(["cut", "letter"]))
    sc = {"messages": msgs, "script": draw(st.sampled_from(["K", "K", "KD", "D", "DK"])),
          "tape": draw(st.lists(st.integers(0, 999), min_size=20, max_size=400))}
    if draw(st.integers(0, 2)) == 0:
        sc["leftovers"] = [{"kind": draw(st.sampled_from(["S2", "S3", "S4"])),
                            # a negative age = access time ahead of the daemon's clock (clock stepped back, skew against a file server, or a
                            # file created after the daemon last read the clock): certainly not 36 hours old
                            "age": draw(st.sampled_from([OSSIFIED - 3600, OSSIFIED - 90, OSSIFIED + 90, OSSIFIED + 3600, -3600, -5]))} for _ in range(draw(st.integers(1, 3)))]
    if draw(st.integers(0, 3)) == 0:
        sc["crash"] = {"key": draw(st.sampled_from(["send.qmail-send", "clean.qmail-clean", "inj0", "send.qmail-queue"])), "k": draw(st.integers(0, 40))}
    if draw(st.integers(0, 4)) == 0:
        sc["second_daemon_at"] = draw(st.integers(0, 60))
    if draw(st.integers(0, 5)) == 0:
        sc["alarm"] = {"inj": draw(st.integers(0, nm - 1)), "k": draw(st.integers(0, 12))}
        if draw(st.booleans()):
            sc["alarm"]["blocked"] = True
        if draw(st.integers(0, 2)) == 0:
            sc["alarm"]["after"] = True
        if draw(st.integers(0, 3)) == 0:
            sc["alarm"]["sig"] = 15
    if not sc.get("crash") and draw(st.integers(0, 4)) == 0:
        sc["fault"] = {"key": draw(st.sampled_from(["send.qmail-send", "send.qmail-send", "clean.qmail-clean", "inj0", "inj1"])),
                       "cls": draw(st.sampled_from(["unlink", "unlink", "unlink", "link", "open", "write", "fsync", "stat", "read"])),
                       "k": draw(st.integers(0, 14)), "err": draw(st.sampled_from(["5", "28", "13"]))}
    return sc


def record(stats, sc, out, extra_cls=()):
    if out["inconclusive"]:
        stats.inconclusive += 1
        return None
    key = hashlib.sha1(repr(out["steps"]).encode()).hexdigest()[:16]
    cls = list(out["classes"]) + list(extra_cls)
    if sc.get("leftovers"):
        cls.append("with_leftovers")
    if sc.get("crash"):
        cls.append("with_crash_spec")
    if sc.get("fault"):
        cls.append("with_fault_spec")
    cls.append("injectors_%d" % len(sc["messages"]))
    stats.case(scenario={k: v for k, v in sc.items() if k != "tape"} | {"tape_len": len(sc.get("tape", [])), "steps": len(out["steps"])},
               nontrivial=out["ndec2"] >= 3, classes=cls, key=key)
    stats.extra["gated_steps"] = stats.extra.get("gated_steps", 0) + len(out["steps"])
    return ("C02: " + out["verdict"]) if out["verdict"] else None


def worker(job):
    tree, wid, seed, nex, fixed = job
    stats = vlib.Stats()
    w = World(tree, wid)

    def runfn(sc, stats):
        return record(stats, sc, w.execute(sc))
    for sc in fixed:
        v = runfn(sc, stats)
        if v:
            stats.violations.append((v, sc))
            return stats
    vlib.hyp_search(scenario(), runfn, nex, seed, stats)
    return stats


def worker_dfs(job):
    """systematic prefix: 1 injector x daemon, all gated calls, depth-first below the given roots within a time budget"""
    tree, wid, roots, budget = job
    stats = vlib.Stats()
    w = World(tree, wid)
    sc = {"messages": [{"sender": "s@rem.example", "rcpts": ["u@loc.example"], "body": "x\n"}], "script": "K", "tape": []}
    t_end = time.time() + budget
    complete = True
    for root in roots:
        prefix = list(root)
        while True:
            if time.time() > t_end:
                complete = False
                break
            out = w.execute(sc, prefix=prefix, systematic=True)
            v = record(stats, sc, out, ["systematic_1x1"])
            if out["inconclusive"]:
                complete = False
                break
            if v:
                stats.violations.append((v, dict(sc, tape=[c for _, c in out["decisions"]])))
                return stats
            dec = out["decisions"]
            i = len(dec) - 1
            while i >= len(root) and dec[i][1] + 1 >= dec[i][0]:
                i -= 1
            if i < len(root):
                break
            prefix = [c for _, c in dec[:i]] + [dec[i][1] + 1]
        if not complete:
            break
    stats.extra["dfs_jobs"] = 1
    stats.extra["dfs_complete"] = 1 if complete else 0
    return stats


# executed in every run: a backlog of queued-but-not-preprocessed messages older than 36 hours whose numbers land in mess/0, so the
# garbage-collection sweep reaches them before the todo scan does (daemon restarted after a long outage)
FIXED = [
    {"messages": [{"sender": "s@rem.example", "rcpts": ["u@loc.example"], "body": "x\n", "bad_env": "cut"},
                  {"sender": "s@rem.example", "rcpts": ["u@loc.example"], "body": "y\n"}], "script": "K", "tape": [4, 4, 1, 0, 2, 1, 0, 1] * 20},
    {"messages": [{"sender": "s@rem.example", "rcpts": ["u@loc.example"], "body": "x\n"}], "script": "K", "tape": [],
     "leftovers": [{"kind": "S4", "age": OSSIFIED + 3600, "dir0": True} for _ in range(6)]},
    {"messages": [], "script": "K", "tape": [],
     "leftovers": [{"kind": "S4", "age": OSSIFIED + 3600, "dir0": True} for _ in range(4)] + [{"kind": "S3", "age": OSSIFIED + 3600, "dir0": True}, {"kind": "S2", "age": OSSIFIED - 3600, "dir0": True}]},
    # leftovers whose access time lies ahead of the daemon's clock (added after seeded change C02-L): younger than 36 hours by any reading
    {"messages": [{"sender": "s@rem.example", "rcpts": ["u@loc.example"], "body": "x\n"}], "script": "K", "tape": [],
     "leftovers": [{"kind": "S2", "age": -3600, "dir0": True}, {"kind": "S3", "age": -5, "dir0": True}, {"kind": "S2", "age": -86400 * 400, "dir0": True},
                   {"kind": "S3", "age": OSSIFIED + 3600, "dir0": True}]},
]


def crash_sweep_scenarios():
    """every crash point (before each mutating call) of every role for one fixed history with a bounce, under two fixed schedules:
    the 'crash at any instant' clause is swept, not sampled, for this history"""
    out = []
    base = {"messages": [{"sender": "s@rem.example", "rcpts": ["u@loc.example", "r@rem.example"], "body": "x\n"}], "script": "KD"}
    for tape in ([], [1, 0, 2, 1, 3, 0, 1, 2] * 40):
        for key, n in (("send.qmail-send", 34), ("clean.qmail-clean", 8), ("inj0", 11), ("send.qmail-queue", 11)):
            for k in range(n):
                out.append(dict(base, tape=list(tape), crash={"key": key, "k": k}))
        # the injector's 24-hour alarm at every one of its mutating steps (added after seeded change C02-D)
        for k in range(13):
            out.append(dict(base, tape=list(tape), alarm={"inj": 0, "k": k}))
            if k % 3 == 1:
                out.append(dict(base, tape=list(tape), alarm={"inj": 0, "k": k, "blocked": True}))
            if not tape:
                # ... and at the instant each of those calls has been performed, before the injector sees its result (added after seeded change C01-K)
                out.append(dict(base, tape=[], alarm={"inj": 0, "k": k, "after": True}))
                # "killed at any instant" by a catchable signal (added after seeded change C02-M)
                out.append(dict(base, tape=[], alarm={"inj": 0, "k": k, "sig": 15}))
                out.append(dict(base, tape=[], alarm={"inj": 0, "k": k, "sig": 15, "after": True}))
    # one failing unlink()/link() at every position in the daemon and the cleaner (added after seeded change C02-C: the removal order must
    # also survive an I/O error on the step before)
    for key, cls, n in (("send.qmail-send", "unlink", 12), ("clean.qmail-clean", "unlink", 6), ("send.qmail-send", "stat", 10), ("send.qmail-send", "open", 12),
                        # the injector's own calls, up to and beyond the instant the message becomes visible (added after seeded change C02-H)
                        ("inj0", "fsync", 3), ("inj0", "write", 6), ("inj0", "link", 3), ("inj0", "open", 5), ("inj0", "unlink", 2)):
        for k in range(n):
            out.append(dict(base, tape=[], fault={"key": key, "cls": cls, "k": k, "err": "5"}))
    return out


def run(ctx):
    sandbox.ensure_shim()
    tree = vlib.Tree().make("qmail-queue", "qmail-send", "qmail-clean")
    nw = vlib.NCPU
    fixed = list(FIXED) + crash_sweep_scenarios()
    d = os.path.join(vlib.VERIF, "corpus", "C02", "regress")
    if os.path.isdir(d):
        for f in sorted(os.listdir(d)):
            fixed.append(json.load(open(os.path.join(d, f))).get("scenario"))
    jobs = [(tree, i, vlib.subseed(ctx.seed, "c02", i), ctx.n(200, 2000), fixed[i::nw]) for i in range(nw)]
    ctx.stats.merge(vlib.run_workers(worker, jobs))
    # systematic prefix
    roots = [[a, b, c, e] for a in (0, 1) for b in (0, 1) for c in (0, 1) for e in (0, 1)]
    jobs = [(tree, "d%d" % i, roots[i::nw], ctx.n(25, 600)) for i in range(nw) if roots[i::nw]]
    st_ = vlib.run_workers(worker_dfs, jobs)
    ctx.stats.merge(st_)
    ctx.notes["systematic_1x1_complete"] = st_.extra.get("dfs_complete", 0) == st_.extra.get("dfs_jobs", -1)


def replay(ctx, path):
    sandbox.ensure_shim()
    tree = vlib.Tree().make("qmail-queue", "qmail-send", "qmail-clean")
    sc = json.load(open(path))
    sc = sc.get("scenario", sc)
    w = World(tree, "replay")
    outs = [w.execute(sc, systematic=not sc.get("script") is None and "leftovers" not in sc and len(sc["messages"]) == 1 and False) for _ in range(3)]
    if all(o["verdict"] for o in outs):
        return [outs[0]["verdict"]]
    return []
