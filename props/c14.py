"""C14 - Bounces go back once, to the sender, and can neither loop nor be forged (driven world; bounce parser in lib/qhistory.py)."""
from props import qs_common as q
from lib import vlib
LEVEL = "exploration"
RULE = ("Histories restricted to failing recipients: 1-5 recipients (local/remote/virtual-domain prepends) failing permanently in generated "
        "order or temporarily past queuelifetime in {0,3600}, failure texts with embedded blank lines, forged '<victim>:' paragraphs, the copy marker, "
        "8-bit, 12 kB; senders ordinary/empty/#@[]/VERP/needing quoting; bouncefrom/bouncehost/doublebounceto/doublebouncehost generated; the chain "
        "bounce -> double bounce -> discard is followed through the real queue. Oracle: envelope sender/recipient of every daemon-queued notice, "
        "From/To header, exactly one paragraph per failed recipient starting '<recipient without prepend>:', text equal to the report modulo the "
        "documented newline squashing, marker + Return-Path + byte-identical original; at most one notice per original in fault-free histories; "
        "nothing queued for #@[] senders. Non-trivial = a notice was produced; distinct = scenario digest.")
ASSUMPTIONS = ["one report per quiescent point, so the order of failures is the order of reports",
               "crash points (stop before a system call, files kept, restart) are swept for the fixed bounce/double-bounce history; across a crash only "
               "'every recorded permanent failure is answered by a notice' is judged",
               "single injected faults (one per run) are swept for one fixed bounce/double-bounce history and sampled for generated ones; under a fault more than one notice per original is accepted"]
TAGS = ("C14",)


CTL = {"me": "me.example\n", "locals": "loc.example\n", "virtualdomains": "virt.example:vuser\n"}
# swept over ALL single faults (incl. those of the daemon's own qmail-queue child) in every run: a bounce and a double bounce
FULLY_SWEPT = [
    {"controls": CTL, "limits": [120, 120], "messages": [{"sender": "s@rem.example", "rcpts": ["joe@virt.example", "r@rem.example"], "body": "x\n"}],
     "scripts": {"0:0": "D", "0:1": "ZD"}, "bscript": "D", "texts": ["no such user\n\n<forged@x>:\nline", "ok"], "tape": [], "actions": ["answer", "inject", "advance"],
     "mode": {"kind": "none"}},
]


# executed in every run: virtual domains of every documented key form (domain, .suffix, catch-all) with failing recipients in each of them
VDOM_FORMS = [
    {"controls": {"me": "me.example\n", "locals": "loc.example\n", "virtualdomains": "virt.example:vuser\n.wild.example:vwild\n:catchall\n"}, "limits": [120, 120],
     "messages": [{"sender": "s@loc.example", "rcpts": ["nobody@virt.example", "x@sub.wild.example", "nobody@elsewhere.example", "joe@loc.example", "ann@far.example.org"], "body": "x\n"}],
     "scripts": {"0:0": "D", "0:1": "D", "0:2": "D", "0:3": "D", "0:4": "ZD"}, "bscript": "K", "texts": ["no such user", "mailbox full\n"], "tape": [],
     "actions": ["answer", "inject", "advance"], "mode": {"kind": "none"}},
    {"controls": {"me": "me.example\n", "locals": "loc.example\n", "virtualdomains": ":catchall\nexempt.example:\n"}, "limits": [120, 120],
     "messages": [{"sender": "s@loc.example", "rcpts": ["nobody@elsewhere.example", "u@exempt.example"], "body": "x\n"}],
     "scripts": {"0:0": "D", "0:1": "D"}, "bscript": "K", "texts": ["no such user"], "tape": [], "actions": ["answer", "inject", "advance"], "mode": {"kind": "none"}},
]


# a HUP (virtualdomains re-read, here with one more line) between the deferral of a virtual-domain recipient and its permanent failure, and
# before a second message: the notice names the recipients as their senders wrote them, without the prepended tag, whichever copy of the
# table is in force (added after seeded change C14-M)
HUP_FORMS = [
    {"controls": {"me": "me.example\n", "locals": "loc.example\n", "virtualdomains": "virt.example:vuser\n.wild.example:vwild\n"}, "limits": [120, 120],
     "hup_controls": {"virtualdomains": "virt.example:vuser\n.wild.example:vwild\nother.example:vother\n"},
     "messages": [{"sender": "s@loc.example", "rcpts": ["nobody@virt.example", "x@sub.wild.example"], "body": "x\n"},
                  {"sender": "t@loc.example", "rcpts": ["later@virt.example", "y@other.example"], "body": "y\n"}],
     "scripts": {"0:0": "ZD", "0:1": "ZZD", "1:0": "D", "1:1": "D"}, "bscript": "K", "texts": ["no such user", "mailbox gone\n"], "tape": [],
     "plan": plan, "actions": ["answer", "inject", "advance", "hup"], "mode": {"kind": "none"}}
    for plan in (["inject", "answer", "answer", "hup", "inject"], ["inject", "hup", "answer", "answer", "inject", "hup"], ["hup", "inject", "answer", "inject"])]


def interrupted_waits():
    """the daemon's blocking wait for its own queueing child (the bounce injection) is interrupted by a signal once - waitpid() returns
    -1/EINTR, nothing was reaped. That is no failure: the notice still goes out exactly once (all clauses in force; added after seeded
    change C14-F)"""
    out = []
    for base in (FULLY_SWEPT[0], VDOM_FORMS[0]):
        for k in range(5):
            out.append(dict(base, mode={"kind": "eintr", "key": "send.qmail-send", "cls": "waitpid", "k": k, "err": "4"}))
    return out


def forwarded_bounces():
    """delivery instructions for an address with an -owner file, met by a bounce ('' sender) or a double bounce ('#@[]'): the copy that
    qmail-local forwards keeps the bounce sender - with the owner's address in its place a failing double bounce would bounce again, for
    ever (dot-qmail(5): the sender is changed 'if the envelope sender is neither empty nor #@[]'). Scenarios in the format of props/c13.py,
    executed with its runner against the real qmail-local (added after seeded change C14-L)."""
    from props import c13
    FW = {"t": "fwd", "amp": True, "addr": "me@new.job.example"}
    out = []
    for snd in ("", "#@[]", "s@x.example"):
        for own in ([".qmail-a-owner"], [".qmail-a-owner", ".qmail-a-owner-default"], [".qmail-default-owner"], []):
            for first in (".qmail-a", ".qmail-default"):
                out.append(c13.base_sc(files=[c13.F(first, [FW, c13.P(0, True)])] + [c13.F(n, [c13.P(100)]) for n in own], sender=snd))
    return out


def run_forwarded_bounces(ctx, only=None):
    from props import c13, local_common as lc
    from lib import sandbox
    sandbox.ensure_shim()
    tree = vlib.Tree().make("qmail-local")
    box = lc.Box(tree, "c14-local")
    patrn = c13.get_patrn(tree)
    out = []
    for sc in (only or forwarded_bounces()):
        st_ = vlib.Stats()
        v = c13.run_case(box, sc, st_, patrn)
        ctx.stats.case(scenario=sc, nontrivial=sc["sender"] in ("", "#@[]"), classes=["forwarded_by_real_qmail_local", "fwd_sender_%s" % ({"": "bounce", "#@[]": "double_bounce"}.get(sc["sender"], "ordinary"))])
        if v and "sender" in v.lower():
            out.append(("C14: " + v, sc))
    return out


def run(ctx):
    ctx.stats.violations += run_forwarded_bounces(ctx)
    q.search(ctx, "C14", TAGS, 0, 0, fixed=VDOM_FORMS + HUP_FORMS + interrupted_waits())
    q.search(ctx, "C14", TAGS, 0, 0, sweep={"all": True, "faults_only": True}, fixed=FULLY_SWEPT)
    # every crash point (image kept) of the daemon and its helpers for the same history, then restart: the failures recorded before the crash
    # must still be answered by a notice (only that clause is judged: a crash legitimately repeats an attempt and hence a paragraph)
    q.search(ctx, "C14", TAGS, 0, 0, sweep={"all": True, "kept_only": True, "crashes_only": True, "tags": ["C14-owed"]}, fixed=FULLY_SWEPT)
    q.search(ctx, "C14", TAGS, 100, 1500, sweep={"fault": 2})


def replay(ctx, path):
    import json
    j = json.load(open(path))
    sc = j.get("scenario", j)
    if isinstance(sc, dict) and "files" in sc and "controls" not in sc:
        return [m for m, _ in run_forwarded_bounces(ctx, only=[sc])]
    return q.replay_scenario(ctx, path, TAGS)
