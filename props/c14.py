"""C14 - Bounces go back once, to the sender, and can neither loop nor be forged (driven world; bounce parser in lib/qhistory.py)."""
from props import qs_common as q
LEVEL = "exploration"
RULE = ("Histories restricted to failing recipients: 1-5 recipients (local/remote/virtual-domain prepends) failing permanently in generated "
        "order or temporarily past queuelifetime in {0,3600}, failure texts with embedded blank lines, forged '<victim>:' paragraphs, the copy marker, "
        "8-bit, 12 kB; senders ordinary/empty/#@[]/VERP/needing quoting; bouncefrom/bouncehost/doublebounceto/doublebouncehost generated; the chain "
        "bounce -> double bounce -> discard is followed through the real queue. Oracle: envelope sender/recipient of every daemon-queued notice, "
        "From/To header, exactly one paragraph per failed recipient starting '<recipient without prepend>:', text equal to the report modulo the "
        "documented newline squashing, marker + Return-Path + byte-identical original; at most one notice per original in fault-free histories; "
        "nothing queued for #@[] senders. Non-trivial = a notice was produced; distinct = scenario digest.")
ASSUMPTIONS = ["one report per quiescent point, so the order of failures is the order of reports"]
TAGS = ("C14",)


def run(ctx):
    q.search(ctx, "C14", TAGS, 110, 1500)


def replay(ctx, path):
    return q.replay_scenario(ctx, path, TAGS)
