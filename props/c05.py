"""C05 - Inbound SMTP DATA is decoded transparently and framed only by CRLF.CRLF (qmail-smtpd blast())."""
from props import c0506_common as cc
LEVEL = "exploration"
RULE = ("In-process qmail-smtpd.c blast() against a reference RFC 5321 receiver: (a) ALL strings over {CR,LF,'.','x'} up to "
        "length 12 (quick) / 14 (thorough) and over {CR,LF,'.','x','R'} up to 8/10; (b) every split into network reads up to "
        "length 9/10; (c) seeded random long streams incl. 1024-byte buffer boundaries and arbitrary bytes; (d) round trips "
        "decode(encode(m)) with a reference sender and with qmail-remote's own encoder; (e) libFuzzer with chunk-decoding layer. "
        "Non-trivial = stream contains a CR/LF and a '.'; the count is exact for the enumerations (distinct strings).")
ASSUMPTIONS = ["lines beginning with '.' + bare CR are unspecified (RFC deletes the dot, qmail-smtpd keeps it): both accepted, counted as slack",
               "queue interface replaced by a recorder of qmail_put bytes; network reads replaced by a chunked memory reader"]
def run(ctx): cc.run(ctx, 5)
def replay(ctx, path): return cc.replay(ctx, 5, path)
