"""Shared pieces of C12 and C13 (both drive the real qmail-local): the documented line formats written
from the man pages / RFC 822 (never from qmail-local.c), the mboxrd reader of mbox.5, and a small runner.

Byte strings travel through scenarios as latin-1 `str` (argv strings cannot contain NUL anyway)."""
import os, re, calendar, shutil, time, threading
from lib import vlib, sandbox

L1 = "latin-1"


def b(s):
    return s.encode(L1) if isinstance(s, str) else s


# ------------------------------------------------------------------ header lines added by a delivery

# RFC 822: atom = 1*<any CHAR except specials, SPACE and CTLs>; specials = ( ) < > @ , ; : \ " . [ ]
_ATOM = frozenset(range(33, 127)) - frozenset(b'()<>@,;:\\".[]')


def local_needs_quote(lp):
    """RFC 822 local-part = word *("." word): anything that is not a dot-separated list of atoms must be a quoted-string."""
    if not lp:
        return True
    for w in lp.split(b"."):
        if not w or any(c not in _ATOM for c in w):
            return True
    return False


def quote_box(sender):
    """Envelope address -> RFC 821/822 text form (local part = everything before the LAST '@')."""
    if sender == b"":
        return b""
    j = sender.rfind(b"@")
    lp, dom = (sender, b"") if j < 0 else (sender[:j], sender[j:])
    if local_needs_quote(lp):
        # RFC 821 <q>: every character except CR, LF, quote and backslash; those four need a backslash
        lp = b'"' + re.sub(rb'([\r\n"\\])', rb'\\\1', lp) + b'"'
    return lp + dom


def rpline(sender):
    """qmail-local.8: 'records sender in a new Return-Path header field'; one line: newline -> '_' (property C13)."""
    return (b"Return-Path: <" + quote_box(sender)).replace(b"\n", b"_") + b">\n"


def dtline(local, host):
    """qmail-local.8: 'records local@domain in a new Delivered-To header field'; one line: newline -> '_'."""
    return (b"Delivered-To: " + local + b"@" + host).replace(b"\n", b"_") + b"\n"


DAYS = [b"Sun", b"Mon", b"Tue", b"Wed", b"Thu", b"Fri", b"Sat"]
MONS = [b"Jan", b"Feb", b"Mar", b"Apr", b"May", b"Jun", b"Jul", b"Aug", b"Sep", b"Oct", b"Nov", b"Dec"]
_DATE = re.compile(rb"^(\w{3}) (\w{3}) ([ 0-3]\d) (\d\d):(\d\d):(\d\d) (\d{4})$")


def check_ufline(line, sender, t0, t1):
    """mbox.5: 'From envsender date'; envsender one word (space, tab, newline -> '-', empty -> MAILER-DAEMON),
    date exactly 24 characters in asctime format, GMT. Returns an error string or None."""
    if not line.endswith(b"\n") or not line.startswith(b"From ") or len(line) < 5 + 1 + 24 + 1:
        return "From_ line malformed: %r" % line[:120]
    date = line[-25:-1]
    if line[-26:-25] != b" ":
        return "From_ line: no space before the 24-character date: %r" % line[:120]
    who = line[5:-26]
    want = re.sub(rb"[ \t\n]", b"-", sender) if sender else b"MAILER-DAEMON"
    if who != want:
        return "From_ line sender %r, documented %r" % (who, want)
    m = _DATE.match(date)
    if not m or m.group(1) not in DAYS or m.group(2) not in MONS:
        return "From_ line date not in 24-character asctime format: %r" % date
    try:
        ts = calendar.timegm((int(m.group(7)), MONS.index(m.group(2)) + 1, int(m.group(3)), int(m.group(4)),
                              int(m.group(5)), int(m.group(6))))
    except Exception:
        return "From_ line date unparsable: %r" % date
    if DAYS[(ts // 86400 + 4) % 7] != m.group(1):
        return "From_ line weekday wrong: %r" % date
    # generous window: the point is "delivery date, in GMT" (a local-time or epoch-0 date is hours off), not timing
    if t0 is not None and not (t0 - 300 <= ts <= t1 + 300):
        return "From_ line date %d is not the (GMT) delivery time [%d,%d]" % (ts, t0, t1)
    return None


# ------------------------------------------------------------------ mbox.5

def split_lines(data):
    return re.findall(rb"[^\n]*\n|[^\n]+\Z", data)


def mbox_read(data):
    """The reader of mbox.5 ('HOW A MESSAGE IS READ'): any line starting 'From ' begins a message; read until the
    next From_ line or EOF; strip the final blank line; delete one level of >From_ quoting.
    -> (bytes before the first From_ line, [(from_line, message)])"""
    pre, msgs, cur = [], [], None
    for ln in split_lines(data):
        if ln.startswith(b"From "):
            cur = [ln, []]
            msgs.append(cur)
        elif cur is None:
            pre.append(ln)
        else:
            cur[1].append(ln)
    out = []
    for fl, body in msgs:
        if body and body[-1] == b"\n":
            body = body[:-1]
        out.append((fl, b"".join(l[1:] if re.match(rb">+From ", l) else l for l in body)))
    return b"".join(pre), out


def mbox_write(sender_word, msg, date=b"Thu Jan 01 00:00:00 1970"):
    """An independent mboxrd writer (mbox.5 'HOW A MESSAGE IS DELIVERED'), used only to build pre-existing mailboxes."""
    out = [b"From " + sender_word + b" " + date + b"\n"]
    for ln in split_lines(msg):
        if re.match(rb">*From ", ln):
            ln = b">" + ln
        out.append(ln)
    if msg and not msg.endswith(b"\n"):
        out.append(b"\n")
    out.append(b"\n")
    return b"".join(out)


def delivered(msg):
    """What a reader gets back for `msg` (mbox.5: a partial last line is completed with a newline)."""
    return msg + (b"\n" if msg and not msg.endswith(b"\n") else b"")


# ------------------------------------------------------------------ runner

class Box:
    """One worker's sandbox: a virtual qmail home (for chdir(auto_qmail) before exec'ing QMAILQUEUE) and a user
    home directory <dir>/u/home that is rebuilt for every case."""

    def __init__(self, tree, name):
        self.tree = tree
        self.h = sandbox.Home(tree, os.path.join(vlib.scratch_root(), name))
        self.base = os.path.join(self.h.dir, "u")
        self.home = os.path.join(self.base, "home")
        self.msgf = os.path.join(self.h.dir, "in.msg")
        self.rec = os.path.join(self.h.dir, "rec")
        self.shadow = os.path.join(self.h.dir, "shadow")
        self.flag = os.path.join(self.h.dir, "crashflag")
        self.binp = tree.path("qmail-local")
        self.n = 0

    def reset(self, home_too=True):
        if home_too:
            if os.path.isdir(self.base):
                try:
                    os.chmod(self.home, 0o700)
                except OSError:
                    pass
                shutil.rmtree(self.base, ignore_errors=True)
                if os.path.exists(self.base):      # something could not be removed: never reuse it
                    self.n += 1
                    os.rename(self.base, "%s.trash%d" % (self.base, self.n))
            os.makedirs(self.home)
        self.clear_run()

    def clear_run(self):
        for d in (self.rec, self.shadow):
            shutil.rmtree(d, ignore_errors=True)
            os.makedirs(d)
        try:
            os.unlink(self.flag)
        except FileNotFoundError:
            pass
        self.h.clear_trace()

    def env(self, qq_exit=0, **extra):
        e = self.h.env(role="loc", QMAILQUEUE=sandbox.STANDIN, VSHIM_SHADOW=self.shadow, VSHIM_NOSLEEP="1",
                       TZ="America/Anchorage", **sandbox.standin_env(self.rec, read="01", qq=True, exit=qq_exit))
        for k, v in extra.items():
            if v is not None:
                e[k] = str(v)
        return e

    def argv(self, user, local, dash, ext, host, sender, dd, dry=False, home=None):
        return [self.binp] + (["-n"] if dry else []) + ["--", b(user), b(home or self.home), b(local), b(dash), b(ext),
                                                       b(host), b(sender), b(dd)]

    def run(self, argv, env, msgf=None, timeout=20):
        """-> (status or None, stdout, stderr, t0, t1)"""
        t0 = int(time.time())
        rc, out, err = sandbox.run_proc(argv, env, stdin_file=msgf or self.msgf, timeout=timeout)
        return rc, out, err, t0, int(time.time())


def run_parallel(box, jobs, timeout=20):
    """Start several qmail-local processes at (nearly) the same instant; jobs = [(argv, env, msgfile)].
    -> [(status, stdout, stderr)] in job order. Real processes, really concurrent (threads only wait for them)."""
    res = [None] * len(jobs)
    bar = threading.Barrier(len(jobs))

    def one(i):
        argv, env, mf = jobs[i]
        try:
            bar.wait(timeout=10)
        except threading.BrokenBarrierError:
            pass
        res[i] = sandbox.run_proc(argv, env, stdin_file=mf, timeout=timeout)
    th = [threading.Thread(target=one, args=(i,)) for i in range(len(jobs))]
    for t in th:
        t.start()
    for t in th:
        t.join()
    return res


def tree_listing(root):
    """{relative path: ('d', mode) | ('f', mode, size, inode)} - used to prove 'no effect at all'."""
    out = {}
    for d, dirs, files in os.walk(root):
        for n in dirs + files:
            p = os.path.join(d, n)
            st = os.lstat(p)
            rel = os.path.relpath(p, root)
            if os.path.isdir(p):
                out[rel] = ("d", st.st_mode & 0o7777)
            else:
                out[rel] = ("f", st.st_mode & 0o7777, st.st_size, st.st_ino)
    return out


def main_pid(events):
    for e in events:
        if e["key"].endswith(".qmail-local"):
            return e["pid"]
    return None
