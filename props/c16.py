"""C16 - New mail wakes the daemon: no lost trigger, no busy loop.
Part A: systematic (stateless depth-first) enumeration of ALL interleavings, at system-call granularity, of the real qmail-queue's
{link todo, open/write/close trigger} with the real qmail-send's {close/open trigger, opendir, readdir..., open todo/<n>, select}
under the gate-mode scheduler (lib/gate.py); worlds: idle daemon + 1 injector, daemon woken by a stray trigger pull + 1 injector,
idle daemon + 2 injectors (complete up to the fairness bound in thorough, depth-first prefix + random tapes in quick).
Part B: every quiescent point of the driven-world histories of C03/C15: timeout > 0, never past the earliest due event, no spinning."""
import os, json, time, signal, subprocess, hashlib
from lib import vlib, sandbox, qworld, gate
from props import qs_common as q

LEVEL = "exploration"
RULE = ("Part A: stateless DFS over the scheduler's decision tape; every execution runs the real programs; an execution is non-trivial when the "
        "injector's gated steps are not contiguous in the schedule (real interleaving); distinct = hash of the executed step sequence "
        "(role, call, path class). Part B: Hypothesis histories of the driven world (profile C15/C03) with the timeout oracle; non-trivial = a "
        "quiescent point with a future due time was checked.")
ASSUMPTIONS = ["interleavings are enumerated at the granularity of interposed calls on todo/ and lock/trigger (single-threaded programs: no finer externally visible step)",
               "fairness bound: a process takes at most 14 consecutive steps while another is enabled (one full todo scan cycle); the bound only cuts repetitions of an identical cycle",
               "qmail-clean runs ungated: its unlinks happen inside the daemon's step that waits for its answer",
               "the periodic rescan is excluded by never advancing the clock (real time elapsed per execution << 1500 s)"]
TAGS = ("C16",)
FAIR = 14
GATE_ONLY = "todo,lock/trigger"


# part B histories executed in every run: a remote message waits for its retry while the local channel is saturated by an open pass
# (concurrencylocal=1, two local recipients) - the sleep must still be bounded by the remote retry time; and the mirror image
FIXED_B = [
    {"controls": {"me": "me.example\n", "locals": "loc.example\n", "concurrencylocal": "1\n"}, "limits": [120, 120],
     "messages": [{"sender": "s@rem.example", "rcpts": ["r@rem.example"], "body": "x\n"},
                  {"sender": "s@rem.example", "rcpts": ["joe@loc.example", "ann@loc.example"], "body": "y\n"}],
     "scripts": {"0:0": "ZK"}, "bscript": "", "texts": ["ok"], "tape": [0, 0, 0, 0, 0, 0], "actions": ["answer", "inject", "advance"], "mode": {"kind": "none"}},
    {"controls": {"me": "me.example\n", "locals": "loc.example\n", "concurrencyremote": "1\n"}, "limits": [120, 120],
     "messages": [{"sender": "s@rem.example", "rcpts": ["joe@loc.example"], "body": "x\n"},
                  {"sender": "s@rem.example", "rcpts": ["r@rem.example", "q@rem.example"], "body": "y\n"}],
     "scripts": {"0:0": "ZK"}, "bscript": "", "texts": ["ok"], "tape": [0, 0, 0, 0, 0, 0], "actions": ["answer", "inject", "advance"], "mode": {"kind": "none"}},
    # a signal interrupts the sleep towards a retry: HUP arrives 100 s (then again 37 s later) into the wait for the deferred recipient; the
    # time base of the next timeout must be the current time (added after seeded change C16-D)
    {"controls": {"me": "me.example\n", "locals": "loc.example\n"}, "limits": [120, 120],
     "messages": [{"sender": "s@rem.example", "rcpts": ["r@rem.example"], "body": "x\n"}],
     "scripts": {"0:0": "ZK"}, "bscript": "", "texts": ["ok"], "tape": [], "plan": ["inject", "answer", "advance_part:99", "hup", "advance_part:36", "hup"],
     "actions": ["answer", "inject", "advance", "hup"], "mode": {"kind": "none"}},
    {"controls": {"me": "me.example\n", "locals": "loc.example\n"}, "limits": [120, 120],
     "messages": [{"sender": "s@rem.example", "rcpts": ["joe@loc.example"], "body": "x\n"}],
     "scripts": {"0:0": "ZZK"}, "bscript": "", "texts": ["ok"], "tape": [], "plan": ["inject", "answer", "advance_part:9", "alrm", "answer", "advance_part:50", "hup"],
     "actions": ["answer", "inject", "advance", "hup", "alrm"], "mode": {"kind": "none"}},
    # four (then five) deferred messages on one channel with different due times: after each retry the daemon's next sleep must end at the
    # earliest of the remaining due times (the priority queue must keep handing out its minimum; added after seeded change C16-E)
    {"controls": {"me": "me.example\n", "locals": "loc.example\n"}, "limits": [120, 120],
     "messages": [{"sender": "s@rem.example", "rcpts": ["r%d@rem.example" % i], "body": "x\n"} for i in range(4)],
     "scripts": {"%d:0" % i: "ZZK" for i in range(4)}, "bscript": "", "texts": ["ok"], "tape": [],
     "plan": ["inject", "answer", "advance_part:28", "inject", "answer", "advance_part:28", "inject", "answer", "advance_part:28", "inject", "answer"],
     "actions": ["answer", "inject", "advance"], "mode": {"kind": "none"}},
    {"controls": {"me": "me.example\n", "locals": "loc.example\n"}, "limits": [120, 120],
     "messages": [{"sender": "s@rem.example", "rcpts": ["u%d@loc.example" % i], "body": "x\n"} for i in range(5)],
     "scripts": {"%d:0" % i: "ZZZK" for i in range(5)}, "bscript": "", "texts": ["ok"], "tape": [],
     "plan": ["inject", "answer", "advance_part:6", "inject", "answer", "advance_part:11", "inject", "answer", "advance_part:3", "inject", "answer", "advance_part:40",
              "inject", "answer"],
     "actions": ["answer", "inject", "advance"], "mode": {"kind": "none"}},
]


class GWorld:
    """one sandbox home reused for many executions"""

    def __init__(self, tree, wid):
        self.tree = tree
        self.h = sandbox.Home(tree, os.path.join(vlib.scratch_root(), "c16-%s" % wid))
        self.h.link_bins(["qmail-queue", "qmail-clean", "qmail-send"])
        self.h.control("me", "me.example\n")
        self.h.control("locals", "loc.example\n")
        self.sock = os.path.join(self.h.dir, "gate")
        self.msgf = os.path.join(self.h.dir, "m")
        self.envf = os.path.join(self.h.dir, "e")
        open(self.msgf, "wb").write(b"Subject: x\n\nhi\n")
        open(self.envf, "wb").write(b"Fs@rem.example\0Tu@loc.example\0\0")
        self.devnull = open(os.devnull, "r+b")

    def execute(self, world, prefix, trace=False):
        """run one schedule. world in {"idle1", "woken1", "idle2"}. Returns dict(decisions, steps, verdict, inconclusive)"""
        h = self.h
        h.clean_queue()
        h.clear_trace()
        sched = gate.Scheduler(self.sock)
        pids = []
        inj = []
        out = {"decisions": [], "verdict": None, "inconclusive": False, "steps": []}
        fds_to_close = []
        try:
            # pipes for the daemon: spawner report channels (we only write the concurrency byte), clean request/reply
            lrep, rrep, creq, crep = os.pipe(), os.pipe(), os.pipe(), os.pipe()
            fds_to_close += [lrep[1], rrep[1]]
            env_c = h.env(role="clean", uid=h.uids["q"], trace=trace)
            env_s = h.env(role="send", uid=h.uids["s"], trace=trace, VSHIM_GATE=self.sock, VSHIM_GATE_ONLY=GATE_ONLY, VSHIM_GATE_BLOCKREAD=1)
            dn = self.devnull.fileno()
            cpid = qworld.spawn([self.tree.path("qmail-clean")], env_c, {0: creq[0], 1: crep[1], 2: dn})
            spid = qworld.spawn([self.tree.path("qmail-send")], env_s, {0: dn, 1: dn, 2: lrep[0], 3: dn, 4: rrep[0], 5: creq[1], 6: crep[0]})
            pids += [cpid, spid]
            for fd in (lrep[0], rrep[0], creq[0], creq[1], crep[0], crep[1]):
                os.close(fd)
            os.write(lrep[1], bytes([120]))
            os.write(rrep[1], bytes([120]))
            # phase 1: the daemon alone until it is idle in select()
            self._run_alone(sched, "send", out)
            if world == "woken1":
                # a stray pull on the trigger: the daemon will re-arm and rescan concurrently with the injector
                fd = os.open(os.path.join(h.queue, "lock", "trigger"), os.O_WRONLY | os.O_NONBLOCK)
                os.write(fd, b"\0")
                os.close(fd)
                sched.epoch += 1
            ninj = 2 if world == "idle2" else 1
            for i in range(ninj):
                env_i = h.env(role="inj%d" % i, uid=4242, trace=trace, VSHIM_GATE=self.sock, VSHIM_GATE_ONLY=GATE_ONLY, VSHIM_GATE_BLOCKREAD=1)
                p = subprocess.Popen([self.tree.path("qmail-queue")], stdin=open(self.msgf, "rb"), stdout=open(self.envf, "rb"),
                                     stderr=subprocess.DEVNULL, env=env_i, cwd="/", start_new_session=True)
                inj.append(p)
            # wait until every injector reached its first gate (their earlier steps are not gated)
            t_end = time.time() + gate.WATCHDOG
            while len([p for p in sched.procs if p.key and p.key.startswith("inj")]) < ninj:
                sched._pump(0.05)
                if time.time() > t_end:
                    raise qworld.Inconclusive("injector did not reach its first gate")
            sched.settle()
            # phase 2: the enumerated part
            di = 0
            consecutive = [None, 0]
            nsteps = 0
            while True:
                sched.settle()
                en = sched.enabled()
                inj_alive = [p for p in sched.procs if p.key and p.key.startswith("inj") and p.state != "dead"]
                if not en:
                    d = [p for p in sched.procs if p.key and p.key.startswith("send") and p.state != "dead"]
                    if not inj_alive and d and d[0].state == "blk" and d[0].msg[1] == "select":
                        break          # terminal: all injections complete, daemon asleep with a positive timeout
                    if not d:
                        why = ""
                        try:
                            wp, ws = os.waitpid(spid, os.WNOHANG)
                            if wp and os.WIFSIGNALED(ws) and os.WTERMSIG(ws) == signal.SIGKILL:
                                why = ": busy loop - select() reported the trigger readable more than 20000 times in a row without the daemon doing anything about it"
                            elif wp:
                                why = ": exit status %r" % os.waitstatus_to_exitcode(ws)
                            pids.remove(spid)
                        except (ChildProcessError, ValueError):
                            pass
                        out["verdict"] = "daemon died during the schedule" + why
                        break
                    raise qworld.Inconclusive("no process enabled: %r" % [(p.key, p.state, p.msg) for p in sched.procs])
                nsteps += 1
                if nsteps > 400:
                    raise qworld.Inconclusive("schedule longer than 400 steps")
                cands = en
                if len(en) >= 2 and consecutive[1] >= FAIR:
                    cands = [p for p in en if p.key != consecutive[0]] or en
                if len(cands) >= 2:
                    c = prefix[di] if di < len(prefix) else 0
                    if c >= len(cands):
                        c = len(cands) - 1
                    out["decisions"].append((len(cands), c))
                    di += 1
                    pick = cands[c]
                else:
                    pick = cands[0]
                if len(en) >= 2:
                    if consecutive[0] == pick.key:
                        consecutive[1] += 1
                    else:
                        consecutive = [pick.key, 1]
                else:
                    consecutive = [pick.key, 0]
                sched.grant(pick)
            out["steps"] = [(k.split(".")[0], c, _pclass(pth), kind) for k, c, pth, kind in sched.steps]
            # oracle
            for p in inj:
                rc = p.wait(timeout=10)
                if rc != 0:
                    out["verdict"] = out["verdict"] or "injector exited %r" % rc
            left = [f for f in os.listdir(os.path.join(h.queue, "todo")) if f.isdigit()]
            if left and not out["verdict"]:
                out["verdict"] = ("lost wake-up: injection complete (qmail-queue exit 0) but the daemon sleeps in select() with a positive timeout "
                                  "while todo/%s is still unprocessed; schedule=%s" % (",".join(left), compress(out["steps"])))
        except qworld.Inconclusive as e:
            out["inconclusive"] = True
            out["why"] = str(e)
        finally:
            for p in inj:
                try:
                    p.kill()
                    p.wait()
                except Exception:
                    pass
            for pid in pids:
                try:
                    os.killpg(pid, signal.SIGKILL)
                except (ProcessLookupError, PermissionError):
                    pass
                try:
                    os.kill(pid, signal.SIGKILL)      # the child may not have reached setsid() yet
                except (ProcessLookupError, PermissionError):
                    pass
            for pid in pids:
                try:
                    os.waitpid(pid, 0)
                except ChildProcessError:
                    pass
            for fd in fds_to_close:
                try:
                    os.close(fd)
                except OSError:
                    pass
            sched.close()
        return out

    def _run_alone(self, sched, rolepart, out):
        t_end = time.time() + gate.WATCHDOG
        while True:
            d = [p for p in sched.procs if p.key and p.key.startswith(rolepart)]
            if not d:
                sched._pump(0.05)
            sched.settle()
            d = [p for p in sched.procs if p.key and p.key.startswith(rolepart)]
            if d and d[0].state == "blk" and d[0].msg[1] == "select":
                return
            if d and d[0].state == "req":
                sched.grant(d[0])
                continue
            if d and d[0].state == "dead":
                raise qworld.Inconclusive("daemon died during start-up")
            if time.time() > t_end:
                raise qworld.Inconclusive("daemon did not become idle")


def _pclass(p):
    import re
    p = p.rsplit("/queue/", 1)[-1]
    return re.sub(r"\d+", "N", p)[-24:]


def compress(steps):
    return " ".join("%s.%s(%s)%s" % (r[0] + r[-1] if r[:3] == "inj" else r[0], c, p, "" if k == "REQ" else "*") for r, c, p, k in steps)


def interleaved(steps):
    """non-trivial: some daemon step lies between the first and last step of an injector"""
    idx = [i for i, s in enumerate(steps) if s[0].startswith("inj")]
    if not idx:
        return False
    return any(not steps[i][0].startswith("inj") or steps[i][0] != steps[idx[0]][0] for i in range(idx[0], idx[-1] + 1))


def dfs(gw, world, root, stats, budget_s, max_exec):
    """exhaust the subtree below decision prefix `root` (stateless DFS). Returns (complete?, first violation or None)"""
    prefix = list(root)
    t_end = time.time() + budget_s
    n = 0
    while True:
        out = gw.execute(world, prefix)
        n += 1
        if out["inconclusive"]:
            stats.inconclusive += 1
            return False, None
        key = hashlib.sha1(repr(out["steps"]).encode()).hexdigest()[:16]
        stats.case(scenario={"world": world, "tape": [c for _, c in out["decisions"]], "schedule": compress(out["steps"])},
                   nontrivial=interleaved(out["steps"]), classes=["world_" + world], key=key)
        if out["verdict"]:
            return False, (out["verdict"], {"world": world, "tape": [c for _, c in out["decisions"]]})
        dec = out["decisions"]
        i = len(dec) - 1
        while i >= len(root) and dec[i][1] + 1 >= dec[i][0]:
            i -= 1
        if i < len(root):
            return True, None
        prefix = [c for _, c in dec[:i]] + [dec[i][1] + 1]
        if time.time() > t_end or n >= max_exec:
            return False, None


def frontier(gw, world, depth, stats):
    """all decision prefixes of length `depth` (or shorter complete runs), found by DFS restricted to the first `depth` decisions"""
    out = []
    prefix = []
    while True:
        r = gw.execute(world, prefix)
        if r["inconclusive"]:
            stats.inconclusive += 1
            return out
        dec = r["decisions"][:depth]
        out.append([c for _, c in dec])
        i = len(dec) - 1
        while i >= 0 and dec[i][1] + 1 >= dec[i][0]:
            i -= 1
        if i < 0:
            return out
        prefix = [c for _, c in dec[:i]] + [dec[i][1] + 1]


def worker_a(job):
    tree, wid, world, roots, budget, max_exec = job
    stats = vlib.Stats()
    gw = GWorld(tree, wid)
    complete = True
    t_end = time.time() + budget
    for root in roots:
        left = t_end - time.time()
        if left <= 0:
            complete = False
            break
        ok, viol = dfs(gw, world, root, stats, left, max_exec)
        complete = complete and ok
        if viol:
            stats.violations.append(("C16: " + viol[0], viol[1]))
            break
    stats.extra["complete_%s" % world] = 1 if complete else 0
    stats.extra["jobs_%s" % world] = 1
    return stats


def worker_rand(job):
    tree, wid, world, seed, n = job
    from hypothesis import strategies as st
    stats = vlib.Stats()
    gw = GWorld(tree, wid)

    def runfn(tape, stats):
        out = gw.execute(world, tape)
        if out["inconclusive"]:
            stats.inconclusive += 1
            return None
        key = hashlib.sha1(repr(out["steps"]).encode()).hexdigest()[:16]
        stats.case(scenario={"world": world, "tape": tape, "schedule": compress(out["steps"])}, nontrivial=interleaved(out["steps"]),
                   classes=["world_" + world, "random_tape"], key=key)
        return ("C16: " + out["verdict"]) if out["verdict"] else None
    vlib.hyp_search(st.lists(st.integers(0, 2), min_size=0, max_size=60), runfn, n, seed, stats)
    return stats


def part_a(ctx):
    sandbox.ensure_shim()
    tree = vlib.Tree().make("qmail-queue", "qmail-send", "qmail-clean")
    nw = vlib.NCPU
    gw = GWorld(tree, "front")
    summary = {}
    for world, depth, budget in (("idle1", 5, ctx.n(20, 240)), ("woken1", 8, ctx.n(45, 600)), ("idle2", ctx.n(5, 8), ctx.n(25, 900))):
        roots = frontier(gw, world, depth, ctx.stats)
        jobs = [(tree, "%s-%d" % (world, i), world, roots[i::nw], budget, 10 ** 9) for i in range(nw) if roots[i::nw]]
        st = vlib.run_workers(worker_a, jobs)
        ctx.stats.merge(st)
        summary[world] = {"frontier": len(roots), "complete": st.extra.get("complete_%s" % world, 0) == st.extra.get("jobs_%s" % world, -1)}
    # random tapes on the 2-injector world (beyond what the DFS prefix reached)
    jobs = [(tree, "r%d" % i, "idle2", vlib.subseed(ctx.seed, "c16r", i), ctx.n(40, 600)) for i in range(nw)]
    ctx.stats.merge(vlib.run_workers(worker_rand, jobs))
    ctx.notes["part_a"] = summary
    ctx.notes["fairness_bound"] = FAIR
    ctx.exhaustive = all(v["complete"] for k, v in summary.items() if k != "idle2")
    ctx.notes["exhaustive_part"] = "worlds whose DFS completed: " + ", ".join(k for k, v in summary.items() if v["complete"])


def done_hist(rcpts, plan, ctl=None):
    return {"controls": dict({"me": "me.example\n", "locals": "loc.example\n"}, **(ctl or {})), "limits": [120, 120],
            "messages": [{"sender": "s@rem.example", "rcpts": r, "body": "x\n"} for r in rcpts], "scripts": {}, "bscript": "", "texts": ["ok"], "tape": [],
            "plan": plan, "actions": ["answer", "answer2", "inject", "advance", "term"], "mode": {"kind": "none"}}


FIXED_DONE = [
    done_hist([["a@rem.example"], ["joe@loc.example"], ["ann@loc.example"]], ["inject", "inject", "inject", "answer2", "answer"]),
    done_hist([["joe@loc.example"], ["r@rem.example"], ["q@rem.example"], ["ann@loc.example"]], ["inject", "inject", "inject", "answer2", "inject", "answer2"]),
    done_hist([["joe@loc.example", "r@rem.example"], ["ann@loc.example", "q@rem.example"]], ["inject", "inject", "answer2", "answer2"]),
    # a deferred message is read back at start-up (where a failing stat() parks it for SLEEP_SYSFAIL) and two others finish in one iteration
    dict(done_hist([["joe@loc.example"], ["ann@loc.example"], ["bob@loc.example"]], ["inject", "answer", "term", "inject", "inject", "answer2"]), scripts={"0:0": "ZK"}),
    dict(done_hist([["r@rem.example"], ["ann@loc.example"], ["q@rem.example"], ["bob@loc.example"]],
                   ["inject", "answer", "term", "inject", "inject", "answer2", "inject", "answer"]), scripts={"0:0": "ZZK"}),
]


def run(ctx):
    if ctx.only is None or "a" in ctx.only:
        part_a(ctx)
    if ctx.only is None or "b" in ctx.only:
        q.search(ctx, "C15", TAGS, 40, 600, fixed=FIXED_B)
        # finished messages are removed before the daemon blocks, also when two finish in the same loop iteration and also while another
        # message is parked after a failing stat(): each history re-executed under every single failing stat() of the daemon
        q.search(ctx, "C15", TAGS, 0, 0, fixed=FIXED_DONE, sweep={"all": True, "faults_only": True, "fault_classes": ["stat"], "tags": ["C16-done"], "restarts": True})
        q.search(ctx, "C03", TAGS, 30, 400)
        q.search(ctx, "C04", TAGS, 20, 300)        # varied concurrency settings: saturated channels with open passes


def replay(ctx, path):
    j = json.load(open(path))
    sc = j.get("scenario", j)
    if "world" in sc:
        sandbox.ensure_shim()
        tree = vlib.Tree().make("qmail-queue", "qmail-send", "qmail-clean")
        gw = GWorld(tree, "replay")
        bad = []
        for i in range(3):
            out = gw.execute(sc["world"], sc["tape"])
            bad.append(out["verdict"])
        return [bad[0]] if all(bad) else []
    # a history that failed under an injected stat() failure was judged by the clause that stays sound there
    md = sc.get("mode", {}) if isinstance(sc, dict) else {}
    return q.replay_scenario(ctx, path, TAGS + (("C16-done",) if md.get("kind") == "fault" and md.get("cls") == "stat" else ()))
