"""C19 - The POP3 server shows the maildir faithfully and deletes only on request.

Model-based testing (Hypothesis) of the real `qmail-pop3d <maildir>` and `qmail-popup host <checker> ...` run
through sandbox.Session under the vshim (fake non-root uid, pinned time()).  Every reply is compared with an
independent Python reference model of RFC 1939 (+ LAST of RFC 1460) as qualified by qmail-pop3d(8) /
qmail-popup(8) / maildir(5) over the same files, and the maildir is compared with the model's expectation after
every command and after the session (DESIGN.md section 5/C19).

Sub-parts
  pop3d : generated maildir population x generated command sequence (+ files removed behind the server's back),
          ended by QUIT / EOF / SIGKILL / an unterminated "QUIT" followed by EOF; one class runs with uid 0.
  popup : generated pre-authentication command sequence against qmail-popup with shim/standin as checkpassword
          (records descriptor 3, exits 0 / 1 / dies from a signal / chains to qmail-pop3d, after which a pop3d
          command sequence follows on the same connection).

Left open on purpose (slack, accepted every way and counted): `TOP n` without a line count, a line consisting of a
single CR as header/body separator for TOP, every reply that concerns a message whose file was removed behind the
server's back, the value of LAST between "highest number DELEted" and "highest number accessed", tmp/ files not
accessed for 36 hours (maildir(5) lets a reader remove them), USER / PASS with an empty argument, PASS that does not
directly follow USER.  Not generated (unspecified): `RETR n k`, numeric arguments with trailing junk or leading
zeros, arguments with leading blanks, NUL / CR / LF inside arguments, duplicate unique names, names with ':' in new/.
A violation of a fixed / regression input is reported only if it reproduces twice more (DESIGN.md section 1), otherwise
it is counted as inconclusive / class flaky_unreproducible.  C19_N overrides the Hypothesis examples per worker.
"""
import os, re, json, shutil, signal
from lib import vlib, sandbox
from hypothesis import strategies as st

LEVEL = "exploration"
RULE = ("Hypothesis draws a maildir population (0-6 messages in new/ and cur/, distinct or tied mtimes, one possibly "
        "not older than the server's start time, tmp/ files) and a sequence of <= 20 POP3 commands / removals behind "
        "the server's back, or a qmail-popup pre-authentication sequence with a scripted checker. A session is "
        "non-trivial when a DELE that was answered +OK is later followed by RSET or QUIT, when a message containing a "
        "line starting with '.' was retrieved, or (popup) when the checker was started; distinct = digest of the scenario.")
ASSUMPTIONS = [
    "the server's clock is pinned with VSHIM_FIXTIME; file times are set with os.utime relative to it",
    "the checks run as root; qmail-pop3d sees the uid given in VSHIM_UID (the shim fakes getuid)",
    "message numbering by ascending mtime and the renaming of unmarked new/x to cur/x:2, at QUIT are taken from DESIGN.md 5/C19 "
    "(maildir(5) allows the renaming); base names are unique across new/ and cur/ as maildir delivery guarantees",
    "a reply is framed by the protocol (one line, or up to CRLF.CRLF after +OK for LIST/UIDL without argument, RETR, TOP)",
]

T0 = 1700000000          # pinned server time
STALE = 129600           # 36 hours
BIG = {"2^31": str(2 ** 31), "2^32+1": str(2 ** 32 + 1), "10^20": str(10 ** 20), "2^64+1": str(2 ** 64 + 1)}
UNKNOWN = ["XYZZY", "FOO 1", "DELETE 1", "RETR1", "USER bob", "PASS secret", "APOP bob 0123", "HELO x", "QUITX", ""]


TOOLS = {"shim": sandbox.SHIM, "standin": sandbox.STANDIN}


def private_tools():
    """Other engineers rebuild shim/vshim.so while checks run; a child started in that window runs without the
    interposer (real uid 0, no chdir redirection) and every oracle misfires.  Each run therefore works with its own
    verified copy of vshim.so and standin under the scratch root."""
    import subprocess, time
    d = os.path.join(vlib.scratch_root(), "tools")
    os.makedirs(d, exist_ok=True)
    shim, standin = os.path.join(d, "vshim.so"), os.path.join(d, "standin")
    why = ""
    for attempt in range(15):
        try:
            shutil.copy2(sandbox.SHIM, shim)
            shutil.copy2(sandbox.STANDIN, standin)
            p = subprocess.run([standin], env={"LD_PRELOAD": shim, "SI_DIR": d, "VSHIM_UID": "4242"}, stdin=subprocess.DEVNULL,
                               stdout=subprocess.PIPE, stderr=subprocess.PIPE, timeout=20)
            meta = [f for f in os.listdir(d) if f.endswith(".meta")]
            ok = p.returncode == 0 and not p.stderr and meta and "uid=4242" in open(os.path.join(d, meta[0])).read()
            for f in os.listdir(d):
                if f not in ("vshim.so", "standin"):
                    os.unlink(os.path.join(d, f))
            if ok:
                TOOLS["shim"], TOOLS["standin"] = shim, standin
                return
            why = "exit %s stderr %r" % (p.returncode, p.stderr[:200])
        except (OSError, subprocess.SubprocessError) as e:
            why = str(e)
        time.sleep(1)
    raise vlib.HarnessError("no loadable copy of the shim / stand-in: " + why)


# ------------------------------------------------------------------ reference model

def split_lines(content):
    if content == b"":
        return []
    parts = content.split(b"\n")
    if parts[-1] == b"":
        parts.pop()
    return parts


def wire(content, limit=None, cr_blank=False):
    """Body of a RETR (limit None) / TOP (limit = number of body lines) reply after the status line."""
    out = []
    inhdr = True
    body = 0
    for ln in split_lines(content):
        if not inhdr:
            if limit is not None and body >= limit:
                break
            body += 1
        out.append((b"." if ln.startswith(b".") else b"") + ln + b"\r\n")
        if inhdr and (ln == b"" or (cr_blank and ln == b"\r")):
            inhdr = False
    return b"".join(out) + b"\r\n" + b".\r\n"


def has_dotline(content):
    return any(l.startswith(b".") for l in split_lines(content))


STATUS_RE = re.compile(rb"^(\+OK|-ERR)( [^\r\n]*)?\r\n$")


class Model:
    """POP3 transaction state over the messages visible at start-up (already numbered)."""

    def __init__(self, msgs):
        self.m = msgs                      # [{rel, uid, size, content, marked, gone}]
        self.lo = 0                        # highest number DELEted since start/RSET
        self.hi = 0                        # highest number referenced by any successful command since start/RSET
        self.slack = 0
        self.deleted_then = False          # a successful DELE is pending (for the non-trivial predicate)
        self.dele_followed = False
        self.dot_retrieved = False

    count = property(lambda s: len(s.m))

    def resolve(self, arg):
        """-> index or None (must be refused)."""
        if not re.fullmatch(r"[0-9]+", arg):
            return None
        n = int(arg)
        if n < 1 or n > len(self.m) or self.m[n - 1]["marked"]:
            return None
        return n - 1

    @staticmethod
    def status(reply):
        """-> b'+OK' / b'-ERR' / None for a single status line."""
        mm = STATUS_RE.match(reply)
        return mm.group(1) if mm else None

    def touch(self, i):
        self.hi = max(self.hi, i + 1)

    def multi(self, verb, arg):
        return (verb in ("LIST", "UIDL") and arg == "") or verb in ("RETR", "TOP")

    # each judge_* returns None or an error string and updates the state from the (acceptable) observed reply
    def judge(self, verb, arg, k, reply):
        if verb in ("LIST", "UIDL") and arg == "":
            return self.judge_listing(verb, reply)
        if verb == "STAT":
            mm = re.fullmatch(rb"\+OK (\d+) (\d+)( [^\r\n]*)?\r\n", reply)
            if not mm:
                return "STAT reply malformed"
            base = sum(x["size"] for x in self.m if not x["marked"] and not x["gone"])
            opt = [x["size"] for x in self.m if not x["marked"] and x["gone"]]
            ok = {base}
            for s in opt:
                ok |= {v + s for v in ok}
            if opt:
                self.slack += 1
            if int(mm.group(2)) not in ok:
                return "STAT size %d, files say %s" % (int(mm.group(2)), sorted(ok))
            return None
        if verb in ("NOOP", "RSET"):
            if self.status(reply) != b"+OK":
                return "%s not answered +OK" % verb
            if verb == "RSET":
                if self.deleted_then:
                    self.dele_followed = True
                    self.deleted_then = False
                for x in self.m:
                    x["marked"] = False
                self.lo = self.hi = 0
            return None
        if verb == "LAST":
            mm = re.fullmatch(rb"\+OK (\d+)( [^\r\n]*)?\r\n", reply)
            if not mm:
                return "LAST reply malformed"
            if self.lo != self.hi:
                self.slack += 1
            if not (self.lo <= int(mm.group(1)) <= self.hi):
                return "LAST says %d, expected between %d and %d" % (int(mm.group(1)), self.lo, self.hi)
            return None
        if verb == "UNKNOWN":
            s = self.status(reply)
            if s is None:
                return "reply to an unknown command is not a status line"
            if arg != "" and s != b"-ERR":
                return "unknown command %r answered +OK" % arg
            return None
        i = self.resolve(arg)
        first, _, rest = reply.partition(b"\n")
        first += b"\n" if _ else b""
        s = self.status(first)
        if s is None:
            return "%s %s: first reply line is not a status line" % (verb, arg)
        if i is None:
            if s != b"-ERR" or rest:
                return "%s with message number %r not refused" % (verb, arg)
            return None
        x = self.m[i]
        if verb in ("LIST", "UIDL"):
            if s == b"-ERR":
                if x["gone"]:
                    self.slack += 1
                    return None
                return "%s %s refused for a listed message" % (verb, arg)
            want = str(x["size"]).encode() if verb == "LIST" else x["uid"]
            mm = re.fullmatch(rb"\+OK (\d+) ([^ \r\n]+)( [^\r\n]*)?\r\n", reply)
            if not mm or int(mm.group(1)) != i + 1 or mm.group(2) != want:
                return "%s %s: expected '%d %s'" % (verb, arg, i + 1, want.decode("latin-1"))
            self.touch(i)
            return None
        if verb == "DELE":
            if rest:
                return "DELE: more than one reply line"
            if s == b"-ERR":
                if x["gone"]:
                    self.slack += 1
                    return None
                return "DELE %s refused for an existing unmarked message" % arg
            x["marked"] = True
            self.deleted_then = True
            self.lo = max(self.lo, i + 1)
            self.touch(i)
            return None
        if verb in ("RETR", "TOP"):
            if verb == "TOP" and k is None:
                self.slack += 1                      # unspecified: accept every framed reply
                if s == b"+OK":
                    self.touch(i)
                return None
            if s == b"-ERR":
                if rest:
                    return "%s: data after -ERR" % verb
                if x["gone"]:
                    return None
                return "%s %s refused for an existing unmarked message" % (verb, arg)
            limit = None if verb == "RETR" else int(k)
            a = wire(x["content"], limit)
            b = wire(x["content"], limit, cr_blank=True)
            if x["gone"]:
                self.slack += 1
            if rest == a or (verb == "TOP" and rest == b):
                if a != b and verb == "TOP":
                    self.slack += 1
                self.touch(i)
                if has_dotline(x["content"]):
                    self.dot_retrieved = True
                return None
            return "%s %s%s: message data differ from the file: got %r expected %r" % (
                verb, arg, " " + k if verb == "TOP" else "", rest[:200], a[:200])
        return "internal: verb %s" % verb

    def judge_listing(self, verb, reply):
        if not reply.endswith(b"\r\n.\r\n") and not re.fullmatch(rb"\+OK[^\r\n]*\r\n\.\r\n", reply):
            return "%s: reply not terminated by CRLF.CRLF" % verb
        lines = reply.split(b"\r\n")
        if self.status(lines[0] + b"\r\n") != b"+OK":
            return "%s: not answered +OK" % verb
        ent = lines[1:-2]
        exp = []
        for i, x in enumerate(self.m):
            if x["marked"]:
                continue
            val = str(x["size"]).encode() if verb == "LIST" else x["uid"]
            exp.append((b"%d " % (i + 1) + val, x["gone"]))
        if any(g for _, g in exp):
            self.slack += 1
        p = 0
        for line, optional in exp:
            if p < len(ent) and ent[p] == line:
                p += 1
            elif not optional:
                return "%s: entry %r missing or out of order (got %r)" % (verb, line, ent[:8])
        if p != len(ent):
            return "%s: unexpected entry %r" % (verb, ent[p])
        return None


# ------------------------------------------------------------------ maildir handling

def msg_rel(m):
    return "%s/%s%s" % (m["dir"], m["name"], m["info"])


def build_maildir(md, sc):
    shutil.rmtree(md, ignore_errors=True)
    for d in ("new", "cur", "tmp"):
        os.makedirs(os.path.join(md, d))
    for m in sc["msgs"]:
        p = os.path.join(md, msg_rel(m))
        with open(p, "wb") as f:
            f.write(vlib.unjson(m["content"]))
        os.utime(p, (T0 - m["age"], T0 - m["age"]))
    for t in sc.get("tmp", []):
        p = os.path.join(md, "tmp", t["name"])
        with open(p, "wb") as f:
            f.write(b"partial delivery\n")
        at = T0 - STALE - 600 if t["stale"] else T0 - STALE + 600
        os.utime(p, (at, at))


def snapshot(md):
    out = {}
    for d in sorted(os.listdir(md)):
        p = os.path.join(md, d)
        if not os.path.isdir(p) or os.path.islink(p):
            out[d] = b"<not a directory>"
            continue
        for f in os.listdir(p):
            q = os.path.join(p, f)
            try:
                if not os.path.isfile(q) or os.path.islink(q):
                    out[d + "/" + f] = b"<not a file>"
                    continue
                fd = os.open(q, os.O_RDONLY | os.O_NOATIME)     # keep atime: tmp/ files age by access time
                try:
                    with os.fdopen(os.dup(fd), "rb") as fh:
                        out[d + "/" + f] = fh.read()
                finally:
                    os.close(fd)
            except OSError:
                out[d + "/" + f] = b"<unreadable>"
    return out


def diff_fs(actual, expected, optional):
    """Compare two snapshots; `optional` = relative names that may be missing from `actual`."""
    for k in sorted(set(actual) | set(expected)):
        if k not in actual:
            if k in optional:
                continue
            return "%s is gone" % k
        if k not in expected:
            return "%s appeared" % k
        if actual[k] != expected[k]:
            return "%s changed its contents" % k
    return None


def visible_sorted(sc, off=0):
    """Indices of messages older than the start time (T0 + off: the clock may have moved on before the server started), ascending mtime;
    flag = mtimes tie."""
    vis = [i for i, m in enumerate(sc["msgs"]) if T0 - m["age"] < T0 + off]
    vis.sort(key=lambda i: (-sc["msgs"][i]["age"], i))
    ages = [sc["msgs"][i]["age"] for i in vis]
    return vis, len(set(ages)) != len(ages)


def mixcase(s, style):
    if style == "lower":
        return s.lower()
    if style == "mixed":
        return "".join(c.lower() if i % 2 else c.upper() for i, c in enumerate(s))
    return s.upper()


def read_reply(s, multi):
    def pred(b):
        i = b.find(b"\n")
        if i < 0:
            return None
        if not (multi and b.startswith(b"+OK")):
            return i + 1
        j = b.find(b"\r\n.\r\n", max(i - 1, 0))
        return j + 5 if j >= 0 else None
    return s.read_until(pred)


class Inconclusive(Exception):
    pass


class Runner:
    def __init__(self, tree, wid):
        self.tree = tree
        self.h = sandbox.Home(tree, os.path.join(vlib.scratch_root(), "c19-%s" % wid))
        self.md = os.path.join(self.h.dir, "Maildir")
        self.rec = os.path.join(self.h.dir, "rec")
        self.pop3d = tree.path("qmail-pop3d")
        self.popup = tree.path("qmail-popup")
        self.clockf = os.path.join(self.h.dir, "clock")           # 8-byte offset added to the pinned time() of a popup session
        open(self.clockf, "wb").write(b"\0" * 8)

    def env(self, uid, **extra):
        e = self.h.env(role="pop", uid=uid, trace=False, VSHIM_FIXTIME=T0, **extra)
        e["LD_PRELOAD"] = TOOLS["shim"]
        return e

    # ---------------------------------------------------------------- pop3d transaction phase on an open session
    def transaction(self, s, sc, steps, end, cls, start_fs):
        """Drive the pop3d part of a session (greeting included). Returns (error|None, model)."""
        md = self.md
        vis, ties = visible_sorted(sc, getattr(self, "cur_tick", 0))
        g = s.read_line()
        if g is None:
            raise Inconclusive()
        if Model.status(g) != b"+OK":
            return "pop3d greeting is %r" % g[:80], None
        msgs = sc["msgs"]

        def mk(i):
            m = msgs[i]
            c = vlib.unjson(m["content"])
            return {"rel": msg_rel(m), "uid": m["name"].encode("latin-1"), "size": len(c), "content": c,
                    "marked": False, "gone": False, "idx": i, "dir": m["dir"], "name": m["name"], "age": m["age"]}
        order = [mk(i) for i in vis]
        expected = dict(start_fs)
        optional = set("tmp/" + t["name"] for t in sc.get("tmp", []) if t["stale"])
        if ties:
            cls.append("mtime_ties")
            s.send(b"UIDL\r\n")
            r = read_reply(s, True)
            if r is None:
                raise Inconclusive()
            lines = r.split(b"\r\n")
            if not r.endswith(b"\r\n.\r\n") or Model.status(lines[0] + b"\r\n") != b"+OK":
                return "UIDL (tie probe) malformed: %r" % r[:120], None
            byuid = {x["uid"]: x for x in order}
            new = []
            for n, e in enumerate(lines[1:-2]):
                num, _, uid = e.partition(b" ")
                if num != b"%d" % (n + 1) or uid not in byuid or byuid[uid] in new:
                    return "UIDL (tie probe): bad entry %r" % e, None
                new.append(byuid[uid])
            if len(new) != len(order):
                return "UIDL (tie probe) lists %d of %d messages" % (len(new), len(order)), None
            if any(new[i]["age"] < new[i + 1]["age"] for i in range(len(new) - 1)):
                return "message numbering is not by ascending modification time", None
            order = new
        model = Model(order)
        removed = set()
        for st_ in steps:
            if st_["op"] == "rm":
                if not msgs:
                    continue
                m = msgs[st_["i"] % len(msgs)]
                rel = msg_rel(m)
                if rel in removed:
                    continue
                os.unlink(os.path.join(md, rel))
                removed.add(rel)
                expected.pop(rel, None)
                for x in order:
                    if x["rel"] == rel:
                        x["gone"] = True
                        cls.append("vanish_visible")
                continue
            verb = st_["verb"]
            arg = self.resolve_arg(st_.get("arg", ""), model.count)
            k = st_.get("k")
            if verb == "UNKNOWN":
                text = UNKNOWN[st_["u"] % len(UNKNOWN)]
                line = text
                arg = text
            else:
                line = mixcase(verb, st_.get("case", "upper"))
                if verb in ("LIST", "UIDL", "RETR", "TOP", "DELE") and arg != "":
                    line += " " + arg
                if verb == "TOP" and k is not None:
                    if arg == "":
                        continue         # "TOP  k" would be parsed as "TOP k": not generated
                    line += " " + k
            cls.append("cmd_" + verb)
            if verb in ("LIST", "UIDL", "RETR", "TOP", "DELE"):
                cls.append("arg_" + self.arg_class(st_.get("arg", "")))
            s.send(line.encode("latin-1") + st_.get("eol", "\r\n").encode())
            r = read_reply(s, model.multi(verb, arg))
            if r is None:
                raise Inconclusive()
            e = model.judge(verb, arg, k, r)
            if e:
                return "%s | after %r reply %r" % (e, line, r[:160]), model
            if verb in ("RETR", "TOP") and r.startswith(b"+OK"):
                cls.append("retrieved")
            e = diff_fs(snapshot(md), expected, optional)
            if e:
                return "maildir changed before QUIT: %s | after %r" % (e, line), model
        # ---- end of session
        cls.append("end_" + end)
        if end == "quit":
            q = mixcase("QUIT", sc.get("qcase", "upper")).encode() + sc.get("qeol", "\r\n").encode()
            s.send(q)
            r = s.read_all()
            if r is None or s.wait() is None:
                raise Inconclusive()
            gone_marked = [x for x in order if x["marked"] and x["gone"]]
            if gone_marked:
                model.slack += 1
                for l in r.split(b"\r\n")[:-1]:
                    if Model.status(l + b"\r\n") is None:
                        return "QUIT reply line %r is not a status line" % l[:80], model
                if not r.endswith(b"\r\n"):
                    return "QUIT reply not terminated", model
            elif Model.status(r) != b"+OK":
                return "QUIT answered %r" % r[:120], model
            if model.deleted_then:
                model.dele_followed = True
            for x in order:
                if x["gone"]:
                    continue
                if x["marked"]:
                    expected.pop(x["rel"], None)
                elif x["dir"] == "new":
                    c = expected.pop(x["rel"])
                    expected["cur/" + x["name"] + ":2,"] = c
            e = diff_fs(snapshot(md), expected, optional)
            if e:
                marks = [i + 1 for i, x in enumerate(order) if x["marked"]]
                return "maildir after QUIT: %s | marked=%s" % (e, marks), model
        else:
            if end == "partial":
                s.send(b"QUIT")
            if end == "kill":
                try:
                    os.killpg(s.p.pid, signal.SIGKILL)
                except ProcessLookupError:
                    pass
            s.close_stdin()
            if s.read_all() is None or s.wait() is None:
                raise Inconclusive()
            e = diff_fs(snapshot(md), expected, optional)
            if e:
                return "maildir changed although the session ended without QUIT (%s): %s" % (end, e), model
        return None, model

    @staticmethod
    def resolve_arg(a, count):
        if a in BIG:
            return BIG[a]
        if a == "count":
            return str(count)
        if a == "count+1":
            return str(count + 1)
        if a.startswith("v"):
            return str(int(a[1:]) % count + 1) if count else "1"
        return a

    @staticmethod
    def arg_class(a):
        return "valid" if a.startswith("v") else (a or "empty")

    # ---------------------------------------------------------------- one pop3d scenario
    def run_pop3d(self, sc, stats):
        cls = ["pop3d"]
        build_maildir(self.md, sc)
        start = snapshot(self.md)
        self.content_classes(sc, cls)
        uid0 = sc.get("uid0") or False
        self.cur_tick = 0
        # uid0 == "eff": real uid 0 with another effective uid (privileges dropped with seteuid() only) - still "run as root"
        s = sandbox.Session([self.pop3d, self.md], self.env(0 if uid0 else 4242, **({"VSHIM_EUID": "54321"} if uid0 == "eff" else {})))
        model = None
        try:
            if uid0:
                cls.append("uid0")
                if uid0 == "eff":
                    cls.append("uid0_effective_uid_dropped")
                for st_ in sc["steps"]:
                    if st_["op"] == "cmd" and st_["verb"] != "UNKNOWN":
                        a = self.resolve_arg(st_.get("arg", ""), 1)
                        s.send(("%s %s\r\n" % (st_["verb"], a)).encode())
                s.send(b"QUIT\r\n")
                s.close_stdin()
                out = s.read_all()
                rc = s.wait()
                if out is None or rc is None:
                    raise Inconclusive()
                err = None
                if rc != 1:
                    err = "invoked as uid 0: exit status %s, documented 1" % rc
                elif out:
                    err = "invoked as uid 0: talks to the client: %r" % out[:80]
                else:
                    e = diff_fs(snapshot(self.md), start, set())
                    if e:
                        err = "invoked as uid 0: maildir changed: %s" % e
                stats.case(scenario=sc, nontrivial=True, classes=cls)
                return err
            err, model = self.transaction(s, sc, sc["steps"], sc["end"], cls, start)
        except Inconclusive:
            stats.inconclusive += 1
            return None
        finally:
            s.kill()
        nt = bool(model and (model.dele_followed or model.dot_retrieved))
        if model:
            stats.slack += model.slack
            if model.dele_followed:
                cls.append("dele_then_rset_or_quit")
            if model.dot_retrieved:
                cls.append("dotline_retrieved")
            cls.append("count_%d" % min(model.count, 6))
        stats.case(scenario=sc, nontrivial=nt, classes=sorted(set(cls)))
        return err

    @staticmethod
    def content_classes(sc, cls):
        for m in sc["msgs"]:
            c = vlib.unjson(m["content"])
            if m["age"] <= 0:
                cls.append("msg_not_older_than_start")
                if m["age"] == 0:
                    cls.append("msg_mtime_eq_start")
                continue
            cls.append("msg_in_" + m["dir"])
            if c == b"":
                cls.append("msg_empty")
            elif not c.endswith(b"\n"):
                cls.append("msg_no_final_newline")
            if has_dotline(c):
                cls.append("msg_dotline")
            if len(c) > 1024:
                cls.append("msg_gt_1024")
            if b"\r\n" in c:
                cls.append("msg_crlf")
            if any(b > 127 for b in c):
                cls.append("msg_8bit")
            if b"\n\n" not in c and not c.startswith(b"\n"):
                cls.append("msg_header_only")
        for t in sc.get("tmp", []):
            cls.append("tmp_stale" if t["stale"] else "tmp_fresh")

    # ---------------------------------------------------------------- one popup scenario
    def run_popup(self, sc, stats):
        cls = ["popup"]
        build_maildir(self.md, sc)
        start = snapshot(self.md)
        shutil.rmtree(self.rec, ignore_errors=True)
        ck = sc["checker"]
        cls.append("checker_" + ck)
        host = sc["host"]
        senv = sandbox.standin_env(self.rec, read="3", exit=1 if ck == "exit1" else 0,
                                   kill=int(ck[4:]) if ck.startswith("kill") else None, exec_=(ck == "exec"))
        sub = [TOOLS["standin"], self.pop3d, self.md]
        # the clock moves on between the greeting and the commands (1 s, 7 s or not at all, fixed by the scenario): the challenge handed to the
        # checker is the one the client was greeted with, not one made up later (added after seeded change C19-L)
        tick = sc.get("tick", [0, 1, 7][len(sc["steps"]) % 3])
        self.cur_tick = tick
        open(self.clockf, "wb").write(b"\0" * 8)
        s = sandbox.Session([self.popup, host] + sub, self.env(4242, VSHIM_CLOCK=self.clockf, **senv))
        ran = False
        model = None
        slack = 0
        try:
            err = None
            g = s.read_line()
            if g is None:
                raise Inconclusive()
            mm = re.fullmatch(rb"\+OK (<[0-9]+\.[0-9]+@([^<>\r\n]*)>)\r\n", g)
            if not mm or mm.group(2) != host.encode("latin-1"):
                err = "greeting %r carries no APOP timestamp <pid.clock@%s>" % (g[:100], host)
                stats.case(scenario=sc, nontrivial=False, classes=cls)
                return err
            banner = mm.group(1)
            if tick:
                with open(self.clockf, "r+b") as cf:
                    cf.write(int(tick).to_bytes(8, "little"))
                cls.append("clock_moves_after_greeting")
            user = None
            just_user = False
            over = False
            for st_ in sc["steps"]:
                verb = st_["verb"]
                a = vlib.unjson(st_.get("arg", {"b": ""}))
                b = vlib.unjson(st_.get("arg2", {"b": ""}))
                sp = bool(st_.get("sp"))
                if verb == "APOP" and sp and a == b"":
                    a, b, sp = b, b"", False       # "APOP  digest" (argument with a leading blank) is not generated
                if verb == "OTHER":
                    line = st_["text"].encode("latin-1")
                else:
                    line = mixcase(verb, st_.get("case", "upper")).encode()
                    if a != b"":
                        line += b" " + a
                    if verb == "APOP" and sp:
                        line += b" " + b
                cls.append("pre_" + verb)
                s.send(line + st_.get("eol", "\r\n").encode())
                r = s.read_line()
                if r is None:
                    raise Inconclusive()
                recs = sandbox.standin_records(self.rec)
                if len(recs) > 1:
                    err = "the checker was started %d times" % len(recs)
                    break
                e = diff_fs(snapshot(self.md), start, set()) if not recs else None
                if e:
                    err = "maildir changed before authentication: %s | after %r" % (e, line[:80])
                    break
                want = None            # (user, pass) the checker must have seen; False = must not run; "either"
                if verb == "USER":
                    want = False
                    if a == b"":
                        slack += 1
                        if Model.status(r) is None:
                            err = "USER without name: reply %r" % r[:80]
                        elif r.startswith(b"+OK"):
                            user = a
                    elif Model.status(r) != b"+OK":
                        err = "USER %r not accepted: %r" % (a[:40], r[:80])
                    else:
                        user = a
                    just_user = r.startswith(b"+OK")
                elif verb == "PASS":
                    if user is None:
                        want = False
                        if Model.status(r) != b"-ERR":
                            err = "PASS without USER answered %r" % r[:80]
                    elif a == b"" or not just_user:
                        want = "either"
                        slack += 1
                    else:
                        want = (user, a)
                    just_user = False
                elif verb == "APOP":
                    if sp and b != b"":
                        # name = up to the first blank, digest = everything after it
                        full = a + b" " + b
                        want = (full.split(b" ", 1)[0], full.split(b" ", 1)[1])
                    elif not sp and b" " not in a:
                        want = False
                        if Model.status(r) != b"-ERR":
                            err = "APOP without digest answered %r" % r[:80]
                    else:
                        want = "either"
                        slack += 1
                    just_user = False
                elif verb == "NOOP":
                    want = False
                    if Model.status(r) != b"+OK":
                        err = "NOOP answered %r" % r[:80]
                elif verb == "QUIT":
                    want = False
                    if Model.status(r) != b"+OK":
                        err = "QUIT answered %r" % r[:80]
                    over = True
                else:
                    want = False
                    just_user = False
                    if Model.status(r) != b"-ERR":
                        err = "%r before authentication answered %r" % (line[:60], r[:80])
                if err:
                    break
                if want is False and recs:
                    err = "the checker was started by %r" % line[:60]
                    break
                if want == "either":
                    if not recs:
                        if Model.status(r) != b"-ERR":
                            err = "%r: checker not run but reply %r" % (line[:60], r[:80])
                            break
                        continue
                    full = line.split(b" ", 1)[1] if b" " in line else b""
                    if verb == "PASS":
                        want = (user, full)
                    else:
                        want = (full.split(b" ", 1)[0], full.split(b" ", 1)[1] if b" " in full else b"")
                if isinstance(want, tuple):
                    if not recs:
                        err = "%r: the checker was not started, reply %r" % (line[:60], r[:80])
                        break
                    ran = True
                    rec = recs[0]
                    exp3 = want[0] + b"\0" + want[1] + b"\0" + banner + b"\0"
                    if rec.get("fd3") != exp3:
                        err = "checker read %r on descriptor 3, expected %r" % ((rec.get("fd3") or b"")[:200], exp3[:200])
                        break
                    if rec.get("argv", [])[1:] != [x.encode() for x in sub[1:]]:
                        err = "checker arguments %r" % rec.get("argv")
                        break
                    if ck == "exec":
                        # r is the greeting of qmail-pop3d: hand it back and run the transaction phase
                        s.buf = r + s.buf
                        err, model = self.transaction(s, sc, sc["post"], sc["end"], cls, start)
                        over = True
                        break
                    rest = s.read_all()
                    if rest is None or s.wait() is None:
                        raise Inconclusive()
                    out = r + rest
                    if ck == "exit0":
                        if out:
                            err = "checker exited 0 but qmail-popup printed %r" % out[:80]
                    elif Model.status(out) != b"-ERR":
                        err = "checker %s: qmail-popup printed %r, expected one -ERR line" % (ck, out[:80])
                    over = True
                    break
                if over:
                    rest = s.read_all()
                    if rest is None or s.wait() is None:
                        raise Inconclusive()
                    if rest:
                        err = "output after QUIT: %r" % rest[:80]
                    break
            if not err and not over:
                s.close_stdin()
                if s.read_all() is None or s.wait() is None:
                    raise Inconclusive()
            if not err and not (ran and ck == "exec"):
                if len(sandbox.standin_records(self.rec)) != (1 if ran else 0):
                    err = "the checker was started without PASS/APOP"
                else:
                    e = diff_fs(snapshot(self.md), start, set())
                    if e:
                        err = "maildir changed without a successful login: %s" % e
        except Inconclusive:
            stats.inconclusive += 1
            return None
        finally:
            s.kill()
        stats.slack += slack + (model.slack if model else 0)
        if ran:
            cls.append("checker_ran")
        if model and model.dele_followed:
            cls.append("popup_chain_dele")
        stats.case(scenario=sc, nontrivial=ran, classes=sorted(set(cls)))
        return err

    def run(self, sc, stats):
        if sc["kind"] == "popup":
            return self.run_popup(sc, stats)
        return self.run_pop3d(sc, stats)


# ------------------------------------------------------------------ generators

NAMECH = "abcXYZ0189._-=,"
LINES = [b"", b"", b".", b"..", b".x", b"...", b". ", b"Subject: hello", b"From: a@b", b"body line", b"x", b"\r", b"a\r", b".\r",
         b"\xe9t\xe9 \xff\x80", b"\x00nul", b"tab\there", b"+OK", b"-ERR x", b". \r"]
line = st.one_of(
    st.sampled_from(LINES), st.sampled_from(LINES),
    st.binary(max_size=10).map(lambda b: b.replace(b"\n", b"N")),
    st.builds(lambda c, n: c * n, st.sampled_from([b"x", b".", b"\xfe"]), st.sampled_from([120, 127, 128, 1021, 1022, 1023, 1024, 1025, 2050])),
)
content = st.builds(lambda ls, nl: b"\n".join(ls) + (b"\n" if nl and ls else b""), st.lists(line, max_size=9), st.booleans()).map(vlib.jsonable)
basename = st.text(alphabet=NAMECH, min_size=1, max_size=10).filter(lambda s: not s.startswith("."))
AGE = st.one_of(st.integers(1, 400000), st.integers(1, 50), st.sampled_from([1, 2, 0, 0, -1, -86400]))
TIE_AGE = st.sampled_from([1, 2, 2, 3, 3, 0])


@st.composite
def population(draw, maxn=6):
    n = draw(st.integers(0, maxn))
    names = draw(st.lists(basename, min_size=n, max_size=n, unique=True))
    ties = draw(st.sampled_from([False] * 7 + [True]))
    if ties:
        ages = draw(st.lists(TIE_AGE, min_size=n, max_size=n))
    else:
        ages = draw(st.lists(AGE, min_size=n, max_size=n, unique=True))
    msgs = []
    for nm, ag in zip(names, ages):
        d = draw(st.sampled_from(["new", "cur"]))
        info = draw(st.sampled_from(["", ":2,", ":2,S", ":2,FRS", ":1,exp"])) if d == "cur" else ""
        msgs.append({"dir": d, "name": nm, "info": info, "age": ag, "content": draw(content)})
    tmp = draw(st.lists(st.fixed_dictionaries({"name": st.sampled_from(["t1", "1700000000.7.host", "zz"]), "stale": st.booleans()}),
                        max_size=2, unique_by=lambda t: t["name"]))
    return msgs, tmp


ARGS = ["v0", "v1", "v2", "v3", "v4", "v5", "0", "1", "count", "count+1", "2^31", "2^32+1", "10^20", "2^64+1", "", "abc", "-1"]
arg = st.one_of(st.sampled_from(ARGS[:6]), st.sampled_from(ARGS))
CASE = st.sampled_from(["upper", "upper", "lower", "mixed"])
EOL = st.sampled_from(["\r\n", "\r\n", "\n"])


def cmd(verbs):
    return st.fixed_dictionaries({"op": st.just("cmd"), "verb": verbs, "arg": arg, "k": st.sampled_from(["0", "1", "2", "99", None, "0", "1"]),
                                  "case": CASE, "eol": EOL, "u": st.integers(0, len(UNKNOWN) - 1)})


VERBS = st.sampled_from(["STAT", "LIST", "LIST", "UIDL", "UIDL", "RETR", "RETR", "RETR", "TOP", "TOP", "TOP", "DELE", "DELE", "DELE", "DELE",
                         "RSET", "LAST", "NOOP", "UNKNOWN"])
step = st.one_of(cmd(VERBS), cmd(VERBS), cmd(VERBS), cmd(VERBS), cmd(VERBS), cmd(VERBS),
                 st.fixed_dictionaries({"op": st.just("rm"), "i": st.integers(0, 5)}))
END = st.sampled_from(["quit", "quit", "quit", "quit", "eof", "kill", "partial"])


@st.composite
def pop3d_scenario(draw):
    msgs, tmp = draw(population())
    return {"kind": "pop3d", "msgs": msgs, "tmp": tmp, "uid0": draw(st.sampled_from([False] * 24 + [True, "eff"])),
            "steps": draw(st.lists(step, max_size=20)), "end": draw(END), "qcase": draw(CASE), "qeol": draw(EOL)}


ARGBYTES = st.one_of(
    st.sampled_from([b"bob", b"secret", b"a", b"", b"joe user", b"p w ", b"\xe9\xff", b"<1.2@h>", b"0123456789abcdef0123456789abcdef"]),
    st.binary(max_size=12).map(lambda b: bytes(c for c in b if c not in (0, 10, 13)).lstrip(b" ")),
    st.builds(lambda n: b"L" * n, st.sampled_from([127, 128, 129, 300, 5000])),
)
OTHERS = ["STAT", "LIST", "RETR 1", "DELE 1", "dele 1", "RSET", "TOP 1 0", "UIDL", "LAST", "XYZZY", "", "USERx bob", "PASSWORD x", "QUITE",
          "AUTH PLAIN", "RETR 1\r"]
pre_step = st.one_of(
    st.fixed_dictionaries({"verb": st.just("USER"), "arg": ARGBYTES.map(vlib.jsonable), "case": CASE, "eol": EOL}),
    st.fixed_dictionaries({"verb": st.just("USER"), "arg": ARGBYTES.map(vlib.jsonable), "case": CASE, "eol": EOL}),
    st.fixed_dictionaries({"verb": st.just("PASS"), "arg": ARGBYTES.map(vlib.jsonable), "case": CASE, "eol": EOL}),
    st.fixed_dictionaries({"verb": st.just("APOP"), "arg": ARGBYTES.map(vlib.jsonable), "arg2": ARGBYTES.map(vlib.jsonable),
                           "sp": st.booleans(), "case": CASE, "eol": EOL}),
    st.fixed_dictionaries({"verb": st.just("NOOP"), "case": CASE, "eol": EOL}),
    st.fixed_dictionaries({"verb": st.just("QUIT"), "case": CASE, "eol": EOL}),
    st.fixed_dictionaries({"verb": st.just("OTHER"), "text": st.sampled_from(OTHERS), "eol": EOL}),
    st.fixed_dictionaries({"verb": st.just("OTHER"), "text": st.sampled_from(OTHERS), "eol": EOL}),
)


@st.composite
def popup_scenario(draw):
    msgs, tmp = draw(population(maxn=3))
    steps = draw(st.lists(pre_step, max_size=8))
    # most sequences end in a login attempt so that the checker is reached
    tail = draw(st.sampled_from(["userpass", "userpass", "apop", "none"]))
    if tail == "userpass":
        steps += [{"verb": "USER", "arg": vlib.jsonable(draw(ARGBYTES)), "case": draw(CASE), "eol": draw(EOL)},
                  {"verb": "PASS", "arg": vlib.jsonable(draw(ARGBYTES)), "case": draw(CASE), "eol": draw(EOL)}]
    elif tail == "apop":
        steps += [{"verb": "APOP", "arg": vlib.jsonable(draw(ARGBYTES)), "arg2": vlib.jsonable(draw(ARGBYTES)), "sp": True,
                   "case": draw(CASE), "eol": draw(EOL)}]
    return {"kind": "popup", "host": draw(st.sampled_from(["pop.example.org", "h", "mail-1.example"])), "msgs": msgs, "tmp": tmp,
            "checker": draw(st.sampled_from(["exit0", "exit1", "exit1", "kill11", "kill9", "exec", "exec", "exec"])),
            "steps": steps, "post": draw(st.lists(step, max_size=8)), "end": draw(END),
            "qcase": draw(CASE), "qeol": draw(EOL)}


scenario = st.one_of(pop3d_scenario(), pop3d_scenario(), pop3d_scenario(), popup_scenario())


def fixed_inputs():
    """Deterministic scenarios on the documented boundaries (always run; also the seeds of corpus/C19/regress)."""
    def msg(d, name, age, c, info=""):
        return {"dir": d, "name": name, "info": info, "age": age, "content": vlib.jsonable(c)}

    def c(verb, a="", k=None, case="upper", eol="\r\n"):
        return {"op": "cmd", "verb": verb, "arg": a, "k": k, "case": case, "eol": eol, "u": 0}
    three = [msg("new", "m1", 300, b"Subject: one\n\nbody 1\n.\n..\n.tail\n"),
             msg("cur", "m2", 200, b"Subject: two\nX: y\n\nl1\nl2\nl3\nno newline at end", ":2,S"),
             msg("new", "m3", 100, b""),
             msg("new", "future", 0, b"too new\n")]
    out = []
    base = {"kind": "pop3d", "tmp": [{"name": "t1", "stale": False}, {"name": "zz", "stale": True}], "uid0": False, "qcase": "upper", "qeol": "\r\n"}
    for big in ("2^64+1", "2^32+1", "10^20", "2^31", "count+1", "0", "abc", "-1", ""):
        out.append(dict(base, msgs=three, steps=[c("DELE", big), c("LIST"), c("STAT")], end="quit"))
        out.append(dict(base, msgs=three, steps=[c("RETR", big), c("TOP", big, "1"), c("LIST", big) if big else c("NOOP"), c("UIDL", big) if big else c("NOOP")], end="quit"))
    out.append(dict(base, msgs=three, steps=[c("RETR", "v0"), c("RETR", "v1"), c("RETR", "v2"), c("TOP", "v0", "0"), c("TOP", "v0", "2"),
                                             c("TOP", "v1", "1"), c("TOP", "v1", "99"), c("UIDL"), c("LIST"), c("STAT"), c("LAST")], end="quit"))
    out.append(dict(base, msgs=three, steps=[c("DELE", "v1"), c("DELE", "v1"), c("LIST"), c("STAT"), c("LAST"), c("RSET"), c("LAST"), c("LIST"),
                                             c("DELE", "v0", case="lower", eol="\n")], end="quit"))
    out.append(dict(base, msgs=three, steps=[c("DELE", "v0"), c("DELE", "v2")], end="eof"))
    out.append(dict(base, msgs=three, steps=[c("DELE", "v0"), c("DELE", "v2")], end="kill"))
    out.append(dict(base, msgs=three, steps=[c("DELE", "v0"), c("DELE", "v2")], end="partial"))
    out.append(dict(base, msgs=three, steps=[c("DELE", "v0"), {"op": "rm", "i": 1}, c("RETR", "v1"), c("LIST"), c("RETR", "v2")], end="quit"))
    out.append(dict(base, msgs=three, steps=[c("DELE", "v0"), c("DELE", "1")], end="quit", uid0=True))
    out.append(dict(base, msgs=three, steps=[c("DELE", "v0"), c("DELE", "1")], end="quit", uid0="eff"))
    out.append(dict(base, msgs=[], steps=[c("STAT"), c("LIST"), c("DELE", "1"), c("RETR", "1"), c("LIST", "1")], end="quit"))
    j = vlib.jsonable
    pb = {"kind": "popup", "host": "pop.example.org", "msgs": three, "tmp": [], "qcase": "upper", "qeol": "\r\n", "end": "quit",
          "post": [c("DELE", "v0"), c("LIST")]}
    pre = [{"verb": "OTHER", "text": "DELE 1", "eol": "\r\n"}, {"verb": "OTHER", "text": "STAT", "eol": "\r\n"},
           {"verb": "PASS", "arg": j(b"early"), "case": "upper", "eol": "\r\n"}, {"verb": "NOOP", "case": "lower", "eol": "\n"}]
    for ck in ("exit0", "exit1", "kill11", "exec"):
        out.append(dict(pb, checker=ck, steps=pre + [{"verb": "USER", "arg": j(b"joe user"), "case": "upper", "eol": "\r\n"},
                                                      {"verb": "PASS", "arg": j(b"pass word \xff"), "case": "mixed", "eol": "\r\n"}]))
        out.append(dict(pb, checker=ck, steps=pre + [{"verb": "APOP", "arg": j(b"joe"), "arg2": j(b"c4c9334bac560ecc979e58001b3e22fb x"), "sp": True,
                                                      "case": "upper", "eol": "\n"}]))
    out.append(dict(pb, checker="exec", steps=pre + [{"verb": "APOP", "arg": j(b"joe"), "sp": False, "case": "upper", "eol": "\r\n"},
                                                     {"verb": "QUIT", "case": "upper", "eol": "\r\n"}]))
    return out


REQUIRED_CLASSES = ["pop3d", "popup", "uid0", "end_quit", "end_eof", "end_kill", "end_partial", "dele_then_rset_or_quit", "dotline_retrieved",
                    "msg_mtime_eq_start", "msg_empty", "msg_no_final_newline", "msg_gt_1024", "msg_crlf", "msg_8bit", "mtime_ties",
                    "vanish_visible", "arg_2^64+1", "arg_count+1", "arg_0", "arg_abc", "checker_ran", "checker_exec", "popup_chain_dele",
                    "cmd_RSET", "cmd_TOP", "cmd_UIDL", "cmd_LAST", "cmd_UNKNOWN", "tmp_stale", "tmp_fresh"]


def debug_log(msg, sc):
    """VERIF_DEBUG_LOG=<file>: log every violation message / harness exception seen inside the Hypothesis search."""
    p = os.environ.get("VERIF_DEBUG_LOG")
    if p and msg:
        with open(p, "a") as f:
            f.write(json.dumps({"msg": msg, "scenario": vlib.jsonable(sc)}) + "\n")


def worker(job):
    tree, wid, seed, nex, fixed = job
    stats = vlib.Stats()
    r = Runner(tree, wid)
    for sc in fixed:
        v = r.run(sc, stats)
        if v:
            # DESIGN.md section 1: a violation counts only if it reproduces (a concurrent rebuild of the shim, an
            # overloaded machine ... must never surface as a violation)
            if all([r.run(sc, vlib.Stats()) for _ in range(2)]):
                stats.violations.append((v, sc))
                return stats
            stats.inconclusive += 1
            stats.cls("flaky_unreproducible")
    def runfn(sc, stats):
        try:
            v = r.run(sc, stats)
        except Exception:
            import traceback
            debug_log("EXC " + traceback.format_exc(), sc)
            raise
        debug_log(v, sc)
        return v
    if nex:
        vlib.hyp_search(scenario, runfn, nex, seed, stats)
    return stats


def regress_inputs():
    out = []
    d = os.path.join(vlib.VERIF, "corpus", "C19", "regress")
    if os.path.isdir(d):
        for f in sorted(os.listdir(d)):
            if f.endswith(".json"):
                sc = json.load(open(os.path.join(d, f)))
                out.append(sc.get("scenario", sc))
    return out


# ------------------------------------------------------------------ single system-call failures (safety clauses only)

FAULT_SESSIONS = [
    ["STAT", "DELE 2", "RETR 1", "TOP 3 1", "LIST", "UIDL", "QUIT"],
    ["DELE 1", "DELE 3", "DELE 4", "QUIT"],
    ["RETR 2", "DELE 2", "RSET", "DELE 4", "RETR 3", "QUIT"],
    ["DELE 2", "RETR 4"],                      # connection lost without QUIT: nothing may be removed
]


def fault_population():
    msgs = []
    for i, (d, c) in enumerate((("new", b"Subject: one\n\nbody 1\n.dot line\n"), ("cur", b"Subject: two\n\n" + b"x" * 3000 + b"\n"),
                                ("new", b"Subject: three\n\nl1\nl2\nl3\n"), ("cur", b"no header separator\n"))):
        msgs.append({"dir": d, "name": "17000000%02d.%d.host" % (i, i), "info": ":2,S" if d == "cur" else "", "age": 4000 - 100 * i, "content": vlib.jsonable(c)})
    return {"msgs": msgs, "tmp": []}


def run_fault_session(r, cmds, fault, stats, gold_out=None):
    """One pop3d session with at most one failing system call. Judged by the clauses that hold whatever fails: only messages marked
    with DELE in a session that reached QUIT may disappear; nothing else in the maildir changes except new/x -> cur/x:2,; a RETR answered
    +OK and terminated is the exact wire form of that message. Returns (violation | None, trace events)."""
    sc = fault_population()
    build_maildir(r.md, sc)
    before = snapshot(r.md)
    extra = {"VSHIM_TRACE": os.path.join(r.h.dir, "trace-f")}
    if os.path.exists(extra["VSHIM_TRACE"]):
        os.unlink(extra["VSHIM_TRACE"])
    if fault:
        extra["VSHIM_FAULT"] = "qmail-pop3d:%s:%d:%s" % (fault["cls"], fault["k"], fault["err"])
    env = r.env(4242, **extra)
    data = b"".join(c.encode() + b"\r\n" for c in cmds)
    rc, out, err = sandbox.run_proc([r.pop3d, r.md], env, stdin=data, timeout=20, cwd=r.h.dir)
    ev = sandbox.parse_trace(extra["VSHIM_TRACE"]) if os.path.exists(extra["VSHIM_TRACE"]) else []
    if rc is None or not ev:
        stats.inconclusive += 1
        return None, ev, out
    after = snapshot(r.md)
    vis, _ = visible_sorted(sc)
    # a failing stat()/opendir()/readdir() makes the server overlook a message, so its numbering differs from the reference numbering:
    # then only counts can be judged (no more messages gone than DELEs sent), not identities
    renumber = bool(fault) and fault["cls"] in ("stat", "fstat", "opendir", "readdir")
    marked = set()
    quit_ok = False
    # replies in order (multi-line ones are framed by CRLF.CRLF after +OK)
    pos = out.find(b"\n") + 1 if out.startswith(b"+OK") else 0
    dead = not out.startswith(b"+OK")
    pending = set()
    for c in cmds:
        if dead or pos >= len(out):
            break
        verb, _, arg = c.partition(" ")
        nl = out.find(b"\n", pos)
        if nl < 0:
            break
        status = out[pos:nl + 1]
        multi = verb in ("RETR", "TOP") or (verb in ("LIST", "UIDL") and not arg)
        if status.startswith(b"+OK") and multi:
            end = out.find(b"\r\n.\r\n", nl - 1)
            if end < 0:
                break                   # reply cut short: the server died inside it
            body = out[nl + 1:end + 5]
            pos = end + 5
            if verb == "RETR":
                want = wire(vlib.unjson(sc["msgs"][vis[int(arg) - 1]]["content"]))
                if renumber and body in [wire(vlib.unjson(m["content"])) for m in sc["msgs"]]:
                    pass                # a message whose stat()/directory read failed is not listed: the numbers shift, the texts stay exact
                elif body != want:
                    return "RETR %s answered +OK and terminated, but the text is not the stored message (%d bytes, expected %d)" % (arg, len(body), len(want)), ev, out
        else:
            pos = nl + 1
        if verb == "DELE" and status.startswith(b"+OK"):
            pending.add(vis[int(arg) - 1])
        if verb == "RSET" and status.startswith(b"+OK"):
            pending.clear()
        if verb == "QUIT" and status.startswith(b"+OK"):
            quit_ok = True
            marked = set(pending)
    stats.case(scenario={"cmds": cmds, "fault": fault}, nontrivial=bool(fault) and any(e["a"] and e["a"][-1] == "FAULT" for e in ev),
               classes=["fault_session"] + (["fault_session_%s" % fault["cls"]] if fault else ["fault_session_golden"]))
    if gold_out is not None:
        # the failing call was the SECOND stat() of a message at start-up (the one that only fetches the size): the message stays listed
        # (with whatever size), nothing is renumbered, and every later command is answered as in the fault-free session
        norm = lambda b: re.sub(rb"(?m)^(\+OK )?(\d+) \d+\r$", rb"\1\2 <size>\r", b)
        if norm(out) != norm(gold_out):
            i = next((j for j in range(min(len(out), len(gold_out))) if out[j] != gold_out[j]), min(len(out), len(gold_out)))
            return "a failing size lookup of one message at start-up changed the session beyond that message's size: replies differ from the fault-free session at byte %d: %r vs %r" % (i, out[max(0, i - 30):i + 50], gold_out[max(0, i - 30):i + 50]), ev, out
    sent_marks = set()
    for c in cmds:
        verb, _, arg = c.partition(" ")
        if verb == "DELE":
            sent_marks.add(vis[int(arg) - 1])
        elif verb == "RSET":
            sent_marks.clear()
    # file system: every message for which no DELE + QUIT was sent is still there (under new/ or cur/), byte for byte
    names_after = {}
    for k, v in after.items():
        d, _, f = k.partition("/")
        if d in ("new", "cur"):
            names_after[f.split(":")[0]] = (k, v)
    for i, m in enumerate(sc["msgs"]):
        base = m["name"]
        if base not in names_after and renumber:
            gone = [x for x in sc["msgs"] if x["name"] not in names_after]
            if "QUIT" in cmds and len(gone) <= len(sent_marks):
                continue
            return "%d messages are gone although only %d DELE%s sent" % (len(gone), len(sent_marks) if "QUIT" in cmds else 0, " + QUIT were" if "QUIT" in cmds else "s were sent and QUIT was not"), ev, out
        if base not in names_after:
            # the failing call may be the very write that carries a reply, so what the client SENT decides: a message may disappear only
            # if DELE for it was sent (and no RSET after it) and QUIT was sent
            if i in sent_marks and "QUIT" in cmds:
                continue
            why = "no DELE was sent for it" if i not in sent_marks else "QUIT was never sent"
            return "message %d (%s) is gone although %s" % (i + 1, msg_rel(m), why), ev, out
        k, v = names_after[base]
        if v != vlib.unjson(m["content"]):
            return "message %s changed its contents" % k, ev
        if k != msg_rel(m) and not (m["dir"] == "new" and k == "cur/%s:2," % base):
            return "message %s was renamed to %s (only new/x -> cur/x:2, is documented)" % (msg_rel(m), k), ev, out
    extra_files = [k for k in after if k.partition("/")[2].split(":")[0] not in {m["name"] for m in sc["msgs"]}]
    if extra_files:
        return "files appeared in the maildir: %r" % extra_files[:4], ev, out
    return None, ev, out


def fault_worker(job):
    tree, wid, plans = job
    stats = vlib.Stats()
    r = Runner(tree, "f%s" % wid)
    for cmds, fault, gold in plans:
        v = run_fault_session(r, cmds, fault, stats, gold)[0]
        if v:
            v2 = [run_fault_session(r, cmds, fault, vlib.Stats(), gold)[0] for _ in range(2)]
            if all(v2):
                stats.violations.append(("single failing system call (%s): %s" % (json.dumps(fault), v),
                                         {"part": "fault", "cmds": cmds, "fault": fault, "gold": vlib.jsonable(gold) if gold is not None else None}))
                break
            stats.inconclusive += 1
    return stats


def fault_part(ctx, tree):
    """golden run of each fixed session -> every call site of qmail-pop3d that can fail (open/read/stat/rename/unlink/opendir/readdir/write
    to the client) x errno, one per run"""
    r = Runner(tree, "fgold")
    plans = []
    for cmds in FAULT_SESSIONS:
        v, ev, gold_out = run_fault_session(r, cmds, None, ctx.stats)
        if v:
            ctx.stats.violations.append(("fault-free reference session: " + v, {"part": "fault", "cmds": cmds, "fault": None}))
            return
        seen = set()
        statted = set()
        for cls, k, e in sandbox.fault_sites(ev):
            second_stat = False
            if cls == "stat" and e["a"]:
                second_stat = e["a"][0] in statted and e["a"][0].startswith(("new/", "cur/"))
                statted.add(e["a"][0])
            if cls in ("close", "lseek", "chdir", "pipe", "fork", "flock", "pwrite", "fsync", "ftruncate", "link", "mkdir", "utimes") or (cls, k) in seen:
                continue
            seen.add((cls, k))
            for er in {"open": ["13", "23"], "read": ["5"], "write": ["5", "32"], "stat": ["5"], "fstat": ["5"], "rename": ["5", "13"], "unlink": ["5", "13"],
                       "opendir": ["23"], "readdir": ["5"]}.get(cls, ["5"]):
                plans.append((cmds, {"cls": cls, "k": k, "err": er}, gold_out if second_stat else None))
    nw = vlib.NCPU
    ctx.stats.merge(vlib.run_workers(fault_worker, [(tree, i, plans[i::nw]) for i in range(nw) if plans[i::nw]]))
    ctx.notes["fault_sessions"] = {"sessions": len(FAULT_SESSIONS), "single_fault_runs": len(plans)}


def run(ctx):
    sandbox.ensure_shim()
    private_tools()
    tree = vlib.Tree().make("qmail-pop3d", "qmail-popup")
    if ctx.only is None or "fault" in ctx.only:
        fault_part(ctx, tree)
        if ctx.stats.violations or (ctx.only and ctx.only == {"fault"}):
            return
    fixed = regress_inputs() + fixed_inputs()
    nw = vlib.NCPU
    per = int(os.environ.get("C19_N", ctx.n(2500, 40000)))
    jobs = [(tree, i, vlib.subseed(ctx.seed, "c19", i), per, fixed[i::nw]) for i in range(nw)]
    ctx.stats.merge(vlib.run_workers(worker, jobs))
    if not ctx.stats.violations:
        starved = [c for c in REQUIRED_CLASSES if not ctx.stats.classes.get(c)]
        if starved:
            raise vlib.HarnessError("GENERATOR-STARVED classes with no case: %s" % starved)


def replay(ctx, path):
    sandbox.ensure_shim()
    private_tools()
    tree = vlib.Tree().make("qmail-pop3d", "qmail-popup")
    sc = json.load(open(path))
    sc = sc.get("scenario", sc)
    r = Runner(tree, "replay")
    if isinstance(sc, dict) and sc.get("part") == "fault":
        gold = vlib.unjson(sc["gold"]) if sc.get("gold") is not None else None
        out = [run_fault_session(r, sc["cmds"], sc["fault"], ctx.stats, gold)[0] for _ in range(3)]
        return [out[0]] if all(out) else []
    v = r.run(sc, ctx.stats)
    return [v] if v else []
