"""C20 - No input can corrupt memory in any program of the suite.

One libFuzzer target per untrusted-input surface (inproc/c20_<name>.c, helpers inproc/c20.h, c20_qq.h).  Every target is a
single translation unit that #includes the program's .c file (main renamed; _exit captured through `-Wl,--wrap=_exit` +
longjmp, so the exits taken inside library objects such as strerr_die are caught as well), replaces the substdio
read/write ops or timeoutread/timeoutwrite/read/write/select/pipe/fork by memory readers, checking sinks and scripts,
and resets every global it touches at the top of each iteration (strallocs freed and zeroed, substdio cursors rewound).
The library objects come from a second scratch tree built with clang
`-fsanitize=fuzzer-no-link,address,undefined -fno-sanitize-recover=undefined` (ASan + UBSan + coverage counters in the
libraries too); the targets themselves are built with `-fsanitize=fuzzer,address,undefined`.

Targets (DESIGN.md section 5/C20): smtpd, qmtpd, qmqpd, token822, inject, dns, remote, spawn (spawn.c main loop + both
report()s), control (control_* + constmap), cdb, local (-n main + bouncexf + gfrom), received, pop3d, popup, stralloc
(stralloc/substdio/getln op sequences against a shadow model incl. the CVE-2005-1513 overflow guards), send (todo_do,
del_dochan, rewrite/senderadd/addbounce/getinfo).  quote.c has no target of its own: it is driven through
remote/inject/local/token822.

Oracle (memory safety + documented termination ONLY; semantics belong to the other properties): no sanitizer report,
no signal, termination by return or by a captured _exit whose status is in the program's documented set
(`C20-ORACLE:` line + trap otherwise); library entry points must return one of their documented codes; qmtpd/qmqpd must
not get as far as qmail_open() for a declared netstring length >= 2^32 ("overflow a length computation").
A crash-* artefact is re-run 3x in a fresh process; 3/3 => violation (the artefact, ddmin-minimised, is the replay
file `replays/C20/<target>-<sha>.bin`), otherwise inconclusive.  timeout-/oom-/slow-unit- artefacts are inconclusive.
LeakSanitizer is off: the programs are exit-to-free by design and leaks are not part of the property statement.

Left out of the design's C20 section: pass_dochan() of qmail-send (needs a consistent job/prioq/clock state); the 10 %
re-run of the C07/C08/C19/C13/C17 session generators against sanitised whole-program builds (those properties own their
generators); the rapidcheck state machine is replaced by the libFuzzer op-sequence target `stralloc`; inputs are limited
by -max_len (4 kB; token822 repeats its input up to 64 kB), so "64 kB SMTP lines / 1000 RCPTs" are not reached.
Excluded by construction (counted in classes.excluded_*): an unterminated final report in a qmail-remote child's output
(outside the protocol of qmail-remote.8; qmail-rspawn's report() would run substdio_puts past it).
"""
import os, re, json, time, shutil, hashlib, subprocess
import concurrent.futures as cf
from lib import vlib, inproc

LEVEL = "exploration"
RULE = ("per target: libFuzzer (-seed=VERIF_SEED, fresh corpus seeded from corpus/C20/<target>/) mutates raw bytes that a small decode "
        "layer turns into the surface's input (flags byte + protocol stream / wire-format DNS answers / files ...). evaluations = sum of "
        "libFuzzer executions; distinct_nontrivial = sum over targets of the final libFuzzer corpus size, i.e. the number of inputs that "
        "reached a NEW coverage feature inside the parser (measured proxy for 'reached the parser's main loop with distinct behaviour').")
ASSUMPTIONS = [
    "in-process targets stub the queue (qmail_open/put/close), fork/exec, the network and the resolver; the stubs obey the documented API "
    "contracts (res_query never returns more than anslen and at most 65535 bytes, read() never returns more than asked)",
    "LeakSanitizer disabled (exit-to-free programs; leaks are outside the property statement)",
    "libFuzzer pinning by -seed is approximate under time budgets: the saved artefact is the reproducible unit",
]

SANFLAGS = "-fsanitize=%s,address,undefined -fno-sanitize-recover=undefined"
SAN_CC = "clang -O1 -g " + (SANFLAGS % "fuzzer-no-link") + " -fno-omit-frame-pointer"

BASE = "stralloc.a substdio.a error.a str.a fs.a"


class T:
    def __init__(self, name, objs, max_len=4096, extra="", syslibs="", deps=""):
        self.name, self.objs, self.max_len, self.extra, self.syslibs = name, objs.split(), max_len, extra, syslibs
        self.deps = deps.split()    # made for their side effects only (generated headers such as select.h), never linked
        self.src = os.path.join(vlib.VERIF, "inproc", "c20_%s.c" % name)


# name, objects/archives of the sanitised tree the target links (stubbed ones left out), libFuzzer -max_len
TARGETS = [
    T("smtpd", "rcpthosts.o ip.o ipme.o ipalloc.o control.o constmap.o received.o date822fmt.o cdb.a fd.a wait.a datetime.a getln.a "
               "open.a sig.a case.a env.a " + BASE, deps="qmail-smtpd.o commands.o"),
    T("qmtpd", "rcpthosts.o control.o constmap.o received.o date822fmt.o cdb.a fd.a wait.a datetime.a open.a getln.a sig.a case.a env.a " + BASE,
      deps="qmail-qmtpd.o"),
    T("qmqpd", "received.o date822fmt.o env.a sig.a wait.a fd.a datetime.a " + BASE, deps="qmail-qmqpd.o"),
    T("token822", "token822.o quote.o " + BASE),
    T("inject", "headerbody.o hfield.o newfield.o quote.o control.o date822fmt.o constmap.o token822.o case.a fd.a wait.a open.a getln.a sig.a "
                "getopt.a datetime.a env.a " + BASE, deps="qmail-inject.o"),
    T("dns", "ip.o ipalloc.o case.a " + BASE, syslibs="-lresolv", deps="dns.o"),
    T("remote", "control.o constmap.o dns.o ip.o ipalloc.o ipme.o quote.o ndelay.a case.a sig.a open.a lock.a getln.a " + BASE, syslibs="-lresolv",
      deps="qmail-remote.o"),
    T("spawn", "prot.o slurpclose.o coe.o tcpto_clean.o sig.a wait.a case.a cdb.a fd.a open.a lock.a env.a auto_spawn.o ids.a " + BASE, max_len=2048,
      deps="spawn.o qmail-lspawn.o qmail-rspawn.o"),
    T("control", "control.o constmap.o getln.a case.a " + BASE),
    T("tcpto", "tcpto.o tcpto_clean.o ip.o open.a lock.a " + BASE, max_len=1200),
    T("cdb", "cdb.a " + BASE),
    T("local", "quote.o gfrom.o myctime.o slurpclose.o case.a getln.a getopt.a sig.a open.a lock.a fd.a wait.a env.a strerr.a datetime.a "
               "auto_patrn.o " + BASE, deps="qmail-local.o"),
    T("received", "received.o date822fmt.o datetime.a " + BASE),
    T("pop3d", "case.a maildir.o prioq.o env.a strerr.a sig.a open.a getln.a datetime.a " + BASE, deps="qmail-pop3d.o commands.o"),
    T("popup", "case.a fd.a sig.a wait.a " + BASE, deps="qmail-popup.o commands.o"),
    T("stralloc", "getln.a " + BASE, max_len=1024),
    T("send", "control.o constmap.o newfield.o prioq.o trigger.o fmtqfn.o quote.o readsubdir.o date822fmt.o datetime.a case.a ndelay.a getln.a "
              "wait.a fd.a sig.a open.a lock.a auto_split.o env.a " + BASE, deps="qmail-send.o qsutil.o"),
]

# candidate findings that a target keeps away from the code by construction (see sensitivity/C20.md); each is re-confirmed
# on every run from its corpus file with the exclusion switched off.   target -> [(sig, corpus file)]
KNOWN = {}

ENV = dict(os.environ, ASAN_OPTIONS="detect_leaks=0:abort_on_error=0:allocator_may_return_null=1:handle_abort=1:quarantine_size_mb=32",
           UBSAN_OPTIONS="print_stacktrace=1")
REPORT_RE = re.compile(r"(ERROR: AddressSanitizer|runtime error:|C20-ORACLE:|ERROR: libFuzzer: deadly signal|UndefinedBehaviorSanitizer)")


class Acc:
    """What a worker thread collects (same attribute names as Ctx where the helpers use them)."""
    def __init__(self):
        self.stats, self.notes, self.reconfirmed = vlib.Stats(), {}, []


def build_tree(targets):
    tree = vlib.Tree(sanitize=True, tag="-c20")
    for c in ("conf-cc", "conf-ld"):
        p = tree.path(c)
        lines = open(p).read().split("\n")
        lines[0] = SAN_CC
        open(p, "w").write("\n".join(lines))
    objs = sorted({o for t in targets for o in t.objs + t.deps})
    # -k: one file broken by a mutant must not take the unrelated targets down
    p = vlib.sh(["make", "-k", "-j%d" % vlib.NCPU] + objs, cwd=tree.dir)
    tree.make_log = p.stdout.decode(errors="replace")[-3000:]
    return tree


def build_target(tree, t):
    out = tree.path("c20-" + t.name)
    missing = [o for o in t.objs if not os.path.exists(tree.path(o))]
    if missing:
        return None, "library objects failed to build: %s" % " ".join(missing)
    objs = [o for o in t.objs if o.endswith(".o")]
    ars = [o for o in t.objs if o.endswith(".a")]
    cmd = ("clang -g -O1 -fno-omit-frame-pointer %s -Wno-everything -I%s -I%s/inproc %s %s -Wl,--wrap=_exit -o %s %s "
           "-Wl,--start-group %s -Wl,--end-group %s" % (SANFLAGS % "fuzzer", tree.dir, vlib.VERIF, t.extra, t.src, out,
                                                        " ".join(objs), " ".join(ars), t.syslibs))
    p = vlib.sh(cmd, cwd=tree.dir)
    if p.returncode != 0:
        return None, p.stdout.decode(errors="replace")[-1500:]
    return out, ""


def build_all(ctx, targets):
    tree = build_tree(targets)
    bins, errs = {}, {}
    with cf.ThreadPoolExecutor(max_workers=vlib.NCPU) as ex:
        for t, (b, e) in zip(targets, ex.map(lambda t: build_target(tree, t), targets)):
            if b:
                bins[t.name] = b
            else:
                errs[t.name] = e
                ctx.stats.cls("target_build_failed:" + t.name)
    if errs:
        ctx.notes["build_errors"] = {k: v[-600:] for k, v in errs.items()}
    if not bins:
        raise vlib.HarnessError("no C20 target builds on this tree:\n%s\n%s" % (tree.make_log[-1200:], "\n".join("%s: %s" % kv for kv in errs.items())[-1500:]))
    return tree, bins


def scratch_env(extra=None):
    d = os.path.join(vlib.scratch_root(), "c20")
    os.makedirs(d, exist_ok=True)
    e = dict(ENV, C20_SCRATCH=d)
    if extra:
        e.update(extra)
    return e


def run_files(binp, files, env=None, timeout=120):
    """Run the fuzz binary on explicit files (no fuzzing). Returns (rc or None on watchdog, output)."""
    try:
        p = subprocess.run([binp] + list(files) + ["-timeout=30", "-rss_limit_mb=4096"], stdin=subprocess.DEVNULL, stdout=subprocess.PIPE,
                           stderr=subprocess.STDOUT, env=env or scratch_env(), timeout=timeout, cwd=vlib.scratch_root())
        return p.returncode, p.stdout.decode(errors="replace")
    except subprocess.TimeoutExpired as e:
        return None, (e.stdout or b"").decode(errors="replace")


def summary_of(out):
    """First line of the sanitizer summary (stable across runs: no addresses)."""
    for pat in (r"C20-ORACLE: .*", r"\S*runtime error: .*", r"SUMMARY: \w+Sanitizer: .*", r"ERROR: AddressSanitizer: .*", r"ERROR: libFuzzer: .*"):
        m = re.search(pat, out)
        if m:
            s = m.group(0).strip()
            s = re.sub(r"0x[0-9a-f]+", "0x..", s)
            s = re.sub(r" \(BuildId: [0-9a-f]+\)", "", s)
            s = re.sub(r"/dev/shm/\S*/src-san-c20/", "", s)
            s = re.sub(r"\S*/inproc/", "inproc/", s)
            return s[:300]
    return None


def crashed(rc, out):
    return rc not in (0, None) and REPORT_RE.search(out) is not None


def reproduces(binp, path, env=None, n=3):
    """n/n fresh-process reproduction. Returns (True, summary) | (False, why)."""
    summ = None
    for i in range(n):
        rc, out = run_files(binp, [path], env=env)
        if rc is None:
            return False, "watchdog"
        if not crashed(rc, out):
            return False, "run %d of %d did not fail (rc=%s)" % (i + 1, n, rc)
        summ = summ or summary_of(out) or ("rc=%s %s" % (rc, out[-300:]))
    return True, summ


def kind_of(summ):
    m = re.search(r"(heap-buffer-overflow|stack-buffer-overflow|global-buffer-overflow|heap-use-after-free|SEGV|runtime error: [a-z -]+|"
                  r"C20-ORACLE|negative-size-param|stack-overflow|double-free|attempting free|deadly signal|[a-z-]+-overflow)", summ or "")
    return m.group(1) if m else (summ or "")[:40]


def minimise(binp, data, summ, budget=15.0):
    kind = kind_of(summ)
    deadline = time.time() + budget
    d = os.path.join(vlib.scratch_root(), "c20", "min")
    os.makedirs(d, exist_ok=True)

    def fails(b):
        if time.time() > deadline:
            return False
        f = os.path.join(d, "cand")
        open(f, "wb").write(b)
        rc, out = run_files(binp, [f])
        return crashed(rc, out) and kind_of(summary_of(out)) == kind
    if len(data) <= 1:
        return data
    small = inproc.ddmin(data, fails)
    return small


def save_violation(ctx, name, binp, data, summ, origin):
    """3/3-reproduced crash -> minimise, re-confirm, store as replay file, append the violation."""
    small = minimise(binp, data, summ)
    d = os.path.join(vlib.OUT, "replays", "C20")
    os.makedirs(d, exist_ok=True)
    f = os.path.join(d, "%s-%s.bin" % (name, hashlib.sha1(small).hexdigest()[:16]))
    open(f, "wb").write(small)
    ok, s2 = reproduces(binp, f)
    if not ok:     # minimisation went wrong (flaky while shrinking): keep the original artefact
        f = os.path.join(d, "%s-%s.bin" % (name, hashlib.sha1(data).hexdigest()[:16]))
        open(f, "wb").write(data)
        small, s2 = data, summ
    ctx.stats.violations.append(("%s: %s | %s input(%d bytes)=%r" % (name, s2, origin, len(small), small[:160]), f))


def regress(ctx, t, binp):
    d = os.path.join(vlib.VERIF, "corpus", "C20", t.name)
    files = [os.path.join(d, f) for f in sorted(os.listdir(d))] if os.path.isdir(d) else []
    files = [f for f in files if os.path.isfile(f)]
    ctx.stats.cls("regress_files", len(files))
    if not files:
        return
    rc, out = run_files(binp, files)
    if rc == 97:
        ctx.stats.cls("target_run_failed:" + t.name)
        ctx.notes.setdefault("run_errors", {})[t.name] = out[-600:]
        return
    if rc == 0 or rc is None:
        if rc is None:
            ctx.stats.inconclusive += 1
        return
    for f in files:        # find the culprit(s)
        rc, out = run_files(binp, [f])
        if crashed(rc, out):
            ok, summ = reproduces(binp, f)
            if ok:
                save_violation(ctx, t.name, binp, open(f, "rb").read(), summ, "regress:" + os.path.basename(f))
            else:
                ctx.stats.inconclusive += 1


def reconfirm_known(ctx, t, binp):
    for sig, fn in KNOWN.get(t.name, []):
        f = os.path.join(vlib.VERIF, "corpus", "C20", t.name, fn)
        if not os.path.exists(f):
            continue
        ok, summ = reproduces(binp, f, env=scratch_env({"C20_NO_EXCLUDE": "1"}))
        if ok:
            ctx.stats.cls("known_candidate_reconfirmed:" + sig)
            ctx.notes.setdefault("known_candidates", {})[sig + ":" + fn] = {"target": t.name, "file": "corpus/C20/%s/%s" % (t.name, fn), "summary": summ}
            ctx.reconfirmed.append((sig, "C20 note: candidate finding %s (target %s, %s) still reproduces with the exclusion off: %s" % (sig, t.name, fn, summ)))
        else:
            ctx.stats.cls("known_candidate_not_reproduced:" + sig)
            ctx.notes.setdefault("known_candidates", {})[sig + ":" + fn] = {"target": t.name, "not_reproduced": summ,
                                                                  "hint": "defect seems fixed: the exclusion in inproc/c20_%s.c can be removed" % t.name}


PROG_RE = re.compile(r"#(\d+)\s+\w+\s+cov: (\d+) ft: (\d+) corp: (\d+)/")
FORK_RE = re.compile(r"#(\d+): cov: (\d+) ft: (\d+) corp: (\d+) ")


def campaign(ctx_seed, t, binp, secs, fork):
    """One target's campaign. Returns dict(stats) incl. artefact list. Restarts after a timeout/oom artefact while budget remains."""
    root = os.path.join(vlib.scratch_root(), "c20")
    cdir, adir = os.path.join(root, "corpus-" + t.name), os.path.join(root, "art-" + t.name)
    for d in (cdir, adir):
        os.makedirs(d, exist_ok=True)
    sd = os.path.join(vlib.VERIF, "corpus", "C20", t.name)
    if os.path.isdir(sd):
        for f in sorted(os.listdir(sd)):
            if os.path.isfile(os.path.join(sd, f)):
                shutil.copy(os.path.join(sd, f), os.path.join(cdir, "seed-" + f))
    res = {"execs": 0, "cov": 0, "ft": 0, "corpus": 0, "secs": 0.0, "runs": 0, "rc": []}
    t0 = time.time()
    deadline = t0 + secs
    rnd = 0
    log = os.path.join(root, "log-" + t.name)
    while True:
        left = int(deadline - time.time())
        if left < 3 and rnd > 0:
            break
        left = max(left, 3)
        cmd = [binp, cdir, "-max_len=%d" % t.max_len, "-seed=%d" % ((ctx_seed or 1) + 1000 * rnd), "-max_total_time=%d" % left, "-timeout=10",
               "-rss_limit_mb=2048", "-artifact_prefix=%s/" % adir, "-print_final_stats=1", "-reload=0", "-verbosity=1"]
        if fork:
            cmd += ["-fork=%d" % fork, "-ignore_timeouts=1", "-ignore_ooms=1", "-ignore_crashes=0"]
        with open(log, "ab") as lf:
            try:
                p = subprocess.run(cmd, stdin=subprocess.DEVNULL, stdout=lf, stderr=subprocess.STDOUT, env=scratch_env(), cwd=root, timeout=left + 120)
                rc = p.returncode
            except subprocess.TimeoutExpired:
                rc = None
        res["rc"].append(rc)
        res["runs"] += 1
        rnd += 1
        arts = os.listdir(adir)
        if rc == 0 or rc == 97 or rc is None:
            break
        if any(a.startswith(("crash-", "leak-")) for a in arts):
            break
        if not any(a.startswith(("timeout-", "oom-", "slow-unit-")) for a in arts) or rnd > 6:
            break
    res["secs"] = round(time.time() - t0, 1)
    out = open(log, "rb").read().decode(errors="replace")
    # executions: sum over restarts (each restart prints its own counter)
    execs = 0
    for seg in out.split("INFO: Running with entropic")[1:] or [out]:
        last = None
        for m in PROG_RE.finditer(seg):
            last = m
        for m in FORK_RE.finditer(seg):
            last = m
        if last:
            execs += int(last.group(1))
            res["cov"], res["ft"], res["corpus"] = max(res["cov"], int(last.group(2))), max(res["ft"], int(last.group(3))), max(res["corpus"], int(last.group(4)))
    res["execs"] = execs
    res["execs_per_s"] = int(execs / max(res["secs"], 0.1))
    res["artefacts"] = sorted(os.listdir(adir))
    res["adir"] = adir
    res["log_tail"] = out[-1500:]
    res["init_report"] = bool(REPORT_RE.search(out)) and not res["artefacts"]
    return res


def select_targets(ctx):
    ts = TARGETS
    only = getattr(ctx, "only", None)
    if only:
        ts = [t for t in TARGETS if t.name in only]
        if not ts:
            raise vlib.HarnessError("--only names no C20 target (have: %s)" % " ".join(t.name for t in TARGETS))
    return ts


def run(ctx):
    if ctx.only == {"daemon"}:
        from props import c20_daemon
        c20_daemon.run_daemon_part(ctx)
        return
    if ctx.only == {"bsessions"}:
        from props import c20_sessions
        c20_sessions.run_sessions_part(ctx)
        return
    if ctx.only is None:
        # sanitised qmail-send/qmail-clean/qmail-queue in driven daemon histories under every single I/O failure (props/c20_daemon.py)
        from props import c20_daemon, c20_sessions
        c20_daemon.run_daemon_part(ctx)
        if ctx.stats.violations:
            return
        # sanitised network daemons in boundary sessions (props/c20_sessions.py)
        c20_sessions.run_sessions_part(ctx)
        if ctx.stats.violations:
            return
    if ctx.only is None or ctx.only != {"sessions"}:
        if ctx.only is not None:
            ctx.only = ctx.only - {"sessions"}
        _run_targets(ctx)
        sessions_wanted = ctx.only is None
    else:
        sessions_wanted = True
        ctx.stats.evaluations += 1
    if sessions_wanted and ctx.tier == "thorough" and not ctx.stats.violations:
        whole_program_sessions(ctx)


def _run_targets(ctx):
    targets = select_targets(ctx)
    tree, bins = build_all(ctx, targets)
    ctx.notes["build_s"] = round(time.time() - ctx.t0, 1)
    live = [t for t in targets if t.name in bins]
    # 1. regression corpus + re-confirmation of the excluded candidate findings
    def reg(t):
        acc = Acc()                     # private accumulator per worker thread, merged below
        regress(acc, t, bins[t.name])
        reconfirm_known(acc, t, bins[t.name])
        return acc
    with cf.ThreadPoolExecutor(max_workers=vlib.NCPU) as ex:
        for acc in ex.map(reg, live):
            ctx.stats.merge(acc.stats)
            for k, v in acc.notes.items():
                ctx.notes.setdefault(k, {}).update(v)
            for sig, line in acc.reconfirmed:
                if not ctx.known_finding(sig):
                    ctx.stats.known_hits[sig] = ctx.stats.known_hits.get(sig, 0) + 1
                    print(line, flush=True)
    ctx.notes["regress_s"] = round(time.time() - ctx.t0, 1)
    # 2. campaigns
    rounds = -(-len(live) // max(1, vlib.NCPU))
    if ctx.quick:
        secs, fork = (40 if rounds == 1 else max(15, 100 // rounds)), 0
    else:
        per = max(1, vlib.NCPU // max(1, len(live)))
        secs, fork = (900 if rounds == 1 else max(300, 1500 // rounds)), (2 if per >= 2 else 0)
    if os.environ.get("C20_SECS"):
        secs = int(os.environ["C20_SECS"])
    ctx.notes["secs_per_target"] = secs
    with cf.ThreadPoolExecutor(max_workers=vlib.NCPU) as ex:
        results = list(ex.map(lambda t: campaign(ctx.seed, t, bins[t.name], secs, fork), live))
    notes = ctx.notes.setdefault("targets", {})
    started = 0
    for t, r in zip(live, results):
        binp = bins[t.name]
        notes[t.name] = {k: r[k] for k in ("execs", "execs_per_s", "cov", "ft", "corpus", "secs", "runs", "artefacts")}
        ctx.stats.evaluations += r["execs"]
        ctx.stats.nontrivial_extra += r["corpus"]
        ctx.stats.cls("execs:" + t.name, r["execs"])
        # one actual corpus unit per target as an evidence sample (a unit libFuzzer kept because it reached new code)
        try:
            cd = os.path.join(vlib.scratch_root(), "c20", "corpus-" + t.name)
            units = sorted((f for f in os.listdir(cd) if not f.startswith("seed-")), key=lambda f: (-os.path.getsize(os.path.join(cd, f)), f))
            if units and len(ctx.stats.samples) < 16:
                data = open(os.path.join(cd, units[len(units) // 2]), "rb").read()[:160]
                ctx.stats.samples.append({"target": t.name, "corpus_unit": vlib.jsonable(data)})
        except OSError:
            pass
        if r["execs"] > 0:
            started += 1
        if 97 in r["rc"] or (r["execs"] == 0 and not r["artefacts"] and not r["init_report"]):
            ctx.stats.cls("target_run_failed:" + t.name)
            ctx.notes.setdefault("run_errors", {})[t.name] = r["log_tail"][-800:]
            continue
        if r["init_report"]:
            # a sanitizer report with no input involved (start-up code of the target): reproduce on the empty input
            f = os.path.join(r["adir"], "crash-startup")
            open(f, "wb").write(b"")
            r["artefacts"].append("crash-startup")
        for a in r["artefacts"]:
            p = os.path.join(r["adir"], a)
            if a.startswith(("crash-", "leak-")):
                ok, summ = reproduces(binp, p)
                if ok:
                    save_violation(ctx, t.name, binp, open(p, "rb").read(), summ, "libfuzzer")
                else:
                    ctx.stats.inconclusive += 1
                    ctx.stats.cls("unreproducible_artefact:" + t.name)
            elif a.startswith(("timeout-", "oom-", "slow-unit-")):
                ctx.stats.inconclusive += 1
                ctx.stats.cls("inconclusive_artefact:%s:%s" % (t.name, a.split("-")[0]))
    sdir = os.path.join(vlib.scratch_root(), "c20")
    for f in sorted(os.listdir(sdir)):
        if f.startswith("excluded-"):
            ctx.stats.cls("excluded_" + f[len("excluded-"):], os.path.getsize(os.path.join(sdir, f)))
    if started == 0 and not ctx.stats.violations:
        raise vlib.HarnessError("no C20 target executed anything: %s" % ctx.notes.get("run_errors"))


def whole_program_sessions(ctx):
    """Thorough tier: the session generators of C07, C08, C13, C17 and C19 are re-run (their quick tier) against ASan+UBSan builds of the
    whole programs (VERIF_SANITIZE=1), which covers the glue (main(), environment handling, qmail.c, the command loops on real descriptors)
    that the in-process targets stub out. Only AddressSanitizer reports count here (the interposer appends them to log files through
    __asan_set_error_report_callback); what those checks think of the sessions semantically is their own business. UBSan findings abort the
    program and therefore surface in the sub-check as an abnormal exit, which is listed in the evidence notes but not counted."""
    import subprocess, glob
    logdir = os.path.join(vlib.scratch_root(), "san-logs")
    os.makedirs(logdir, exist_ok=True)
    env = dict(os.environ, VERIF_SANITIZE="1", VERIF_OUT=os.path.join(vlib.scratch_root(), "san-out"), VERIF_TIER="quick",
               ASAN_OPTIONS="detect_leaks=0", UBSAN_OPTIONS="print_stacktrace=1", VSHIM_SANLOG=os.path.join(logdir, "asan"))
    ran = {}
    for pid in ("C08", "C19", "C07", "C13", "C17"):
        t0 = time.time()
        try:
            p = subprocess.run([os.path.join(vlib.VERIF, "check"), pid, "--tier", "quick"], env=env, stdout=subprocess.PIPE, stderr=subprocess.STDOUT, timeout=1500)
            tail = p.stdout.decode(errors="replace").strip().split("\n")[-1][:200]
            ran[pid] = {"rc": p.returncode, "s": round(time.time() - t0), "last_line": tail}
        except subprocess.TimeoutExpired:
            ran[pid] = {"rc": "timeout"}
            ctx.stats.inconclusive += 1
    ctx.notes["sanitised_whole_program_sessions"] = ran
    ctx.stats.samples.append({"sanitised_whole_program_session_checks": ran})
    ctx.stats.evaluations += sum(int(re.search(r"evaluations=(\d+)", v.get("last_line", "")).group(1)) for v in ran.values() if re.search(r"evaluations=(\d+)", v.get("last_line", "")))
    logs = sorted(glob.glob(os.path.join(logdir, "*")))
    ctx.stats.cls("sanitised_session_checks_run", len(ran))
    seen = set()
    for f in logs:
        txt = open(f, errors="replace").read()
        m = re.search(r"(ERROR: AddressSanitizer: [^\n]*|runtime error: [^\n]*)", txt)
        key = re.sub(r"0x[0-9a-f]+", "0x..", m.group(1))[:160] if m else txt[:100]
        if key in seen:
            continue
        seen.add(key)
        d = os.path.join(vlib.OUT, "replays", "C20")
        os.makedirs(d, exist_ok=True)
        dst = os.path.join(d, "sanitizer-report-%s.txt" % hashlib.sha1(key.encode()).hexdigest()[:12])
        open(dst, "w").write(txt[:20000])
        ctx.stats.violations.append(("whole-program session under sanitizers: %s" % key, dst))


def replay(ctx, path):
    if path.endswith(".json"):
        from props import c20_daemon, c20_sessions
        j = json.load(open(path))
        sc = j.get("scenario", j)
        if isinstance(sc, dict) and sc.get("part") == "sessions":
            return c20_sessions.replay(ctx, sc)
        return c20_daemon.replay(ctx, path)
    name = os.path.basename(path).split("-")[0]
    ts = [t for t in TARGETS if t.name == name]
    if not ts:
        raise vlib.HarnessError("replay file name must start with '<target>-' (targets: %s)" % " ".join(t.name for t in TARGETS))
    tree, bins = build_all(ctx, ts)
    ok, summ = reproduces(bins[name], os.path.abspath(path))
    return ["%s: %s" % (name, summ)] if ok else []
