"""C01 - Queue acceptance is all-or-nothing and durable.
Real qmail-queue under vshim in a sandbox queue; for every generated (message, envelope) the golden
run's trace is recorded and then EVERY crash point and EVERY single-fault site of that trace is
re-executed; oracle = DESIGN.md section 5/C01 (clauses 1-5)."""
import os, re, time, signal, subprocess, errno, calendar, json
from lib import vlib, sandbox
from hypothesis import strategies as st

LEVEL = "fault_enumeration"
RULE = ("Hypothesis generates (message bytes, envelope, uid class); each input is run once (golden) and then once per "
        "crash point k (before every mutating syscall of the golden trace, images kept/lost/partial) and once per "
        "(fault call site x errno|short). An execution is non-trivial when mess/<n> was created and, for crash/fault "
        "modes, the crash point/fault site was actually reached; distinct = (input digest, mode, k, kind).")
ASSUMPTIONS = ["crash = stop before a system call; unsynced file data may be lost per file, directory operations are durable (conf-qmail)",
               "one injected fault per run", "checks run as root in the sandbox; identity is virtualised by the LD_PRELOAD shim"]

ADDR = 1003
ERRNOS = [errno.EIO, errno.ENOSPC, errno.EDQUOT, errno.ENFILE, errno.EACCES, errno.EINTR]


def build_msg(sc):
    base = vlib.unjson(sc["pat"]) or b"x"
    n = sc["mlen"]
    return (base * (n // len(base) + 1))[:n]


def build_env(sc):
    def addr(a):
        base = vlib.unjson(a["pat"]).replace(b"\0", b"x") or b"a"
        return (base * (a["len"] // len(base) + 1))[:a["len"]]
    out = b"F" + addr(sc["sender"]) + b"\0"
    for r in sc["rcpts"]:
        out += b"T" + addr(r) + b"\0"
    out += b"\0"
    mut = sc["mut"]
    if mut["kind"] == "sender_letter":
        out = bytes([mut["byte"]]) + out[1:]
    elif mut["kind"] == "rcpt_letter" and sc["rcpts"]:
        # position of the i-th 'T'
        i = mut["i"] % len(sc["rcpts"])
        pos = len(b"F" + addr(sc["sender"]) + b"\0")
        for r in sc["rcpts"][:i]:
            pos += len(addr(r)) + 2
        out = out[:pos] + bytes([mut["byte"]]) + out[pos + 1:]
    elif mut["kind"] == "noterm":
        out = out[:-1]
    elif mut["kind"] == "cut":
        out = out[:mut["at"] % (len(out) + 1)]
    elif mut["kind"] == "extra":
        out = out + b"Tjunk@x\0garbage"
    elif mut["kind"] == "nul":
        out = b"\0" * (1 + mut["at"] % 3)
    return out


def model_env(env):
    """-> (exit code, canonical envelope bytes accepted so far). Stream order, first problem wins (qmail-queue.8)."""
    i = 0
    if i >= len(env):
        return 54, None
    if env[i:i + 1] != b"F":
        return 91, None
    i += 1

    def address(i):
        # at most ADDR bytes are examined; a NUL must be among them at index <= ADDR-1
        for ln in range(ADDR):
            if i + ln >= len(env):
                return 54, None
            if env[i + ln] == 0:
                return 0, i + ln + 1
        return 11, None
    code, j = address(i)
    if code:
        return code, None
    out = b"F" + env[i:j]
    i = j
    while True:
        if i >= len(env):
            return 54, None
        if env[i] == 0:
            return 0, out
        if env[i:i + 1] != b"T":
            return 91, None
        code, j = address(i + 1)
        if code:
            return code, None
        out += b"T" + env[i + 1:j]
        i = j


MONTHS = ["Jan", "Feb", "Mar", "Apr", "May", "Jun", "Jul", "Aug", "Sep", "Oct", "Nov", "Dec"]
RECV_RE = re.compile(rb"^Received: \(qmail (\d+) invoked (by alias|from network|for bounce|by uid (\d+))\); "
                     rb"(\d{1,2}) (\w{3}) (\d{4}) (\d\d):(\d\d):(\d\d) -0000\n")


def check_received(line_and_rest, pid, uidclass, uid, t0, t1):
    m = RECV_RE.match(line_and_rest)
    if not m:
        return None, "Received line malformed: %r" % line_and_rest[:100]
    if int(m.group(1)) != pid:
        return None, "Received line pid %s != %d" % (m.group(1), pid)
    want = {"a": b"by alias", "d": b"from network", "s": b"for bounce"}.get(uidclass, b"by uid %d" % uid)
    if m.group(2) != want:
        return None, "Received line says %r, expected %r" % (m.group(2), want)
    try:
        ts = calendar.timegm((int(m.group(6)), MONTHS.index(m.group(5).decode()) + 1, int(m.group(4)),
                              int(m.group(7)), int(m.group(8)), int(m.group(9))))
    except Exception:
        return None, "Received date unparsable"
    if not (t0 - 2 <= ts <= t1 + 2):
        return None, "Received date %d outside run interval [%d,%d]" % (ts, t0, t1)
    return m.end(), None


class Runner:
    def __init__(self, tree, wid):
        self.tree = tree
        self.h = sandbox.Home(tree, os.path.join(vlib.scratch_root(), "c01-%s" % wid))
        self.shadow = os.path.join(self.h.dir, "shadow")
        os.makedirs(self.shadow, exist_ok=True)
        self.msgf = os.path.join(self.h.dir, "in.msg")
        self.envf = os.path.join(self.h.dir, "in.env")
        self.flag = os.path.join(self.h.dir, "crashflag")
        self.ossified = None
        self.extra = b""              # QUEUE_EXTRA of the build under test (extra.h)

    def execute(self, uid, crash=None, fault=None, hold_trigger=False, alarm=None, blocked=False, umask=None):
        h = self.h
        h.clean_queue()
        h.clear_trace()
        for f in os.listdir(self.shadow):
            os.unlink(os.path.join(self.shadow, f))
        extra = {"VSHIM_SHADOW": self.shadow}
        if crash is not None:
            extra["VSHIM_CRASH"] = "inj:%d" % crash
        if fault is not None:
            extra["VSHIM_FAULT"] = "inj:%s:%d:%s" % fault
        if alarm is not None:
            # the 24-hour timer expires just before the k-th mutating call, or (k, "after") right after that call was performed
            # a 3-tuple (k, "before"|"after", signo) delivers another signal (SIGTERM: "is killed" at any instant)
            if isinstance(alarm, tuple) and len(alarm) == 3:
                extra["VSHIM_SIGNAL"] = "inj:%d:%d%s" % (alarm[0], alarm[2], ":after" if alarm[1] == "after" else "")
            else:
                extra["VSHIM_SIGNAL"] = ("inj:%d:14:after" % alarm[0]) if isinstance(alarm, tuple) else ("inj:%d:14" % alarm)
        env = h.env(role="inj", uid=uid, **extra)
        trig = None
        if hold_trigger:
            trig = os.open(os.path.join(h.queue, "lock", "trigger"), os.O_RDONLY | os.O_NONBLOCK)
        t0 = int(time.time())
        try:
            with open(self.msgf, "rb") as f0, open(self.envf, "rb") as f1:
                # blocked: the caller had SIGALRM (and SIGPIPE, SIGTERM) blocked when it started the program - a signal mask is inherited
                # across exec; the program is documented to clear it first thing, or its death timer could never fire
                pre = (lambda: signal.pthread_sigmask(signal.SIG_BLOCK, [signal.SIGALRM, signal.SIGPIPE, signal.SIGTERM])) if blocked else None
                if umask is not None:
                    # the invoking user's file-creation mask is inherited like the signal mask: the program sets its own
                    pre0 = pre
                    pre = lambda: (os.umask(umask), pre0 and pre0())
                p = subprocess.Popen([self.tree.path("qmail-queue")], stdin=f0, stdout=f1, stderr=subprocess.DEVNULL,
                                     env=env, cwd="/", close_fds=True, preexec_fn=pre)
                try:
                    rc = p.wait(timeout=20)
                except subprocess.TimeoutExpired:
                    p.kill()
                    p.wait()
                    rc = None
        finally:
            if trig is not None:
                os.close(trig)
        t1 = int(time.time())
        return rc, p.pid, t0, t1, h.read_trace()


def images(h, shadow, n, snap):
    """Post-stop images of (mess, envelope) content for message n: kept, lost, partial."""
    def rd(p):
        try:
            return open(p, "rb").read()
        except FileNotFoundError:
            return None
    mess_p = h.qpath("mess", n)
    env_p = h.qpath("todo", n) if "todo" in snap else h.qpath("intd", n)
    cur = {"mess": rd(mess_p), "env": rd(env_p)}
    lost = {}
    for k, p in (("mess", mess_p), ("env", env_p)):
        if cur[k] is None:
            lost[k] = None
            continue
        ino = os.stat(p).st_ino
        s = rd(os.path.join(shadow, str(ino)))
        lost[k] = s if s is not None else b""
    out = [("kept", cur), ("lost", lost)]
    part = {}
    anyp = False
    for k in ("mess", "env"):
        part[k] = cur[k]
        if cur[k] is not None and lost[k] is not None and len(lost[k]) < len(cur[k]) and cur[k].startswith(lost[k]):
            part[k] = cur[k][:(len(lost[k]) + len(cur[k])) // 2]
            anyp = True
    if anyp:
        out.append(("partial", part))
        # mixed images: one file lost, the other kept
        out.append(("lost-mess-only", {"mess": lost["mess"], "env": cur["env"]}))
        out.append(("lost-env-only", {"mess": cur["mess"], "env": lost["env"]}))
    return out


def judge(r, sc, msg, env, uid, uidclass, rc, pid, t0, t1, events, mode, expect_exit):
    """Apply clauses 1-5. Returns (violation message or None, reached_mess, info)."""
    h = r.h
    snap, bad, pids = h.snapshot()
    if rc is None:
        return "INCONCLUSIVE", False, {}
    if bad:
        return "stray queue files %r" % bad, False, {}
    if len(snap) > 1:
        return "more than one message number touched: %r" % sorted(snap), False, {}
    if len(pids) > 1:
        return "more than one pid/ leftover: %r" % pids, False, {}
    reached = any(e["call"] == "link" and len(e["a"]) > 2 and e["a"][1].startswith("mess/") and e["a"][2] == "0" for e in events)
    code_env, canon = model_env(env)
    if canon is not None and r.extra:
        # FAQ 8.2 build: QUEUE_EXTRA is written between the sender record and the recipient records
        z = canon.index(b"\0") + 1
        canon = canon[:z] + r.extra + canon[z:]
    crashed = mode[0] == "crash" and rc == -9
    # clause 5: alarm before first file creation, below OSSIFIED
    al = [i for i, e in enumerate(events) if e["call"] == "alarm"]
    fm = [i for i, e in enumerate(events) if e["call"] == "M"]
    if fm and (not al or al[0] > fm[0]):
        return "no alarm() armed before the first mutating call", reached, {}
    if len([i for i in al if int(events[i]["a"][0]) > 0]) > 1:
        # the collection of leftovers after 36 hours rests on an injector being dead by then: its life is bounded by ONE timer set at the
        # start; a timer that is set again later (on every read, say) lets a slow injection outlive the limit (added after seeded change C01-L)
        return "death timer armed %d times (alarm(%s)): the injector's lifetime is no longer bounded by the first one" % (len(al), ", ".join(events[i]["a"][0] for i in al[:4])), reached, {}
    if al:
        secs = int(events[al[0]]["a"][0])
        if r.ossified and not (0 < secs < r.ossified):
            return "death timer %d not below OSSIFIED %d" % (secs, r.ossified), reached, {}
    if not snap:
        if rc == 0:
            return "exit 0 but nothing is in the queue", reached, {}
        n = None
    else:
        n = list(snap)[0]
        s = snap[n]
        # clause 4: S1..S4 only
        if "mess" not in s:
            return "leftover state %r for %d: intd/todo without mess" % (sorted(s), n), reached, {}
        if not s <= {"mess", "intd", "todo"}:
            return "unexpected files %r" % sorted(s), reached, {}
        if os.stat(h.qpath("mess", n)).st_ino != n:
            return "mess/%d has inode %d" % (n, os.stat(h.qpath("mess", n)).st_ino), reached, {}
        if pids and rc == 0:
            return "pid/ leftover after success", reached, {}
        visible = "todo" in s
        if rc == 0 and not visible:
            return "exit 0 but todo/%d missing: message not visible to the daemon" % n, reached, {}
        if visible or rc == 0:
            # "visible to the delivery daemon": the daemon runs under another account than the one that owns the queue files, and the files'
            # group is the invoking user's - whatever file-creation mask the invoker had, message and envelope must be readable by others
            for dname in ("mess", "todo"):
                if dname in s:
                    md = os.stat(h.qpath(dname, n)).st_mode & 0o777
                    if not md & 0o004:
                        return "%s/%d has mode %04o: not readable by the delivery daemon's account (invoker's umask %s)" % (dname, n, md, ("%03o" % sc["umask"]) if sc.get("umask") is not None else "inherited"), reached, {}
            for name, im in images(h, r.shadow, n, s):
                m = im["mess"]
                e = im["env"]
                if m is None or e is None:
                    return "visible message %d lacks a file in image %s" % (n, name), reached, {}
                end, err = check_received(m, pid, uidclass, uid, t0, t1)
                if err:
                    return "image %s (rc=%s): %s" % (name, rc, err), reached, {}
                if m[end:] != msg:
                    return ("image %s (rc=%s): visible message body differs from input (len %d vs %d)"
                            % (name, rc, len(m) - end, len(msg))), reached, {}
                want = b"u%d\0p%d\0" % (uid, pid)
                if canon is None:
                    return "image %s: message visible although the envelope is malformed (model exit %d)" % (name, code_env), reached, {}
                full = want + canon
                if e != full:
                    return "image %s (rc=%s): visible envelope differs: %r != %r" % (name, rc, e[:120], full[:120]), reached, {}
    # clause 3: exit status
    if mode[0] == "term":
        # killed by a catchable signal at this instant: whatever the program does about it (die from it, exit with a documented status),
        # only the state it leaves behind is judged - clauses 1, 2 and 4 above
        return None, reached, {}
    if expect_exit is not None and rc != expect_exit and not (mode[0] == "crash"):
        return "exit status %s, documented %s (mode %s)" % (rc, expect_exit, mode), reached, {}
    if mode[0] == "golden" and rc != code_env:
        return "exit status %s, documented %s for this envelope" % (rc, code_env), reached, {}
    if rc != 0 and mode[0] != "crash" and rc not in (11, 51, 52, 53, 54, 61, 62, 63, 64, 65, 66, 81, 91):
        return "undocumented exit status %s" % rc, reached, {}
    return None, reached, {}


def expected_fault_exit(cls, kind, ev):
    """Documented exit status for a single fault at this call site of a golden run that would have exited 0."""
    a = ev["a"]
    if kind == "short":
        return 0
    en = int(kind)
    if cls == "chdir":
        return 61 if a[0] != "queue" else 62
    if cls == "open":
        p = a[0]
        if p.startswith("pid/"):
            return 0      # retried under the next sequence number
        if p.startswith("intd/"):
            return 65
        return 0          # lock/trigger: "if it fails, bummer"
    if cls == "fstat":
        return 63
    if cls == "link":
        return 64 if a[1].startswith("mess/") else 66
    if cls == "unlink":
        return 63
    if cls == "read":
        return 0 if en == errno.EINTR else 54
    if cls == "write":
        return 0 if en == errno.EINTR else 53
    if cls == "fsync":
        return 53
    if cls in ("pwrite", "close"):
        return 0
    return None


def run_input(r, sc, stats, full=True, pick=None):
    """Golden run + sweeps for one input. Returns violation message or None."""
    msg = build_msg(sc)
    env = build_env(sc)
    uidclass = sc["uid"]
    uid = r.h.uids[uidclass] if uidclass in "ads" else 4242
    open(r.msgf, "wb").write(msg)
    open(r.envf, "wb").write(env)
    hold = bool(sc.get("hold"))
    icls = "env_" + sc["mut"]["kind"]
    key_in = vlib.digest(sc)[:12]

    def one(mode, crash=None, fault=None, expect=None, alarm=None, blocked=False):
        rc, pid, t0, t1, ev = r.execute(uid, crash=crash, fault=fault, hold_trigger=hold, alarm=alarm, blocked=blocked, umask=sc.get("umask"))
        if not ev:
            # not a single traced call: the program ran without the interposer (ld.so skips an unreadable preload silently) - nothing
            # can be judged, and certainly no crash or fault was injected
            stats.inconclusive += 1
            stats.cls("ran_without_interposer")
            return None, ev, rc
        v, reached, _ = judge(r, sc, msg, env, uid, uidclass, rc, pid, t0, t1, ev, mode, expect)
        if v == "INCONCLUSIVE":
            stats.inconclusive += 1
            return None, ev, rc
        hit = True
        if mode[0] == "crash":
            hit = any(e["call"] == "CRASH" for e in ev)
        if mode[0] == "fault":
            hit = any(e["a"] and e["a"][-1] in ("FAULT", "SHORT") for e in ev)
        if mode[0] in ("alarm", "term"):
            hit = any(e["call"] == "SIGNAL" for e in ev)
        stats.case(scenario={"input": sc, "mode": list(mode), "exit": rc}, nontrivial=reached and hit,
                   classes=[icls, "mode_" + mode[0]] + (["exit_%s" % rc] if mode[0] == "golden" else []) +
                   (["fault_%s" % mode[1]] if mode[0] == "fault" else []),
                   key=(key_in, mode))
        if v:
            return "%s | input=%s mode=%s" % (v, json.dumps(vlib.jsonable(sc)), list(mode)), ev, rc
        return None, ev, rc

    v, gold, grc = one(("golden",))
    if v:
        return v
    muts = [e for e in gold if e["call"] == "M"]
    ks = list(range(len(muts) + 1))
    sites = sandbox.fault_sites(gold, "inj")
    plans = []
    for k in ks:
        plans.append(("crash", k))
    # the injector's own death timer (alarm(86400), documented exit 52) firing before each of its mutating steps, including the ones after
    # the message became visible (added after seeded changes C02-D / C01-D)
    for k in ks[:-1]:
        plans.append(("alarm", k))
    # ... and at the instant a call has been performed but the program has not yet seen its result - where the kernel delivers a signal that
    # arrived during the call: whatever the program notes down "once the call has returned" is not yet noted (added after seeded change C01-K)
    for k in ks[:-1]:
        plans.append(("alarm_after", k))
    # "is killed ... at any instant": SIGTERM (catchable, unlike the SIGKILL of the crash sweep - a handler that tidies up must not touch a
    # message that is already visible) before each mutating call and right after each has been performed (added after seeded change C02-M)
    for k in ks[:-1]:
        plans.append(("term", k, "before"))
        plans.append(("term", k, "after"))
    for cls, k, ev in sites:
        if cls in ("lseek", "stat", "flock", "opendir", "fork", "pipe"):
            continue
        kinds = []
        if cls in ("read", "write"):
            kinds = ["short", str(errno.EIO), str(errno.EINTR)]
            if cls == "write":
                kinds.append(str(errno.ENOSPC))
                kinds.append(str(errno.EDQUOT))
        elif cls == "open":
            kinds = [str(errno.ENFILE), str(errno.EACCES), str(errno.ENOSPC), str(errno.EEXIST)]
        elif cls == "link":
            kinds = [str(errno.EEXIST), str(errno.ENOSPC), str(errno.EIO)]
        elif cls == "pwrite":
            kinds = [str(errno.EIO), str(errno.EPIPE)]     # the trigger's reader went away between open() and write(): "if it fails, bummer"
        elif cls in ("fsync", "unlink", "fstat", "chdir", "close", "ftruncate"):
            kinds = [str(errno.EIO)]
        for kind in kinds:
            plans.append(("fault", cls, k, kind, ev))
    if not full:
        # deterministic subset chosen by the scenario's tape
        tape = sc.get("tape", [])
        sel = []
        for i, t in enumerate(tape[:pick or 12]):
            sel.append(plans[t % len(plans)])
        plans = sel
    for pl in plans:
        if pl[0] == "crash":
            v, _, _ = one(("crash", pl[1]), crash=pl[1])
        elif pl[0] == "alarm":
            v, _, rc_a = one(("alarm", pl[1]), alarm=pl[1], expect=52)
            if not v and pl[1] % 3 == 0:
                v, _, rc_a = one(("alarm", pl[1], "inherited_blocked_mask"), alarm=pl[1], expect=52, blocked=True)
        elif pl[0] == "term":
            v, _, rc_a = one(("term", pl[1], pl[2]), alarm=(pl[1], pl[2], 15))
        elif pl[0] == "alarm_after":
            v, _, rc_a = one(("alarm", pl[1], "after_the_call"), alarm=(pl[1], "after"), expect=52)
        else:
            _, cls, k, kind, ev = pl
            exp = expected_fault_exit(cls, kind, ev) if grc == 0 else None
            v, _, _ = one(("fault", cls, k, kind), fault=(cls, k, kind), expect=exp)
        if v:
            return v
    return None


# ------------------------------------------------------------------ generators

def boundary_lengths(R=70):
    out = {0, 1, 2}
    for b in (256 - R, 256, 2048 - R, 2048, 4096, 8192 - R, 8192, 8193, 3 * 8192):
        out.update({b - 1, b, b + 1})
    return sorted(x for x in out if x >= 0)


pat = st.binary(min_size=1, max_size=6).map(vlib.jsonable)
addr_len = st.one_of(st.integers(0, 60), st.integers(0, 60), st.integers(0, 60), st.sampled_from([0, 1, 2, 1001, 1002, 1003, 1004]))
addr = st.fixed_dictionaries({"len": addr_len, "pat": st.binary(min_size=1, max_size=4).map(vlib.jsonable)})
mutation = st.one_of(
    st.just({"kind": "none"}), st.just({"kind": "none"}),
    st.fixed_dictionaries({"kind": st.just("sender_letter"), "byte": st.sampled_from([0, ord("T"), ord("f"), 255])}),
    st.fixed_dictionaries({"kind": st.just("rcpt_letter"), "i": st.integers(0, 40), "byte": st.sampled_from([ord("F"), ord("t"), 1, 255])}),
    st.just({"kind": "noterm"}),
    st.fixed_dictionaries({"kind": st.just("cut"), "at": st.integers(0, 5000)}),
    st.just({"kind": "extra"}),
    st.fixed_dictionaries({"kind": st.just("nul"), "at": st.integers(0, 2)}),
)
scenario = st.fixed_dictionaries({
    "mlen": st.one_of(st.sampled_from(boundary_lengths()), st.integers(0, 600)),
    "pat": pat,
    "sender": addr,
    "rcpts": st.one_of(st.lists(addr, max_size=5), st.lists(addr, min_size=40, max_size=40)),
    "mut": mutation,
    "uid": st.sampled_from(["a", "d", "s", "x"]),
    "hold": st.booleans(),
    "umask": st.sampled_from([None, None, None, 0o077, 0o027, 0o000, 0o777, 0o066]),
    "tape": st.lists(st.integers(0, 10 ** 6), min_size=12, max_size=12),
})


def parse_ossified(tree):
    vals = []
    for f in ("qmail-send.c", "qmail-clean.c"):
        m = re.search(r"#define\s+OSSIFIED\s+(\d+)", open(tree.path(f)).read())
        if m:
            vals.append(int(m.group(1)))
    return min(vals) if vals else None


def boundary_inputs():
    """Deterministic inputs that sit on every documented boundary (always swept completely)."""
    out = []
    for ml in (0, 1, 185, 186, 187, 2047, 2048, 2049, 8193):
        out.append({"mlen": ml, "pat": {"b": "ab\n"}, "sender": {"len": 5, "pat": {"b": "s@h"}},
                    "rcpts": [{"len": 6, "pat": {"b": "r@h"}}], "mut": {"kind": "none"}, "uid": "d", "hold": False, "tape": []})
    for al in (1001, 1002, 1003, 1004):
        out.append({"mlen": 10, "pat": {"b": "m"}, "sender": {"len": al, "pat": {"b": "s"}}, "rcpts": [{"len": 3, "pat": {"b": "r"}}],
                    "mut": {"kind": "none"}, "uid": "a", "hold": False, "tape": []})
        out.append({"mlen": 10, "pat": {"b": "m"}, "sender": {"len": 3, "pat": {"b": "s"}}, "rcpts": [{"len": 3, "pat": {"b": "r"}}, {"len": al, "pat": {"b": "r"}}],
                    "mut": {"kind": "none"}, "uid": "s", "hold": True, "tape": []})
    for mut in ({"kind": "sender_letter", "byte": 0}, {"kind": "rcpt_letter", "i": 1, "byte": ord("F")}, {"kind": "noterm"},
                {"kind": "cut", "at": 7}, {"kind": "cut", "at": 0}, {"kind": "extra"}, {"kind": "nul", "at": 0}):
        out.append({"mlen": 300, "pat": {"hex": "00ff0a"}, "sender": {"len": 4, "pat": {"b": "s@h"}},
                    "rcpts": [{"len": 4, "pat": {"b": "r@h"}}, {"len": 0, "pat": {"b": "r"}}], "mut": mut, "uid": "x", "hold": True, "tape": []})
    out.append({"mlen": 20, "pat": {"b": "z"}, "sender": {"len": 0, "pat": {"b": "s"}}, "rcpts": [], "mut": {"kind": "none"}, "uid": "d", "hold": True, "tape": []})
    # restrictive file-creation masks inherited from the invoker (added after seeded change C01-M)
    for um in (0o077, 0o027, 0o777):
        out.append({"mlen": 200, "pat": {"b": "ab\n"}, "sender": {"len": 5, "pat": {"b": "s@h"}}, "rcpts": [{"len": 6, "pat": {"b": "r@h"}}],
                    "mut": {"kind": "none"}, "uid": "x", "hold": False, "tape": [], "umask": um})
    return out


def worker(job):
    tree, wid, seed, nex, tier, binputs = job
    stats = vlib.Stats()
    r = Runner(tree, wid)
    r.ossified = parse_ossified(tree)
    r.extra = getattr(tree, "queue_extra", b"")
    for sc in binputs:
        v = run_input(r, sc, stats, full=True)
        if v:
            stats.violations.append((v, sc))
            return stats

    def runfn(sc, stats):
        return run_input(r, sc, stats, full=(tier == "thorough"), pick=12)
    if nex:
        vlib.hyp_search(scenario, runfn, nex, seed, stats)
    return stats


def replay_dir():
    return os.path.join(vlib.VERIF, "replays", "C01")


def run(ctx):
    sandbox.ensure_shim()
    tree = vlib.Tree().make("qmail-queue")
    b = boundary_inputs()
    # regression tier: saved scenarios
    reg = []
    d = os.path.join(vlib.VERIF, "corpus", "C01", "regress")
    if os.path.isdir(d):
        for f in sorted(os.listdir(d)):
            reg.append(json.load(open(os.path.join(d, f)))["scenario"])
    b = reg + b
    nw = vlib.NCPU
    per = ctx.n(500, 1200)
    jobs = [(tree, i, vlib.subseed(ctx.seed, "c01", i), per, ctx.tier, b[i::nw]) for i in range(nw)]
    ctx.stats.merge(vlib.run_workers(worker, jobs))
    if not ctx.stats.violations:
        # the documented "copy of all mail" build (FAQ 8.2: QUEUE_EXTRA "Tlog\0", QUEUE_EXTRALEN 5 in extra.h): the boundary inputs once more,
        # completely swept, against a second build of the working tree with that extra.h - the extra record sits between sender and recipients
        t2 = extra_tree()
        if t2 is not None:
            b2 = [sc for sc in boundary_inputs() if sc["mut"]["kind"] == "none"][::3]
            st2 = vlib.run_workers(worker, [(t2, "x%d" % i, 1, 0, ctx.tier, b2[i::nw]) for i in range(nw) if b2[i::nw]])
            st2.classes = {"faq82_build:" + k: v for k, v in st2.classes.items()}
            st2.violations = [("FAQ 8.2 build (QUEUE_EXTRA \"Tlog\\0\"): " + m, dict(sc, queue_extra="Tlog") if isinstance(sc, dict) else sc) for m, sc in st2.violations]
            ctx.stats.merge(st2)
            ctx.notes["faq82_build_inputs"] = len(b2)
    ctx.notes["ossified_constant"] = parse_ossified(tree)


def extra_tree():
    """second build of the working tree with the extra.h of FAQ 8.2, or None if extra.h no longer has the shipped form"""
    t2 = vlib.Tree(tag="-extra")
    xp = t2.path("extra.h")
    x = open(xp).read()
    x2 = re.sub(r'#define QUEUE_EXTRA ""', '#define QUEUE_EXTRA "Tlog\\0"', re.sub(r"#define QUEUE_EXTRALEN 0", "#define QUEUE_EXTRALEN 5", x))
    if x2 == x or "Tlog" not in x2:
        return None
    open(xp, "w").write(x2)
    t2.make("qmail-queue")
    t2.queue_extra = b"Tlog\0"
    return t2


def replay(ctx, path):
    sandbox.ensure_shim()
    sc = json.load(open(path))
    sc = sc.get("scenario", sc)
    tree = extra_tree() if sc.get("queue_extra") else vlib.Tree().make("qmail-queue")
    if tree is None:
        raise vlib.HarnessError("extra.h cannot be switched to the FAQ 8.2 form")
    r = Runner(tree, "replay")
    r.extra = getattr(tree, "queue_extra", b"")
    r.ossified = parse_ossified(tree)
    v = run_input(r, sc, ctx.stats, full=True)
    return [v] if v else []
