"""C03 - No accepted recipient is ever dropped: delivered or bounced.
Real qmail-send + qmail-clean + qmail-queue in the driven world (lib/qworld.py): the driver plays both spawners, owns the
virtual clock and all signals, and decides at every quiescent point of the daemon what happens next (decision tape).
Ledger oracle in lib/qhistory.py (clauses I1-I5 = DESIGN.md 5/C03 1-5). Every generated history is additionally re-executed
under crash points (images kept / lost) and single injected faults taken from its own recorded trace."""
from props import qs_common as q
LEVEL = "fault_enumeration"
RULE = ("Hypothesis generates histories: control files, 1-3 messages with 0-4 local/remote/virtual recipients, per-attempt outcome scripts "
        "over K/Z/D/garbled/empty reports, bounce-chain outcomes, an event tape consumed at the daemon's quiescent points (answer any outstanding "
        "attempt, inject, HUP, ALRM, TERM+restart, spawner death, hostile reports, clock steps), then a deterministic drain. Each history is "
        "re-run under a strided selection (quick) or all (thorough: 3 base scenarios per worker fully swept) of its crash points "
        "(before every mutating syscall of qmail-send, qmail-clean and the bounce qmail-queue; images kept/lost) and single faults "
        "(open/read/write/fsync/unlink/stat/link/utimes/opendir x errno, short writes). Non-trivial = history with a non-K outcome, a restart, "
        "or a crash/fault that was actually reached; distinct = digest of (scenario, mode).")
ASSUMPTIONS = ["one action per quiescent point; the daemon's signals arrive only at quiescent points",
               "crash = stop before a system call; lost image = every file reverted to its content at its last fsync (directory operations durable)",
               "bounce/<n> is documented as not crash-proof: obligations recorded only there are waived under the lost image",
               "liveness is checked as a bound on the number of quiescent points (60 + 8*(recipients+2)*(script length+2) + 3*tape, +60 under crash/fault)"]
TAGS = ("C03",)


CTL = {"me": "me.example\n", "locals": "loc.example\n", "virtualdomains": "virt.example:vuser\n"}


def base(msgs, scripts, bscript="", texts=("ok", "user unknown\n"), tape=(), actions=("answer", "inject", "advance"), ctl=None):
    return {"controls": dict(CTL, **(ctl or {})), "limits": [120, 120], "messages": msgs, "scripts": scripts, "bscript": bscript,
            "texts": list(texts), "tape": list(tape), "actions": list(actions), "mode": {"kind": "none"}}


# base scenarios whose crash points and fault sites are ALL re-executed in every run (also in the quick tier)
FULLY_SWEPT = [
    base([{"sender": "s@rem.example", "rcpts": ["joe@loc.example", "ann@rem.example"], "body": "Subject: t\n\nb\n"}], {"0:0": "ZK", "0:1": "D"}),
    base([{"sender": "s@rem.example", "rcpts": ["joe@virt.example"], "body": "x\n"}], {"0:0": "D"}, bscript="D"),
    base([{"sender": "", "rcpts": ["joe@loc.example", "joe@loc.example"], "body": "x\n"}], {"0:0": "K", "0:1": "ZD"}, bscript="DD"),
    base([{"sender": "s@loc.example", "rcpts": ["ann@loc.example"], "body": "x\n"}, {"sender": "t@rem.example", "rcpts": ["bob@rem.example"], "body": "y\n"}],
         {"0:0": "GK", "1:0": "ZZK"}, tape=(1, 0, 0, 0, 2, 7), actions=("answer", "inject", "advance", "term")),
]


# the daemon behind a QMAILQUEUE filter that refuses the failure notice - permanently (31, 11) or temporarily (53, 71, 91) - one or more
# times before it lets it through: the obligation to bounce survives every refusal (added after seeded change C03-F)
QQ_FILTER = [dict(base([{"sender": "s@rem.example", "rcpts": ["joe@loc.example", "ann@rem.example"], "body": "Subject: t\n\nb\n"}], {"0:0": "D", "0:1": "ZD"}, bscript=bs),
                  qq_refuse=ref) for ref in ([31], [11], [53], [71], [91], [31, 53], [31, 31, 11], ["k9"], ["k11"], ["k9", 31, "k6"]) for bs in ("K", "D")]


# wide envelopes: recipient lists of both channels that exceed the daemon's 1024-byte per-channel write buffers (and its 8 KB todo read
# buffer) in every order - each accepted recipient must come out of the pre-processing exactly once (added after seeded change C03-I)
def wide(order, nbig, nsmall=2, name="user%03d-with-a-rather-long-mailbox-name"):
    big = [(name % i) for i in range(nbig)]
    dom = {"L": "loc.example", "R": "rem.example"}
    o, s_ = order
    rc = {"sb": ["a@%s" % dom[s_]] + ["%s@%s" % (b, dom[o]) for b in big] + ["z@%s" % dom[s_]],
          "bs": ["%s@%s" % (b, dom[o]) for b in big] + ["a@%s" % dom[s_], "z@%s" % dom[s_]],
          "mix": [x for i, b in enumerate(big) for x in (["%s@%s" % (b, dom[o])] + (["m%d@%s" % (i, dom[s_])] if i % 9 == 4 else []))]}
    return [base([{"sender": "s@rem.example", "rcpts": r, "body": "x\n"}], {"0:1": "D", "0:%d" % (len(r) - 1): "ZK"}, bscript="K") for r in rc.values()]


WIDE = wide("LR", 40) + wide("RL", 40) + wide("LR", 75)[:1] + wide("RL", 230, name="u%03d-remote-recipient-mailbox")[:1]


# mail accepted during a long outage of the daemon: 6..40 fully queued messages, older than the 36-hour collection limit (or just younger) when
# the daemon starts - its start-up sweep for debris and its todo scan work through the same files one entry per loop iteration, and every
# one of these messages is owed to its recipients (added after seeded change C03-L)
BACKLOG = [dict(base([{"sender": "s@rem.example", "rcpts": ["u%d@loc.example" % i, "v%d@rem.example" % i][:1 + i % 2], "body": "x\n"} for i in range(n)],
                     {"1:0": "ZK", "3:0": "D"}, bscript="K", ctl={"queuelifetime": "1209600\n"}), backlog={"n": n, "age": age})
           for n, age in ((6, 200000), (24, 259200), (40, 130000), (12, 100000))]


# message numbers beyond 32 bits (64-bit inode numbers): delivered, deferred and bounced recipients of a message placed in the queue under
# such a number - the marks, the bounce record and the notice all go through the same file-name arithmetic (world feature of C04-M)
BIGNUM = [base([{"sender": "s@rem.example", "rcpts": ["joe@loc.example", "ann@loc.example", "r@rem.example", "q@rem.example"], "body": "x\n", "preplaced_id": n}],
               {"0:0": "K", "0:1": "D", "0:2": "ZD", "0:3": "ZZK"}, bscript="K") for n in (2 ** 32 + 77, 2 ** 48 + 5, 2 ** 63 + 9)]


def run(ctx):
    q.search(ctx, "C03", TAGS, 0, 0, fixed=QQ_FILTER + WIDE + BACKLOG + BIGNUM)
    # every single allocation of the daemon failing once (out of memory is a transient failure like any other): the daemon is built to sleep
    # and go on; it may leave a job open until its next start, so only the safety core is judged - no recipient dropped, no bounce lost
    q.search(ctx, "C03", TAGS, 0, 0, sweep={"all": True, "faults_only": True, "fault_classes": ["malloc"], "malloc": True, "tags": ["C03-drop"]}, fixed=FULLY_SWEPT)
    q.search(ctx, "C03", TAGS, 0, 0, sweep={"all": True}, fixed=FULLY_SWEPT)
    q.search(ctx, "C03", TAGS, 14, 260, sweep={"crash": 6, "fault": 5})
    if not ctx.quick:
        q.search(ctx, "C03", TAGS, 0, 24, sweep={"all": True})


def replay(ctx, path):
    return q.replay_scenario(ctx, path, TAGS)
