"""C18 - Helpers at trust boundaries act only on validated requests.

Parts implemented here (DESIGN.md section 5/C18):
  clean  : the real qmail-clean under the vshim trace in a sandbox queue full of decoy files.
           * bounded-exhaustive: every request prefix+body+NUL with prefix in {foop/, todo/, every one-byte
             corruption of these two, Foop/, info/, mess/, intd/, seeded random 5-byte prefixes} and body over
             {0,1,9,/,.,a,0xFF} up to length 5 (4 for the corrupted prefixes), in batches of ~1000 per process;
           * a fixed list: too short / too long, missing NUL at EOF, numbers >= 2^32 and >= 2^64 (also values
             congruent to a decoy number mod 2^64), leading zeros, requests hitting a directory (unlink error => '!');
           * Hypothesis: random request streams (1-40 requests per fresh process).
           Every request is judged on its own: the trace is cut at the status bytes (one write of one byte each).
  spawn  : command streams to the real qmail-lspawn and qmail-rspawn; children are shim/standin (installed as
           bin/qmail-local, QMAILREMOTE) recording argv and the message on descriptor 0, bin/qmail-getpw is the real one.
           queue/mess holds regular files owned by qmailq, files of other owners, a directory, a FIFO, symlinks,
           non-numeric names.  Deterministic sweep (every prepared message id x boundary delivery numbers, all
           delivery numbers 0..255) plus Hypothesis streams (truncated tail, 10 kB fields, NULs / long child output).
  The third part (qmail-send's report channels) is attached through extra_parts(ctx).

Left out relative to the design: injected unlink faults other than the EISDIR of a decoy directory; child delays
(a delivery number "already in use" is still reached because all commands of a <= 1024-byte stream are read at once);
one fresh process per request for the whole exhaustive domain (requests go in batches of ~1000 per process and are
judged one by one; a failing request is re-run alone in a fresh process, Hypothesis also draws single-request streams).
A violation of a deterministic input is reported only if it reproduces twice more (DESIGN.md section 1), otherwise it
is counted as inconclusive / class flaky_unreproducible.  VERIF_DEBUG_LOG=<file> logs every violation message and
harness exception seen inside the Hypothesis searches (debugging aid only).  C18_N overrides the examples per worker.
"""
import os, re, json, stat, shutil, struct, random
from lib import vlib, sandbox
from hypothesis import strategies as st

LEVEL = "exploration"
RULE = ("clean: bounded-exhaustive enumeration of prefix+body+NUL requests plus a fixed boundary list plus Hypothesis "
        "streams, every request judged separately from the trace segment before its status byte; spawn: deterministic "
        "sweep of prepared message ids x delivery numbers plus Hypothesis command streams. A case is one request / one "
        "command stream; it is non-trivial when the request (a command of the stream) is invalid in exactly one respect; "
        "distinct = the request bytes / digest of the stream scenario.")
ASSUMPTIONS = [
    "unsigned long has %d bits on this platform; a request number 'fits' when it is below 2^%d" % (struct.calcsize("L") * 8, struct.calcsize("L") * 8),
    "the helpers' standard output is a regular file, so status bytes / reports show up as write(1) in the trace",
    "a message id that is a symbolic link is judged by the file it resolves to (the spawners use open+fstat)",
    "no pid/ file in the sandbox is older than 36 hours, so qmail-clean's documented pid/ garbage collection never unlinks",
]

ULONG = 1 << (struct.calcsize("L") * 8)
ENOENT = 2


def extra_parts(ctx):
    """Third part of C18: qmail-send's report channels in the driven world (lib/qworld.py, lib/qhistory.py, props/qs_common.py profile
    "C18"). While 0-3 deliveries are outstanding the driver writes hostile bytes on the report descriptors: reports for delivery numbers
    that are unused or out of range, forged K/D, empty reports, 12 kB reports, forged bounce paragraphs, legitimate reports split across two
    writes at a generated offset, unknown letters. Any state change they cause shows up in the ledger (a mark without a report, a freed slot,
    a forged bounce paragraph, a dropped recipient), so every ledger violation of such a history counts for C18; the daemon must stay alive."""
    if ctx.only is not None and "send" not in ctx.only:
        return
    from props import qs_common as q
    # reports of genuine deliveries around and beyond the documented maximum (10000 bytes incl. delivery number and letter): the daemon acts
    # on the truncated report - the failure notice quotes exactly the first 9998 bytes of the text, whatever the pipe chunking
    long_texts = ["a" * 9990, "b" * 9997, "c" * 9998, "d" * 9999, "e" * 10001, "f" * 12000, "g" * 20000, "h" * 10239, "i" * 10240]
    rc = ["u%d@rem.example" % i for i in range(len(long_texts))]
    ctl = {"me": "me.example\n", "locals": "loc.example\n"}
    fixed = [{"controls": ctl, "limits": [120, 120], "messages": [{"sender": "s@rem.example", "rcpts": rc, "body": "x\n"}],
              "scripts": {"0:%d" % i: "D" for i in range(len(rc))}, "bscript": "K", "texts": long_texts, "tape": [], "actions": ["answer", "inject", "advance"],
              "mode": {"kind": "none"}},
             {"controls": dict(ctl, queuelifetime="0\n"), "limits": [120, 120], "messages": [{"sender": "s@rem.example", "rcpts": rc, "body": "x\n"}],
              "scripts": {"0:%d" % i: "ZZ" for i in range(len(rc))}, "bscript": "K", "texts": long_texts, "tape": [], "actions": ["answer", "inject", "advance"],
              "mode": {"kind": "none"}}]
    q.search(ctx, "C18", ("C18", "C03", "C04", "C14"), 40, 600, fixed=fixed)


TOOLS = {"shim": sandbox.SHIM, "standin": sandbox.STANDIN}


def private_tools():
    """Other engineers rebuild shim/vshim.so while checks run; a child started in that window runs without the
    interposer (real uid 0, no chdir redirection) and every oracle misfires.  Each run therefore works with its own
    verified copy of vshim.so and standin under the scratch root."""
    import subprocess, time
    d = os.path.join(vlib.scratch_root(), "tools")
    os.makedirs(d, exist_ok=True)
    shim, standin = os.path.join(d, "vshim.so"), os.path.join(d, "standin")
    why = ""
    for attempt in range(15):
        try:
            shutil.copy2(sandbox.SHIM, shim)
            shutil.copy2(sandbox.STANDIN, standin)
            p = subprocess.run([standin], env={"LD_PRELOAD": shim, "SI_DIR": d, "VSHIM_UID": "4242"}, stdin=subprocess.DEVNULL,
                               stdout=subprocess.PIPE, stderr=subprocess.PIPE, timeout=20)
            meta = [f for f in os.listdir(d) if f.endswith(".meta")]
            ok = p.returncode == 0 and not p.stderr and meta and "uid=4242" in open(os.path.join(d, meta[0])).read()
            for f in os.listdir(d):
                if f not in ("vshim.so", "standin"):
                    os.unlink(os.path.join(d, f))
            if ok:
                TOOLS["shim"], TOOLS["standin"] = shim, standin
                return
            why = "exit %s stderr %r" % (p.returncode, p.stderr[:200])
        except (OSError, subprocess.SubprocessError) as e:
            why = str(e)
        time.sleep(1)
    raise vlib.HarnessError("no loadable copy of the shim / stand-in: " + why)


# =================================================================== part 1: qmail-clean

CLEAN_RE = re.compile(rb"(foop|todo)/([0-9]+)\0", re.S)


def clean_oracle(req, split):
    """req = request bytes including the terminating NUL. -> list of unlink paths for a valid request, None if invalid."""
    m = CLEAN_RE.fullmatch(req)
    if not m or not (7 <= len(req) <= 100):
        return None
    n = int(m.group(2))
    if n >= ULONG:
        return None
    if m.group(1) == b"foop":
        return ["intd/%d" % n, "mess/%d/%d" % (n % split, n)]
    return ["intd/%d" % n, "todo/%d" % n]


def clean_defects(req):
    """Number of independent respects in which a NUL-terminated request is invalid (near miss = 1)."""
    body = req[5:-1]
    d = 0
    if req[:5] not in (b"foop/", b"todo/"):
        d += 1
    if not body or not body.isdigit():
        d += 1
    elif int(body) >= ULONG:
        d += 1
    if len(req) > 100:
        d += 1
    return d


def is_response(ev):
    return ev["call"] in ("write", "pwrite") and ev["a"] and ev["a"][0] == "1"


def is_mutation(ev):
    c = ev["call"]
    if c in ("unlink", "rename", "link", "mkdir", "utimes", "ftruncate", "rmdir"):
        return True
    if c == "open":
        return sandbox.is_mut(ev)
    if c == "write":
        return ev["a"][0] not in ("1", "2")
    return False


def split_stream(stream):
    parts = stream.split(b"\0")
    tail = parts.pop()
    return [p + b"\0" for p in parts], tail


DECOY_DIRS_FLAT = ["intd", "todo", "bounce"]
DECOY_DIRS_SPLIT = ["mess", "info", "local", "remote"]


class CleanRunner:
    def __init__(self, tree, wid):
        self.tree = tree
        self.h = sandbox.Home(tree, os.path.join(vlib.scratch_root(), "c18c-%s" % wid))
        self.q = self.h.queue.encode()
        self.split = self.h.split
        self.env = self.h.env(role="clean", uid=self.h.uids["q"])
        self.env["LD_PRELOAD"] = TOOLS["shim"]
        self.present = set()          # model of every non-directory below queue (relative bytes paths)
        self.dirs = set()             # decoy directories sitting where a file is expected
        self.base_numbers = set()
        self.build_universe()

    # ---- decoys
    def paths_for(self, n):
        s = b"%d" % n
        h = b"%d" % (n % self.split)
        return [b"intd/" + s, b"todo/" + s, b"bounce/" + s] + [d.encode() + b"/" + h + b"/" + s for d in DECOY_DIRS_SPLIT]

    def touch(self, rel):
        if rel in self.present or rel in self.dirs:
            return
        p = os.path.join(self.q, rel)
        try:
            fd = os.open(p, os.O_WRONLY | os.O_CREAT | os.O_EXCL, 0o644)
            os.close(fd)
            self.present.add(rel)
        except OSError:
            pass                       # name too long / not representable: no decoy

    def build_universe(self):
        q = self.q
        self.present = self.walk()         # lock/trigger, lock/sendmutex, lock/tcpto ...
        for d in (b"foop", b"Foop"):
            os.makedirs(os.path.join(q, d), exist_ok=True)
        nums = {7, 12, 23, 24, 46, 100, 255}
        for l in range(1, 6):
            for t in _product(b"019", l):
                nums.add(int(t))
        self.base_numbers = nums
        # directories where files are expected: unlink fails with EISDIR => '!'
        for rel in (b"intd/91", b"mess/%d/19" % (19 % self.split), b"todo/901"):
            os.makedirs(os.path.join(q, rel), exist_ok=True)
            self.dirs.add(rel)
        for n in sorted(nums):
            for rel in self.paths_for(n):
                self.touch(rel)
            if n < 20:
                self.touch(b"foop/%d" % n)
        for l in range(1, 4):
            for t in _product(b"019.a\xff", l):
                if t.isdigit() or t in (b".", b".."):
                    continue
                self.touch(b"intd/" + t)
                self.touch(b"todo/" + t)
                self.touch(b"mess/0/" + t)
                self.touch(b"mess/1/" + t)
        for f in (b"pid/1", b"pid/91", b"pid/12345", b"lock/decoy", b"todoX12", b"foop1"):
            self.touch(f)

    def walk(self):
        out = set()
        stack = [b""]
        q = self.q
        while stack:
            rel = stack.pop()
            with os.scandir(os.path.join(q, rel) if rel else q) as it:
                for e in it:
                    r = rel + b"/" + e.name if rel else e.name
                    if e.is_dir(follow_symlinks=False):
                        if r in self.dirs:
                            continue
                        stack.append(r)
                    else:
                        out.add(r)
        return out

    def numbers_named(self, req):
        """Numbers a sloppy parser could derive from the request: every maximal digit run (also reduced mod 2^64, 2^32)."""
        out = set()
        for run in re.findall(rb"[0-9]+", req):
            if len(run) > 60:
                run = run[-25:]
            n = int(run)
            out.update({n, n % ULONG, n % (1 << 32)})
        return out

    # ---- one process, many requests
    def run_stream(self, stream):
        """-> (violations [(request index or None, message)], requests, tail, inconclusive flag)."""
        reqs, tail = split_stream(stream)
        extra = []
        for r in reqs + [tail]:
            for n in self.numbers_named(r):
                if n not in self.base_numbers:
                    for rel in self.paths_for(n):
                        if rel not in self.present and rel not in self.dirs:
                            self.touch(rel)
                            if rel in self.present:
                                extra.append(rel)
        self.h.clear_trace()
        rc, out, err = sandbox.run_proc([self.tree.path("qmail-clean")], self.env, stdin=stream)
        events = [e for e in self.h.read_trace() if e["key"].endswith(".qmail-clean")]
        viol = []
        if rc is None:
            self.resync(extra)
            return [], reqs, tail, True
        segs = []
        cur = []
        for ev in events:
            if is_response(ev):
                segs.append((cur, ev))
                cur = []
            elif is_mutation(ev):
                cur.append(ev)
        trailing = cur
        expected_gone = set()
        for i, req in enumerate(reqs):
            if i >= len(segs) or i >= len(out):
                viol.append((i, "no status byte for request %r (%d requests, %d status bytes, exit %s)" % (req[:120], len(reqs), len(out), rc)))
                break
            muts, rev = segs[i]
            resp = out[i:i + 1]
            wn = rev["a"][3] if rev["call"] == "write" else rev["a"][1]
            if wn != "1":
                viol.append((i, "request %r answered with %s bytes in one write" % (req[:120], wn)))
                break
            ops = clean_oracle(req, self.split)
            seen = [(e["call"], sandbox.unesc(e["a"][0]) if e["a"] else "") for e in muts]
            if ops is None:
                if muts:
                    viol.append((i, "invalid request %r caused %s" % (req[:120], seen[:4])))
                    break
                if resp != b"x":
                    viol.append((i, "invalid request %r answered %r instead of 'x'" % (req[:120], resp)))
                    break
                continue
            failed = False
            bad = None
            for j, e in enumerate(muts):
                if failed or j >= len(ops) or e["call"] != "unlink" or sandbox.unesc(e["a"][0]) != ops[j]:
                    bad = "request %r: step %d is %s, allowed steps are unlink %s in this order" % (req[:120], j, seen[j], ops)
                    break
                if e["a"][1] == "0":
                    expected_gone.add(ops[j].encode())
                elif int(e["a"][2]) != ENOENT:
                    failed = True
            if bad:
                viol.append((i, bad))
                break
            if failed:
                if resp != b"!":
                    viol.append((i, "request %r: an unlink failed but the answer is %r" % (req[:120], resp)))
                    break
            else:
                if len(muts) != len(ops):
                    viol.append((i, "valid request %r: only %s done" % (req[:120], seen)))
                    break
                if resp != b"+":
                    viol.append((i, "valid request %r answered %r instead of '+'" % (req[:120], resp)))
                    break
        if not viol:
            if len(out) != len(reqs) or len(segs) != len(reqs):
                viol.append((None, "%d requests but %d status bytes (%d writes); tail %r" % (len(reqs), len(out), len(segs), tail[:60])))
            elif trailing:
                viol.append((None, "unterminated request %r at EOF caused %s" % (tail[:120], [(e["call"], e["a"][:1]) for e in trailing][:4])))
        # filesystem: exactly the files whose unlink was legitimate and successful are gone
        actual = self.walk()
        want = self.present - expected_gone
        if not viol and actual != want:
            gone = sorted(want - actual)[:5]
            new = sorted(actual - want)[:5]
            viol.append((None, "queue files differ after the batch: missing %r, unexpected %r" % (gone, new)))
        self.resync(extra, actual)
        return viol, reqs, tail, False

    def resync(self, extra, actual=None):
        """Bring the sandbox back to the base universe."""
        if actual is None:
            actual = self.walk()
        q = self.q
        for rel in actual - self.present:
            try:
                os.unlink(os.path.join(q, rel))
            except OSError:
                pass
        missing = self.present - actual
        self.present -= missing
        for rel in extra:
            if rel in self.present:
                try:
                    os.unlink(os.path.join(q, rel))
                except OSError:
                    pass
                self.present.discard(rel)
        ex = set(extra)
        for rel in missing:
            if rel not in ex:
                self.touch(rel)

    def run_batch(self, stream, stats, label):
        """Run one stream, account one case per request, minimise a violation to a single request if possible."""
        viol, reqs, tail, inc = self.run_stream(stream)
        if inc:
            stats.inconclusive += 1
            return None
        for r in reqs:
            d = clean_defects(r)
            stats.case(scenario={"part": "clean", "stream": vlib.jsonable(r)} if d == 1 and len(stats.samples) < 2 else None,
                       nontrivial=(d == 1), key=r.hex(),
                       classes=[label, "clean_valid" if d == 0 else "clean_defects_%d" % min(d, 3)] +
                       (["clean_number_ge_2^64"] if r[5:-1].isdigit() and int(r[5:-1]) >= ULONG else []) +
                       (["clean_number_ge_2^32"] if r[5:-1].isdigit() and (1 << 32) <= int(r[5:-1]) < ULONG else []) +
                       (["clean_len_gt_100"] if len(r) > 100 else []) + (["clean_len_lt_7"] if len(r) < 7 else []))
        if tail:
            stats.case(nontrivial=True, key="tail:" + tail.hex(), classes=[label, "clean_no_nul_at_eof"])
        if not viol:
            return None
        i, msg = viol[0]
        if i is not None:
            v2, _, _, inc2 = self.run_stream(reqs[i])
            if v2 and not inc2:
                return "%s | alone: %s" % (msg, v2[0][1]), {"part": "clean", "stream": vlib.jsonable(reqs[i])}
            return msg, {"part": "clean", "stream": vlib.jsonable(b"".join(reqs[:i + 1]))}
        return msg, {"part": "clean", "stream": vlib.jsonable(stream)}


def _product(alpha, l):
    if l == 0:
        yield b""
        return
    for t in _product(alpha, l - 1):
        for c in alpha:
            yield t + bytes([c])


BODY_ALPHA = b"019/.a\xff"


def clean_prefixes(seed):
    full = [b"foop/", b"todo/", b"Foop/", b"info/", b"mess/", b"intd/"]
    corrupted = []
    for base in (b"foop/", b"todo/"):
        for pos in range(5):
            for c in (b"X", b"/", b"0"):
                p = base[:pos] + c + base[pos + 1:]
                if p not in full and p not in corrupted and p not in (b"foop/", b"todo/"):
                    corrupted.append(p)
    rnd = random.Random(seed)
    for _ in range(3):
        corrupted.append(bytes(rnd.randrange(1, 256) for _ in range(5)))
    return full, corrupted


def clean_exhaustive_streams(seed, maxlen):
    """Deterministic list of request streams covering the bounded domain (each ~1000 requests)."""
    full, corrupted = clean_prefixes(seed)
    streams = []
    cur = []

    def flush():
        if cur:
            streams.append(b"".join(cur))
            del cur[:]
    for plist, ml in ((full, maxlen), (corrupted, maxlen - 1)):
        for p in plist:
            for l in range(0, ml + 1):
                for body in _product(BODY_ALPHA, l):
                    cur.append(p + body + b"\0")
                    if len(cur) >= 1000:
                        flush()
    flush()
    return streams


def clean_fixed_streams():
    out = []
    big = [1 << 31, (1 << 32) - 1, 1 << 32, (1 << 32) + 1, (1 << 32) + 7, 1 << 63, ULONG - 1, ULONG, ULONG + 1, ULONG + 7, ULONG + 12,
           2 * ULONG + 1, 10 * ULONG + 9, 10 ** 19, 10 ** 20, 10 ** 20 + 1, ULONG * ULONG + 1, 16 * ULONG + 91]
    for p in (b"foop/", b"todo/"):
        s = []
        for n in big:
            s.append(p + b"%d" % n + b"\0")
        for z in (1, 2, 6, 20, 87, 88, 89, 90, 91, 92, 93, 94, 95, 96, 150, 195, 250, 300, 1000):
            for n in (b"1", b"7", b"12", b"0"):
                s.append(p + b"0" * z + n + b"\0")
        for n in (91, 19, 901):            # decoy directories: unlink fails with EISDIR
            s.append(b"foop/%d\0" % n)
            s.append(b"todo/%d\0" % n)
        out.append(b"".join(s))
    short = [b"", b"f", b"fo", b"foo", b"foop", b"foop/", b"todo/", b"todo", b"1", b"/1", b"p/1", b"op/1", b"oop/1", b"odo/1", b"foop/1", b"todo/7"]
    out.append(b"".join(x + b"\0" for x in short))
    # every short request also as the unterminated tail of a stream, alone and after valid requests
    for x in short[1:] + [b"foop/12", b"todo/12", b"foop/" + b"1" * 300]:
        out.append(x)
        out.append(b"foop/1\0todo/7\0" + x)
    # single-request processes for the known near misses
    for x in (b"foop/12ab\0", b"todoX12\0", b"foopX12\0", b"foop/12/\0", b"foop/1 \0", b"foop/ 1\0", b"foop/+1\0", b"foop/-1\0",
              b"foop/1\n\0", b"foop/0x1\0", b"todo/1.\0", b"foop/../intd/1\0", b"foop//1\0", b"todo/12a\0"):
        out.append(x)
    # stream behaviour: > 30 requests (pid/ scan every 31st), alternating valid / invalid
    out.append(b"".join((b"foop/%d\0" % (i % 10) if i % 3 else b"fooq/%d\0" % (i % 10)) for i in range(200)))
    return out


digits = st.text(alphabet="0123456789", min_size=1, max_size=22).map(lambda s: s.encode())
SPECIAL_NUM = [0, 1, 7, 12, 19, 91, 99999, 1 << 31, (1 << 32) + 1, ULONG - 1, ULONG, ULONG + 1, ULONG + 7, 10 ** 20, 3 * ULONG + 12]
body = st.one_of(
    digits, digits,
    st.sampled_from(SPECIAL_NUM).map(lambda n: b"%d" % n),
    st.builds(lambda z, n: b"0" * z + n, st.sampled_from([1, 5, 80, 90, 93, 94, 95, 96, 120, 300]), st.sampled_from([b"1", b"7", b"12"])),
    st.lists(st.sampled_from([b"0", b"1", b"9", b"7", b"/", b".", b"a", b"\xff", b" ", b"-", b"\n"]), max_size=8).map(b"".join),
    st.builds(lambda a, j: a + j, digits, st.sampled_from([b"a", b"/", b".", b" ", b"\xff", b"/1", b"ab"])),
)
prefix = st.one_of(st.sampled_from([b"foop/", b"todo/"]), st.sampled_from([b"foop/", b"todo/"]),
                   st.sampled_from([b"foop/", b"todo/", b"todoX", b"foopX", b"Foop/", b"TODO/", b"info/", b"mess/", b"intd/", b"tod/", b"foop", b"fooq/", b"todn/", b"\xffoop/"]),
                   st.binary(min_size=5, max_size=5).map(lambda b: b.replace(b"\0", b"Z")))
clean_request = st.builds(lambda p, b: p + b + b"\0", prefix, body)
clean_stream = st.builds(lambda rs, t: vlib.jsonable(b"".join(rs) + t),
                         st.one_of(st.lists(clean_request, min_size=1, max_size=1), st.lists(clean_request, min_size=1, max_size=40)),
                         st.one_of(st.just(b""), st.just(b""), st.builds(lambda p, b: p + b, prefix, body)))


# =================================================================== part 2: the spawners

class SpawnRunner:
    def __init__(self, tree, wid):
        self.tree = tree
        self.h = h = sandbox.Home(tree, os.path.join(vlib.scratch_root(), "c18s-%s" % wid))
        h.link_bins(overrides={"qmail-local": TOOLS["standin"]})
        self.rec = os.path.join(h.dir, "rec")
        self.mess = os.path.join(h.queue, "mess")
        self.auto_spawn = int(tree.conf("conf-spawn"))
        m = re.search(r"int\s+truncreport\s*=\s*(\d+)", open(tree.path("qmail-lspawn.c")).read())
        self.trunc = int(m.group(1)) if m else 0
        self.quid = h.uids["q"]
        self.good = {}                 # content -> relative name, for regular files owned by qmailq
        self.layout()

    def regular(self, rel, owner, mode=0o644, base=None):
        p = os.path.join(base or self.mess, rel)
        c = ("MESSAGE %s owner %d\n" % (rel, owner)).encode()
        with open(p, "wb") as f:
            f.write(c)
        os.chown(p, owner, -1)
        os.chmod(p, mode)
        if owner == self.quid:
            self.good[c] = rel
        return p

    def layout(self):
        h = self.h
        q = self.quid
        self.regular("1/1", q)
        self.regular("2/25", q)
        self.regular("0/23", q, 0o600)
        self.regular("3/3", 0)
        self.regular("4/4", h.uids["a"])
        os.makedirs(os.path.join(self.mess, "5/5"))
        os.chown(os.path.join(self.mess, "5/5"), q, -1)
        os.mkfifo(os.path.join(self.mess, "6/6"))
        os.chown(os.path.join(self.mess, "6/6"), q, -1)
        self.regular("77", q, base=os.path.join(h.queue, "intd"))
        os.symlink("../../intd/77", os.path.join(self.mess, "7/7"))
        os.symlink(os.path.join(self.mess, "3/3"), os.path.join(self.mess, "8/8"))
        os.symlink("nowhere", os.path.join(self.mess, "9/9"))
        self.regular("12345", q)
        # valid files under non-numeric names: must never be opened
        for rel in ("abc", "1/1a", "1/.1", "1/a1", "1/1.2", "1/ 1", "1/-1", "1/+1", "1/1\xff"):
            try:
                self.regular(rel, q)
            except (OSError, UnicodeError):
                pass

    def stream(self, sc):
        out = b""
        cmds = []
        for i, c in enumerate(sc["cmds"]):
            m = vlib.unjson(c["m"]).replace(b"\0", b"")
            s = vlib.unjson(c["s"]).replace(b"\0", b"")
            r = b"c%d-" % i + vlib.unjson(c["r"]).replace(b"\0", b"")
            out += bytes([c["d"] & 255]) + m + b"\0" + s + b"\0" + r + b"\0"
            cmds.append((c["d"] & 255, m, s, r))
        t = sc.get("tail", 0)
        if t:
            parts = [b"\x03", b"1/1", b"\0", b"s@x", b"\0", b"c99-r@host"]
            out += b"".join(parts[:t])         # 1: delivery number only ... 6: everything but the final NUL
        return out, cmds

    def classify(self, d, m, r):
        """Set of defects of one command (empty = the spawner must start a child)."""
        defects = set()
        if d >= self.auto_spawn:
            defects.add("delnum_big")
        if b"@" not in r:
            defects.add("no_at")
        if not re.fullmatch(rb"[0-9][0-9/]*", m):
            defects.add("id_empty" if m == b"" else "id_nonnumeric")
        elif len(m) + 1 > 100:
            defects.add("id_too_long")
        else:
            p = os.path.join(self.mess.encode(), m)
            try:
                lst = os.lstat(p)
                st_ = os.stat(p)
                if stat.S_ISLNK(lst.st_mode):
                    defects.add("id_symlink")       # judged by the target below
                if stat.S_ISDIR(st_.st_mode):
                    defects.add("id_directory")
                elif stat.S_ISFIFO(st_.st_mode):
                    defects.add("id_fifo")
                elif not stat.S_ISREG(st_.st_mode):
                    defects.add("id_special")
                elif st_.st_uid != self.quid:
                    defects.add("id_wrong_owner")
            except OSError:
                defects.add("id_missing")
        return defects

    def run(self, sc, stats):
        which = sc["which"]
        stream, cmds = self.stream(sc)
        h = self.h
        shutil.rmtree(self.rec, ignore_errors=True)
        ch = sc.get("child", {})
        senv = sandbox.standin_env(self.rec, read="0", exit=ch.get("exit", 0), kill=ch.get("kill"),
                                   out=vlib.unjson(ch["out"]) if ch.get("out") is not None else None)
        if which == "l":
            prog = "qmail-lspawn"
            env = h.env(role="spawn", uid=0, **senv)
            argv = [self.tree.path(prog), "./Mailbox"]
        else:
            prog = "qmail-rspawn"
            env = h.env(role="spawn", uid=h.uids["r"], QMAILREMOTE=TOOLS["standin"], **senv)
            argv = [self.tree.path(prog)]
        env["LD_PRELOAD"] = TOOLS["shim"]
        h.clear_trace()
        sw = sc.get("swap")
        if sw:
            # another process renames a regular qmailq-owned file over the name right after the spawner opened the (foreign-owned) file:
            # what counts is the file the spawner holds open, not what the name refers to a moment later
            src = os.path.join(h.dir, "swap-src")
            c = b"MESSAGE swapped-in owner %d\n" % self.quid
            with open(src, "wb") as f:
                f.write(c)
            os.chown(src, self.quid, -1)
            self.good[c] = sw["victim"]
            env["VSHIM_SWAPOPEN"] = "%s|%s|%s" % (prog, sw["victim"], src)
        stuck = []
        try:
            if sc.get("forkdelay"):
                env["VSHIM_FORKDELAY"] = "%s:%d" % (prog, sc["forkdelay"])
            if sc.get("spfault"):
                # one call of the spawner itself fails (pipe, fork, open or fstat of the message file, a read of the command stream): the
                # command it hits still gets exactly one report with its own number, the others are served as usual
                env["VSHIM_FAULT"] = "%s:%s:%d:%s" % (prog, sc["spfault"][0], sc["spfault"][1], sc["spfault"][2])
                env["VSHIM_FAULT_GEN"] = "0"
            rc, out, err = sandbox.run_proc(argv, env, stdin=stream, timeout=20 + (8 if sc.get("forkdelay") else 0),
                                            on_timeout=lambda pid: stuck.extend([sandbox.stuck_with_zombies(pid), sandbox.stuck_without_children(pid)]))
        finally:
            if sw:
                p_ = os.path.join(self.mess, sw["victim"])
                if os.path.exists(p_):
                    os.unlink(p_)
                self.regular(sw["victim"], 0 if sw["owner"] == "root" else h.uids[sw["owner"]])
                if os.path.exists(src):
                    os.unlink(src)
        cls = ["spawn_" + which, "spawn_tail_%d" % sc.get("tail", 0)]
        near = False
        for d, m, s, r in cmds:
            df = self.classify(d, m, r)
            cls += ["cmd_" + x for x in df] or ["cmd_valid"]
            if len(df - {"id_symlink"}) == 1 or df == {"id_symlink"}:
                near = True
            if len(s) > 5000 or len(r) > 5000 or len(m) > 5000:
                cls.append("cmd_10k_field")
        if rc is None:
            if stuck and stuck[0] > 0:
                # not a matter of time: the spawner sleeps while %d of its children are dead and unreaped - no further SIGCHLD will ever come,
                # their reports are never written and the spawner never ends
                stats.case(scenario=sc, nontrivial=True, classes=sorted(set(cls)) + ["spawner_stuck_with_unreaped_children"])
                return ("%s sleeps for ever with %d dead children it never reaped (their deliveries get no report): every well-formed command "
                        "must be answered with exactly one report" % (prog, stuck[0]))
            if len(stuck) > 1 and stuck[1] and cmds:
                # the whole command stream was there from the start (a file), no child is left, alive or dead, and the spawner sleeps:
                # nothing can wake it again, the deliveries it forgot get no report and it never ends
                stats.case(scenario=sc, nontrivial=True, classes=sorted(set(cls)) + ["spawner_stuck_without_children"])
                return ("%s sleeps for ever although all its children are gone and its input is at end of file (a finished delivery was not noticed): "
                        "every well-formed command must be answered with exactly one report" % prog)
            stats.inconclusive += 1
            return None
        stats.case(scenario=sc, nontrivial=near, classes=sorted(set(cls)))
        if ch.get("out") is not None and b"\0" in vlib.unjson(ch["out"]):
            stats.cls("child_output_with_nul")
        ev = h.read_trace()
        main = None
        for e in ev:
            if e["key"].endswith("." + prog):
                main = e["pid"]
                break
        if main is None:
            return "%s left no trace (exit %s, stderr %r)" % (prog, rc, err[:100])
        started = False
        last_open = None
        forks = 0
        for e in ev:
            if e["pid"] != main:
                continue
            if not started:
                if is_response(e):
                    started = True
                continue
            if e["call"] == "open":
                p = sandbox.unesc(e["a"][0])
                if not re.fullmatch(r"[0-9][0-9/]*", p):
                    return "%s opened %r (message ids are digits and '/' only, not starting with '/')" % (prog, p)
                last_open = p if int(e["a"][2]) >= 0 else None
            elif e["call"] == "fork":
                forks += 1
                if last_open is None:
                    return "%s started a child without having opened a message file" % prog
                try:
                    st_ = os.stat(os.path.join(self.mess, last_open))
                    ok = stat.S_ISREG(st_.st_mode) and st_.st_uid == self.quid
                    what = "mode %o owner %d" % (st_.st_mode, st_.st_uid)
                except OSError as x:
                    ok, what = False, str(x)
                if not ok:
                    return "%s started a child for %r which is not a regular file owned by qmailq (%s)" % (prog, last_open, what)
                last_open = None
        recs = sandbox.standin_records(self.rec)
        for r_ in recs:
            if r_.get("fd0") not in self.good:
                return "%s ran a child whose descriptor 0 is not a regular qmailq-owned message file: read %r" % (prog, (r_.get("fd0") or b"")[:60])
        if len(recs) > forks:
            return "%d children ran but only %d forks were seen" % (len(recs), forks)
        stats.cls("children_started", len(recs))
        # reports
        if not out:
            return "%s wrote nothing" % prog
        rep = out[1:]
        got = []
        pos = 0
        while pos < len(rep):
            z = rep.find(b"\0", pos + 1)
            if z < 0:
                return "%s: output ends inside a report: %r" % (prog, rep[pos:pos + 80])
            got.append((rep[pos], rep[pos + 1:z]))
            pos = z + 1
        want = sorted(c[0] for c in cmds)
        have = sorted(g[0] for g in got)
        if want != have:
            return "%s: %d complete commands with delivery numbers %s but reports for %s | %r" % (prog, len(cmds), want[:20], have[:20], rep[:200])
        if which == "l" and self.trunc > 100:
            for d, t in got:
                if len(t) > self.trunc + 1:
                    return "qmail-lspawn report of %d bytes (truncreport %d)" % (len(t), self.trunc)
        for d, t in got:
            if t[:1] in (b"K", b"Z", b"D"):
                stats.cls("report_" + t[:1].decode())
            if b"in use" in t:
                stats.cls("report_delnum_in_use")
        return None


KNOWN_IDS = [b"1/1", b"2/25", b"0/23", b"12345", b"3/3", b"4/4", b"5/5", b"5", b"5/", b"6/6", b"7/7", b"8/8", b"9/9", b"1/2", b"22/22", b"",
             b"abc", b"1/1a", b"1/.1", b"1/a1", b"1/1.2", b"1/ 1", b"1/-1", b"1/+1", b"1/1\xff", b"./1/1", b"1/./1", b"1/../1/1", b"../intd/77",
             b"../mess/1/1", b"/1/1", b"/", b"//1/1", b"1//1", b"1/1/", b"01/1", b"1/01", b"1/1 ", b" 1/1", b"1/1\n", b"1\\1", b"..", b".",
             b"1/1/../1", b"0", b"/etc/passwd", b"1/1\x01", b"\xb1/1"]


def long_ids():
    out = []
    for n in (97, 98, 99, 100, 101, 150, 1000, 10000):
        out.append(b"1/" + b"0" * (n - 3) + b"1")       # n bytes, numerically "1/1"-like but a different name
        out.append(b"1/1" + b"/" * (n - 3))
    return out


def spawn_sweep():
    """Deterministic command streams: every prepared id x boundary delivery numbers; all delivery numbers."""
    out = []
    j = vlib.jsonable
    ids = KNOWN_IDS + long_ids()
    for which in ("l", "r"):
        for k, m in enumerate(ids):
            cmds = [{"d": d, "m": j(m), "s": j(b"s@x"), "r": j(b"r@host")} for d in (0, 119, 120, 255)]
            cmds.append({"d": 7, "m": j(m), "s": j(b""), "r": j(b"nohost")})
            out.append({"part": "spawn", "which": which, "cmds": cmds, "tail": k % 7, "child": {"exit": [0, 100, 111][k % 3], "out": j(b"report\n")}})
        for lo in range(0, 256, 16):
            cmds = [{"d": d, "m": j(b"1/1"), "s": j(b"s@x"), "r": j(b"r@host")} for d in range(lo, lo + 16)]
            cmds += [{"d": lo, "m": j(b"2/25"), "s": j(b"s@x"), "r": j(b"r@host")}]      # delivery number already in use (if < conf-spawn)
            out.append({"part": "spawn", "which": which, "cmds": cmds, "tail": 0, "child": {"exit": 0, "out": j(b"Kok\0" if which == "r" else b"ok\n")}})
        for o in (b"", b"a\0b\0c\0", b"\0", b"x" * 4000, b"y" * 2999 + b"\0z", b"rr\0Kk\0", b"h\0Zz\0", b"s\0Dd\0", b"Kno nul", b"r\0Kfoo", b"\0\0\0K\0"):
            for ex in (0, 100, 111, 1):
                cmds = [{"d": 5, "m": j(b"1/1"), "s": j(b"s@x"), "r": j(b"r@host")}, {"d": 6, "m": j(b"3/3"), "s": j(b"s@x"), "r": j(b"r@host")}]
                out.append({"part": "spawn", "which": which, "cmds": cmds, "tail": 2, "child": {"exit": ex, "out": j(o)}})
        out.append({"part": "spawn", "which": which, "cmds": [{"d": 1, "m": j(b"1/1"), "s": j(b"s@x"), "r": j(b"r@host")}], "tail": 0,
                    "child": {"exit": 0, "kill": 11, "out": j(b"dying\n")}})
        # every early call of the spawner failing once, with three valid commands pending
        for cls, ks, er in (("pipe", range(4), "24"), ("fork", range(3), "11"), ("open", range(4), "23"), ("fstat", range(3), "5"), ("read", range(1, 3), "4")):
            for k in ks:
                cmds = [{"d": d, "m": j(m), "s": j(b"s@x"), "r": j(b"r@host")} for d, m in ((7, b"1/1"), (8, b"2/25"), (9, b"0/23"))]
                out.append({"part": "spawn", "which": which, "cmds": cmds, "tail": 0, "child": {"exit": 0, "out": j(b"Kok\0" if which == "r" else b"ok\n")},
                            "spfault": [cls, k, er]})
        # the parent is held up after each fork(): the delivery child finishes before the spawner has noted its pid
        for n in (1, 3):
            cmds = [{"d": d, "m": j(b"1/1"), "s": j(b"s@x"), "r": j(b"r@host")} for d in range(n)]
            out.append({"part": "spawn", "which": which, "cmds": cmds, "tail": 0, "child": {"exit": 0, "out": j(b"Kok\0" if which == "r" else b"ok\n")}, "forkdelay": 120})
        # the name of a foreign-owned message file is re-pointed at a good file between the spawner's open() and its next call
        for victim in ("4/4", "3/3"):
            for cmds in ([{"d": 1, "m": j(victim.encode()), "s": j(b"s@x"), "r": j(b"r@host")}],
                         [{"d": 2, "m": j(b"1/1"), "s": j(b"s@x"), "r": j(b"r@host")}, {"d": 3, "m": j(victim.encode()), "s": j(b"s@x"), "r": j(b"r@host")},
                          {"d": 4, "m": j(b"2/25"), "s": j(b"s@x"), "r": j(b"r@host")}]):
                out.append({"part": "spawn", "which": which, "cmds": cmds, "tail": 0, "child": {"exit": 0, "out": j(b"Kok\0" if which == "r" else b"ok\n")},
                            "swap": {"victim": victim, "owner": "a" if victim == "4/4" else "root"}})
        out.append({"part": "spawn", "which": which, "cmds": [{"d": 1, "m": j(b"1/1"), "s": j(b"S" * 10000), "r": j(b"R" * 10000 + b"@" + b"h" * 10000)},
                                                               {"d": 2, "m": j(b"7" * 10000), "s": j(b"s"), "r": j(b"r@h")}], "tail": 5,
                    "child": {"exit": 0, "out": j(b"ok")}})
    return out


idbytes = st.one_of(
    st.sampled_from(KNOWN_IDS), st.sampled_from(KNOWN_IDS[:12]), st.sampled_from(KNOWN_IDS[:4]),
    st.lists(st.sampled_from([b"0", b"1", b"2", b"5", b"/", b"/", b".", b"a", b"\xff", b"3"]), max_size=7).map(b"".join),
    st.builds(lambda a, b: a + b, st.sampled_from([b"1/1", b"2/25", b"3/3", b"5/5"]), st.sampled_from([b"/", b"a", b".", b"/.", b"/..", b" ", b"0", b"//"])),
    st.sampled_from(long_ids()),
)
fieldbytes = st.one_of(st.sampled_from([b"s@x", b"", b"a b@c", b"\xff\xfe@h", b"#@[]"]), st.binary(max_size=10),
                       st.builds(lambda n: b"L" * n, st.sampled_from([1000, 1023, 1024, 1025, 10000])))
recipbytes = st.one_of(st.sampled_from([b"r@host", b"r@host", b"r@host", b"@host", b"nohost", b"", b"a@b@c", b"r@", b"-ext@host", b"R@HOST"]),
                       st.builds(lambda n: b"L" * n + b"@h", st.sampled_from([1000, 10000])), st.binary(max_size=8))
delnum = st.one_of(st.integers(0, 119), st.integers(0, 255), st.sampled_from([0, 1, 118, 119, 120, 121, 127, 128, 254, 255]))
spawn_cmd = st.fixed_dictionaries({"d": delnum, "m": idbytes.map(vlib.jsonable), "s": fieldbytes.map(vlib.jsonable), "r": recipbytes.map(vlib.jsonable)})
child = st.fixed_dictionaries({"exit": st.sampled_from([0, 0, 100, 111, 1, 99]), "kill": st.sampled_from([None, None, None, None, 11]),
                               "out": st.one_of(st.sampled_from([b"", b"ok\n", b"a\0b", b"\0", b"x" * 3500, b"r\0Kk\0", b"h\0Zz\0", b"Kno", b"r\0Kfoo"]),
                                                st.binary(max_size=12)).map(vlib.jsonable)})
spawn_scenario = st.fixed_dictionaries({"part": st.just("spawn"), "which": st.sampled_from(["l", "r"]), "cmds": st.lists(spawn_cmd, max_size=12),
                                        "tail": st.integers(0, 6), "child": child})


# =================================================================== driver

def regress_inputs():
    out = []
    d = os.path.join(vlib.VERIF, "corpus", "C18", "regress")
    if os.path.isdir(d):
        for f in sorted(os.listdir(d)):
            if f.endswith(".json"):
                sc = json.load(open(os.path.join(d, f)))
                out.append(sc.get("scenario", sc))
    return out


def run_one(tree, sc, stats, wid, cache={}):
    """Execute one saved scenario of either part. -> None | (msg, scenario)"""
    if sc["part"] == "clean":
        r = cache.get(("c", wid)) or cache.setdefault(("c", wid), CleanRunner(tree, wid))
        return r.run_batch(vlib.unjson(sc["stream"]), stats, "clean_replayed")
    r = cache.get(("s", wid)) or cache.setdefault(("s", wid), SpawnRunner(tree, wid))
    v = r.run(sc, stats)
    return (v, sc) if v else None


def debug_log(msg, sc):
    p = os.environ.get("VERIF_DEBUG_LOG")
    if p and msg:
        with open(p, "a") as f:
            f.write(json.dumps({"msg": msg, "scenario": vlib.jsonable(sc)}) + "\n")


def worker(job):
    kind, tree, wid, arg = job
    stats = vlib.Stats()
    if kind == "clean_streams":
        r = CleanRunner(tree, wid)
        for label, s in arg:
            v = r.run_batch(s, stats, label)
            if v:
                # DESIGN.md section 1: a violation counts only if it reproduces (a concurrent rebuild of the shim, an
                # overloaded machine ... must never surface as a violation)
                again = [r.run_batch(vlib.unjson(v[1]["stream"]), vlib.Stats(), label) for _ in range(2)]
                if all(again):
                    stats.violations.append(v)
                    break
                stats.inconclusive += 1
                stats.cls("flaky_unreproducible")
    elif kind == "clean_hyp":
        seed, n = arg
        r = CleanRunner(tree, wid)
        found = {}

        def runfn(sc, stats):
            try:
                v = r.run_batch(vlib.unjson(sc), stats, "clean_random")
            except Exception:
                import traceback
                debug_log("EXC " + traceback.format_exc(), sc)
                raise
            if v:
                found["v"] = v
                debug_log(v[0], sc)
                return v[0]
        vlib.hyp_search(clean_stream, runfn, n, seed, stats)
        if stats.violations and "v" in found:
            stats.violations = [found["v"]]
    elif kind == "spawn_list":
        r = SpawnRunner(tree, wid)
        for sc in arg:
            v = r.run(sc, stats)
            if v:
                if all([r.run(sc, vlib.Stats()) for _ in range(2)]):
                    stats.violations.append((v, sc))
                    break
                stats.inconclusive += 1
                stats.cls("flaky_unreproducible")
    elif kind == "spawn_hyp":
        seed, n = arg
        r = SpawnRunner(tree, wid)

        def runsp(sc, stats):
            try:
                v = r.run(sc, stats)
            except Exception:
                import traceback
                debug_log("EXC " + traceback.format_exc(), sc)
                raise
            debug_log(v, sc)
            return v
        vlib.hyp_search(spawn_scenario, runsp, n, seed, stats)
    return stats


REQUIRED_CLASSES = ["clean_exhaustive", "clean_fixed", "clean_random", "clean_valid", "clean_defects_1", "clean_number_ge_2^64", "clean_number_ge_2^32",
                    "clean_len_gt_100", "clean_len_lt_7", "clean_no_nul_at_eof", "spawn_l", "spawn_r", "cmd_valid", "cmd_id_nonnumeric",
                    "cmd_id_too_long", "cmd_id_directory", "cmd_id_fifo", "cmd_id_symlink", "cmd_id_wrong_owner", "cmd_id_missing",
                    "cmd_delnum_big", "cmd_no_at", "cmd_10k_field", "children_started", "spawn_tail_1", "spawn_tail_6", "child_output_with_nul"]


def run(ctx):
    sandbox.ensure_shim()
    private_tools()
    tree = vlib.Tree().make("qmail-clean", "qmail-lspawn", "qmail-rspawn", "qmail-getpw")
    only = getattr(ctx, "only", None)
    nw = vlib.NCPU
    jobs = []
    if not only or "clean" in only:
        streams = [("clean_fixed", s) for s in clean_fixed_streams()]
        streams += [("clean_exhaustive", s) for s in clean_exhaustive_streams(ctx.seed, ctx.n(5, 6))]
        reg = [("clean_regress", vlib.unjson(sc["stream"])) for sc in regress_inputs() if sc.get("part") == "clean"]
        streams = reg + streams
        ctx.notes["clean_exhaustive_bound"] = "prefix x body over {0,1,9,/,.,a,0xFF}, body length <= 5 (<= 4 for corrupted prefixes)"
        for i in range(nw):
            jobs.append(("clean_streams", tree, "cs%d" % i, streams[i::nw]))
        n = int(os.environ.get("C18_N", ctx.n(1500, 30000)))
        for i in range(nw):
            jobs.append(("clean_hyp", tree, "ch%d" % i, (vlib.subseed(ctx.seed, "c18clean", i), n)))
    if not only or "spawn" in only:
        sw = [sc for sc in regress_inputs() if sc.get("part") == "spawn"] + spawn_sweep()
        for i in range(nw):
            jobs.append(("spawn_list", tree, "sl%d" % i, sw[i::nw]))
        n = int(os.environ.get("C18_N", ctx.n(1200, 24000)))
        for i in range(nw):
            jobs.append(("spawn_hyp", tree, "sh%d" % i, (vlib.subseed(ctx.seed, "c18spawn", i), n)))
    ctx.stats.merge(vlib.run_workers(worker, jobs))
    ctx.exhaustive = False
    if not ctx.stats.violations and not only:
        starved = [c for c in REQUIRED_CLASSES if not ctx.stats.classes.get(c)]
        if starved:
            raise vlib.HarnessError("GENERATOR-STARVED classes with no case: %s" % starved)
    extra_parts(ctx)


def replay(ctx, path):
    sandbox.ensure_shim()
    private_tools()
    tree = vlib.Tree().make("qmail-clean", "qmail-lspawn", "qmail-rspawn", "qmail-getpw")
    sc = json.load(open(path))
    sc = sc.get("scenario", sc)
    if isinstance(sc, dict) and "controls" in sc and "messages" in sc:
        # third part: a history of the driven world (hostile or oversized reports on qmail-send's report channels)
        from props import qs_common as q
        return q.replay_scenario(ctx, path, ("C18", "C03", "C04", "C14"))
    v = run_one(tree, sc, ctx.stats, "replay")
    return [v[0]] if v else []
