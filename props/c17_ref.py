"""C17 reference side: an RFC 822 tokenizer / address-list parser written from the RFC (independent of token822.c) and the
documented rewriting of qmail-header.5 / qmail-inject.8.  Nothing here looks at notqmail's code or output format."""

SPECIALS = b"()<>@,;:\\\".[]"


class ParseError(Exception):
    pass


def tokenize(b):
    """RFC 822 3.1-3.4 lexical analysis of a structured field body. -> list of (type, value)
    types: 'atom', 'quote', 'lit', 'comment' (value = content bytes, quoted-pairs resolved) or the special character itself (str)."""
    out = []
    i, n = 0, len(b)
    while i < n:
        c = b[i:i + 1]
        if c in b" \t\r\n":
            i += 1
            continue
        if c == b"(":
            depth, i = 1, i + 1
            buf = b""
            while depth:
                if i >= n:
                    raise ParseError("unterminated comment")
                c = b[i:i + 1]
                if c == b"\\":
                    if i + 1 >= n:
                        raise ParseError("dangling backslash")
                    buf += b[i + 1:i + 2]
                    i += 2
                    continue
                if c == b"(":
                    depth += 1
                elif c == b")":
                    depth -= 1
                    if not depth:
                        i += 1
                        break
                buf += c
                i += 1
            out.append(("comment", buf))
            continue
        if c == b'"' or c == b"[":
            close = b'"' if c == b'"' else b"]"
            i += 1
            buf = b""
            while True:
                if i >= n:
                    raise ParseError("unterminated %s" % ("quoted-string" if close == b'"' else "domain-literal"))
                c = b[i:i + 1]
                if c == b"\\":
                    if i + 1 >= n:
                        raise ParseError("dangling backslash")
                    buf += b[i + 1:i + 2]
                    i += 2
                    continue
                if c == close:
                    i += 1
                    break
                if close == b"]" and c == b"[":
                    raise ParseError("'[' inside domain-literal")
                buf += c
                i += 1
            out.append(("quote" if close == b'"' else "lit", buf))
            continue
        if c in SPECIALS:
            if c in b")]\\":
                raise ParseError("stray %r" % c)
            out.append((c.decode(), None))
            i += 1
            continue
        j = i
        while j < n and b[j:j + 1] not in SPECIALS and b[j:j + 1] not in b" \t\r\n":
            if b[j] < 33 or b[j] > 126:
                raise ParseError("byte %#x in an atom" % b[j])
            j += 1
        out.append(("atom", b[i:j]))
        i = j
    return out


def _addrspec(toks):
    """toks: tokens of one addr-spec (no comments). -> (local, domain or None)"""
    if not toks:
        raise ParseError("empty addr-spec")
    at = [k for k, t in enumerate(toks) if t[0] == "@"]
    if len(at) > 1:
        raise ParseError("two @ in addr-spec")
    lt = toks[:at[0]] if at else toks
    dt = toks[at[0] + 1:] if at else None

    def words(ts, kinds, what):
        vals = []
        want_word = True
        for t in ts:
            if want_word:
                if t[0] not in kinds:
                    raise ParseError("%s: %r where a word was expected" % (what, t))
                vals.append(b"[" + t[1] + b"]" if t[0] == "lit" else t[1])
            else:
                if t[0] != ".":
                    raise ParseError("%s: %r where '.' was expected (missing comma?)" % (what, t))
            want_word = not want_word
        if want_word:
            raise ParseError("%s ends with a dot or is empty" % what)
        return b".".join(vals)
    local = words(lt, ("atom", "quote"), "local-part")
    domain = words(dt, ("atom", "lit"), "domain") if dt is not None else None
    return local, domain


def _routeaddr(toks):
    """toks between < and >. -> mailbox"""
    if toks and toks[0][0] == "@":
        cols = [k for k, t in enumerate(toks) if t[0] == ":"]
        if not cols:
            raise ParseError("route without ':'")
        route = toks[:cols[0]]
        # route = 1#("@" domain)
        for part in _split(route, ","):
            if not part or part[0][0] != "@":
                raise ParseError("bad route")
            _addrspec([("atom", b"x")] + part)
        toks = toks[cols[0] + 1:]
    return _addrspec(toks)


def _split(toks, sep):
    out, cur = [], []
    for t in toks:
        if t[0] == sep:
            out.append(cur)
            cur = []
        else:
            cur.append(t)
    out.append(cur)
    return out


def _mailbox(toks):
    """one mailbox: addr-spec | [phrase] route-addr"""
    lefts = [k for k, t in enumerate(toks) if t[0] == "<"]
    if not lefts:
        return _addrspec(toks)
    k = lefts[0]
    for t in toks[:k]:
        if t[0] not in ("atom", "quote"):
            raise ParseError("%r in a phrase" % (t,))
    if toks[-1][0] != ">":
        raise ParseError("text after '>' (missing comma?)")
    inner = toks[k + 1:-1]
    if any(t[0] in "<>" for t in inner):
        raise ParseError("nested angle brackets")
    return _routeaddr(inner)


def parse_addrlist(body):
    """Field body (bytes after the colon) -> list of mailboxes [(local, domain or None)] in order. Strict RFC 822 #address
    (null elements allowed); group = phrase ':' [#mailbox] ';'."""
    toks = [t for t in tokenize(body) if t[0] != "comment"]
    out = []
    i, n = 0, len(toks)
    while i < n:
        if toks[i][0] == ",":
            i += 1
            continue
        # extent of this address: up to the next top-level comma
        j = i
        depth = 0
        ingroup = False
        while j < n:
            t = toks[j][0]
            if t == "<":
                depth += 1
            elif t == ">":
                depth -= 1
                if depth < 0:
                    raise ParseError("unbalanced '>'")
            elif depth == 0 and t == ":":
                if ingroup:
                    raise ParseError("':' inside a group")
                ingroup = True
            elif depth == 0 and t == ";":
                if not ingroup:
                    raise ParseError("';' outside a group")
                ingroup = False
                j += 1
                break
            elif depth == 0 and t == "," and not ingroup:
                break
            j += 1
        if depth or ingroup:
            raise ParseError("unterminated route-addr or group")
        el = toks[i:j]
        if j < n and toks[j][0] != ",":
            raise ParseError("%r directly after a group (missing comma)" % (toks[j],))
        i = j
        cols = [k for k, t in enumerate(el) if t[0] == ":" and not any(x[0] == "<" for x in el[:k])]
        if el and el[-1][0] == ";" and cols:
            k = cols[0]
            if not k:
                raise ParseError("group without a name")
            for t in el[:k]:
                if t[0] not in ("atom", "quote"):
                    raise ParseError("%r in a group name" % (t,))
            # split the inside at commas that are not inside angle brackets
            inner, cur, d = [], [], 0
            for t in el[k + 1:-1]:
                if t[0] == "<":
                    d += 1
                elif t[0] == ">":
                    d -= 1
                if t[0] == "," and d == 0:
                    inner.append(cur)
                    cur = []
                else:
                    cur.append(t)
            inner.append(cur)
            for part in inner:
                if part:
                    out.append(_mailbox(part))
        else:
            out.append(_mailbox(el))
    return out


def split_header(msg):
    """message bytes -> ([(name_lower, name, body_bytes, raw_field)], body or None). Header ends at the first empty line."""
    fields = []
    pos = 0
    cur = None
    rest = None
    while pos < len(msg):
        e = msg.find(b"\n", pos)
        if e < 0:
            e = len(msg) - 1
        line = msg[pos:e + 1]
        if line == b"\n":
            rest = msg[e + 1:]
            break
        if line[:1] in b" \t" and cur is not None:
            cur += line
        else:
            if cur is not None:
                fields.append(cur)
            cur = line
        pos = e + 1
    if cur is not None:
        fields.append(cur)
    out = []
    for f in fields:
        c = f.find(b":")
        if c <= 0:
            raise ParseError("header line without a field name: %r" % f[:60])
        name = f[:c].rstrip(b" \t")
        out.append((name.lower(), name, f[c + 1:], f))
    return out, rest


# ------------------------------------------------------------------ documented rewriting (qmail-header.5, qmail-inject.8)

def is_literal(d):
    return d.startswith(b"[")


def rewrite(mbox, ctl):
    """mbox = (local, domain or None); ctl = {'defaulthost','defaultdomain','plusdomain'} (bytes). -> envelope address bytes"""
    local, dom = mbox
    if dom is None:
        dom = ctl["defaulthost"]                 # "If qmail-inject sees a lone box name it adds the default host name"
    if is_literal(dom):
        pass                                     # "A host name may be a dotted-decimal address"
    elif dom.endswith(b"+"):
        dom = dom[:-1] + b"." + ctl["plusdomain"]  # "appends the plus domain name to any name that ends with a plus sign"
    elif b"." not in dom:
        dom = dom + b"." + ctl["defaultdomain"]  # "appends the default domain name to any name without dots"
    return local + b"@" + dom


def control_value(name, files, env):
    """Effective value of defaulthost/defaultdomain/plusdomain: QMAIL<NAME> env > control/<name> > control/me > the literal name."""
    e = env.get("QMAIL" + name.upper())
    if e is not None:
        return e
    if files.get(name) is not None:
        return files[name]
    if files.get("me") is not None:
        return files["me"]
    return name.encode()
