"""C07 - Network daemons acknowledge a message iff exactly it was queued.

The real qmail-smtpd, qmail-qmtpd and qmail-qmqpd binaries run as subprocesses under the shim; $QMAILQUEUE points at the
scripted stand-in (shim/standin) or, for a share of the cases, the real qmail-queue works on a sandbox queue.  Sessions are
well formed by construction and then mutated (DESIGN.md 5/C07): databytes -1/0/+1 (control file and $DATABYTES), 0..101
Received/Delivered-To fields in any case mix, address lengths around 900 / 1000 / 1003, NUL bytes, malformed netstring
framing, the client vanishing at any byte offset, every queue exit status 0..255, status 82 with custom text on descriptor 6,
the queue program killed by a signal / not reading / not executable, hostile TCPREMOTE*/TCPLOCAL*/HELO strings.
Oracle = reference session models in props/smtp_common.py (SMTP) and below (QMTP, QMQP), clauses 1-4 of the design.

Added to the design: the start of the queue program itself fails (shim fault on the daemon's pipe()/fork(): "resource trouble =>
temporary", 451 without 354 / exit 111).

Left out relative to the design: the libFuzzer session mutator (Hypothesis + systematic sweeps only); sessions are fed from a
file (everything pipelined, reads of up to 1024/512 bytes), network read boundaries are C05's subject.

Open finding (not in known-findings.txt, therefore excluded from generation by construction and counted as
excluded_qmtpd_rcpt_length_nondigit; reproduction in corpus/C07/findings/): qmail-qmtpd does not reject a non-digit inside the
length of a recipient netstring ("1/:123456789," is read as a 9-byte recipient, answered K and queued).

Slack that is counted, not hidden: acknowledgements of earlier QMTP messages are lost when a later message of the same
pipelined stream is malformed (the daemon leaves with exit 100 without flushing; the messages are queued, so only the
"committed => acknowledged" direction is affected); NUL bytes inside SMTP command lines (the documents say nothing; only the
envelope/acknowledgement correspondence is checked); HELO name shown or not; status 82 with text not starting with D/Z; status
115; a queue program that exits 0 without reading."""
import os, json
from lib import vlib, sandbox
from props import smtp_common as M
from props.smtp_common import B, J
from hypothesis import strategies as st

LEVEL = "fault_enumeration"
RULE = ("One case = one connection to one of the three daemons: a session that is well formed by construction (1-3 transactions / "
        "messages) with at most a few mutations (size vs databytes, hop fields, address length/NUL, netstring framing, cut offset, "
        "queue program behaviour, hostile environment strings).  Systematic part: every queue exit status 0..255 per daemon (also "
        "with a daemon-side failure pending), every cut offset of base sessions, the databytes/hops/address boundary grids; the rest "
        "is Hypothesis.  A case is non-trivial when a queue program was started and the session was not the plain happy path; "
        "distinct = digest of the scenario.")
ASSUMPTIONS = ["client disconnect = end of file on the daemon's standard input at that byte offset; the daemon's output is never blocked",
               "the stand-in commits iff its scripted status is 0 and the envelope terminator arrived (qmail-queue.8: EOF before the extra 0 byte => abort)",
               "address-length limits are taken as 'around' 900 (SMTP) and 1000..1003 (QMTP/QMQP/qmail-queue): 899..900 resp. 999..1003 are accepted either way",
               "exit statuses of the daemons are only checked for malformed framing (100), a queue program that cannot be started (QMTP/QMQP: 111) and a completed QMQP exchange (0); other statuses are undocumented",
               "the Hypothesis part runs in fixed-size rounds with seeds derived from VERIF_SEED; the number of rounds (between a fixed minimum and maximum) adapts to the load of the machine, no verdict depends on time",
               "checks run as root in the sandbox; identity is virtualised by the LD_PRELOAD shim"]

KNOWN_SIGS = ("qmtpd_rcpt_length_nondigit",)
FIXED_IN_REPO = True   # qmail-qmtpd.c recipient-length digit test added by fix: commit 3cc662c (see known-findings.txt)
# set by run()/replay(): signatures listed in known-findings.txt (then generated and suppressed) - otherwise excluded by construction
LISTED = set()

LONG_OK, LONG_BAD = 998, 1004          # QMTP/QMQP/qmail-queue address length: <= 998 must pass, >= 1004 must fail, between: open
VAGUE_LEN = 10 ** 8


# =============================================================================================== QMTP / QMQP streams

def qm_fields(m):
    msg = M.build_message(m["body"])
    mode = m.get("mode", "lf")
    if mode == "lf":
        raw = b"\n" + msg
    elif mode == "crlf":
        raw = b"\r" + msg.replace(b"\n", b"\r\n")
    else:                                   # "crraw": CR LF mode announced, body sent as it is (bare LFs, bare CRs)
        raw = b"\r" + msg
    return raw, M.make_addr(m["sender"]), [M.make_addr(a) for a in m["rcpts"]]


def nsr(data, fid, mut):
    ln = b"%d" % len(data)
    comma = b","
    if mut and mut.get("f") == fid:
        k = mut["k"]
        if k == "len":
            v = len(data) + mut["d"]
            if v >= 0:
                ln = b"%d" % v
        elif k == "nondigit":
            i = mut["at"] % len(ln)
            ln = ln[:i] + bytes([mut["c"]]) + ln[i + 1:]
        elif k == "comma":
            comma = bytes([mut["c"]]) if mut.get("c") is not None else b""
        elif k == "big":
            ln = mut["v"].encode()
    return ln + b":" + data + comma


def norm_mut(daemon, m, excl):
    """Keep generation out of the listed-or-excluded defect class: a non-digit inside the length of a *recipient* netstring of QMTP."""
    mut = m.get("fmut")
    if FIXED_IN_REPO:
        return mut          # defect repaired by fix: 3cc662c - the class is generated like any other and nothing is suppressed
    if mut and daemon == "qmtpd" and mut["k"] == "nondigit" and isinstance(mut.get("f"), int) and "qmtpd_rcpt_length_nondigit" not in LISTED:
        excl["excluded_qmtpd_rcpt_length_nondigit"] = excl.get("excluded_qmtpd_rcpt_length_nondigit", 0) + 1
        mut = dict(mut, f="R")
    return mut


def qmtp_stream(sc, excl):
    out = []
    for m in sc["msgs"]:
        raw, sender, rcpts = qm_fields(m)
        mut = norm_mut("qmtpd", m, excl)
        if mut and mut["k"] == "mode":
            raw = bytes([mut["c"]]) + raw[1:]
        if mut and mut["k"] == "empty":
            out.append(b"0:,")
            continue
        inner = b"".join(nsr(a, i, mut) for i, a in enumerate(rcpts))
        out.append(nsr(raw, "m", mut) + nsr(sender, "s", mut) + nsr(inner, "R", mut))
    return b"".join(out) + (B(sc.get("tail")) or b"")


def qmqp_stream(sc, excl):
    m = sc["msgs"][0]
    raw, sender, rcpts = qm_fields(dict(m, mode="lf"))
    raw = raw[1:]
    mut = m.get("fmut")
    inner = nsr(raw, "m", mut) + nsr(sender, "s", mut) + b"".join(nsr(a, i, mut) for i, a in enumerate(rcpts))
    return nsr(inner, "O", mut) + (B(sc.get("tail")) or b"")


# =============================================================================================== QMTP / QMQP reference models

def take_b(rd, n, budget):
    if n > budget[0]:
        rd.take(budget[0])
        raise M.Bad()
    budget[0] -= n
    return rd.take(n)


def comma_b(rd, budget):
    if budget[0] <= 0:
        raise M.Bad()
    budget[0] -= 1
    rd.comma()


def ns_len(rd, budget=None, inner=False):
    try:
        n = M.ns_len(rd, budget)
    except M.Bad:
        if inner:
            raise BadInner()            # malformed all the same; only the exit status (100 or 111) is left open
        raise
    if n > VAGUE_LEN:
        raise M.Vague()
    return n


class BadInner(Exception):
    """Non-digit inside the length of a recipient netstring (the class of known/excluded defect qmtpd_rcpt_length_nondigit)."""
    pass


def qmtp_parse(stream):
    rd = M.Rd(stream)
    msgs = []
    opened = 0
    try:
        while True:
            n = ns_len(rd)
            if n == 0:
                raise M.Bad()
            opened += 1
            mode = rd.get()
            if mode not in (10, 13):
                raise M.Bad()
            raw = rd.take(n - 1)
            rd.comma()
            sender = rd.take(ns_len(rd))
            rd.comma()
            budget = [ns_len(rd)]
            rcpts = []
            while budget[0] > 0:
                ln = ns_len(rd, budget, inner=True)
                if ln >= budget[0]:
                    raise M.Bad()
                rcpts.append(rd.take(ln))
                rd.comma()
                budget[0] -= ln + 1
            rd.comma()
            msgs.append({"stored": M.qmtp_decode(mode, raw), "sender": sender, "rcpts": rcpts})
    except M.EOFX:
        end = "eof"
    except M.Bad:
        end = "bad"
    except BadInner:
        end = "bad_inner"
    except M.Vague:
        end = "vague"
    return msgs, end, opened


def qmqp_parse(stream):
    rd = M.Rd(stream)
    msgs = []
    opened = 0
    try:
        budget = [ns_len(rd)]
        ml = ns_len(rd, budget)
        opened = 1
        raw = take_b(rd, ml, budget)
        comma_b(rd, budget)
        addrs = []
        while True:
            ln = ns_len(rd, budget)
            addrs.append(take_b(rd, ln, budget))
            comma_b(rd, budget)
            if budget[0] <= 0:
                break
        rd.comma()
        msgs.append({"stored": raw, "sender": addrs[0], "rcpts": addrs[1:]})
        end = "done"
    except M.EOFX:
        end = "eof"
    except M.Bad:
        end = "bad"
    except M.Vague:
        end = "vague"
    return msgs, end, opened


def addr_class(a, extra=0):
    """'bad' (NUL or over-long: must be refused permanently), 'maybe' (length in the open band), 'ok'."""
    if b"\0" in a:
        return "bad"
    n = len(a) + extra
    if n >= LONG_BAD:
        return "bad"
    if n > LONG_OK:
        return "maybe"
    return "ok"


OUTCOME_LETTERS = {"ok": {b"K"}, "perm": {b"D"}, "temp": {b"Z"}, "neg": {b"D", b"Z"}, "racy": {b"K", b"Z"}}


def qm_verdict(daemon, m, k, cfg):
    """-> dict(status per recipient, final addresses, V = allowed verdict letters for accepted recipients)"""
    relay = cfg["relay"] if daemon == "qmtpd" else None
    db = cfg["databytes"] if daemon == "qmtpd" else 0
    stat = []
    finals = []
    for a in m["rcpts"]:
        c = addr_class(a, len(relay) if relay else 0)
        if daemon == "qmtpd" and c != "bad" and relay is None and not M.policy_allows(a, cfg["rcpthosts"], cfg["more"]):
            c = "bad"
        stat.append(c)
        finals.append(a + (relay or b""))
    V = set()
    sc_ = addr_class(m["sender"])
    sized = bool(db and len(m["stored"]) > db)
    if daemon == "qmqpd":
        # one bad address spoils the whole message
        worst = [sc_] + stat
        if "bad" in worst:
            V = {b"D"}
        else:
            V = set(OUTCOME_LETTERS[M.queue_outcome(cfg["qq"], k)])
            if "maybe" in worst:
                V |= {b"D"}
            if not m["rcpts"]:
                V |= {b"D", b"Z"}         # a message for nobody: nothing is said about it
    else:
        if sc_ == "bad" or sized:
            V = {b"D"}
        else:
            V = set(OUTCOME_LETTERS[M.queue_outcome(cfg["qq"], k)])
            if sc_ == "maybe":
                V |= {b"D"}
    return {"stat": stat, "finals": finals, "V": V, "sized": sized, "sender_class": sc_}


def env_matches(commit, m, vd, letters, daemon):
    """Committed envelope = (sender, exactly the recipients acknowledged with K, in order)."""
    if commit["sender"] != m["sender"] or commit["rcpts"] is None:
        return False
    got = list(commit["rcpts"])
    gi = 0
    for j, stt in enumerate(vd["stat"]):
        fin = vd["finals"][j]
        if daemon == "qmqpd":
            want = True
        elif stt == "bad":
            want = False
        elif stt == "ok":
            want = True
        elif letters is not None:
            want = letters[j] == b"K"
        else:
            want = gi < len(got) and got[gi] == fin
        if want:
            if gi >= len(got) or got[gi] != fin:
                return False
            gi += 1
    return gi == len(got)


def qm_check(daemon, stream, cfg, obs, info):
    parse = qmtp_parse if daemon == "qmtpd" else qmqp_parse
    msgs, end, opened = parse(stream)
    fa = cfg.get("fault_at")
    if fa is not None and fa < opened:
        # the fa-th start of the queue program fails (pipe/fork): resource trouble => exit 111, nothing more is answered or queued
        msgs = msgs[:fa]
        end = "resources"
        opened = fa
    info.update(acks=0, negD=0, negZ=0, end=end, inv=opened, slack=0, complete=len(msgs), rcptD=0)
    trunc_ok = end in ("bad", "bad_inner", "vague", "resources") and daemon == "qmtpd"
    resp, err = M.parse_netstrings(obs.out, allow_truncated=trunc_ok)
    if err:
        return "daemon output is not a sequence of netstrings: " + err
    for x in resp:
        if x[:1] not in (b"K", b"Z", b"D"):
            return "response %r does not start with K, Z or D" % x[:40]
    commits = obs.commits
    proto = M.PROTO[daemon]
    ri = ci = 0
    lost = False
    for k, m in enumerate(msgs):
        vd = qm_verdict(daemon, m, k, cfg)
        nr = len(m["rcpts"]) if daemon == "qmtpd" else 1
        got = resp[ri:ri + nr]
        acceptable = [j for j, s_ in enumerate(vd["stat"]) if s_ != "bad"] if daemon == "qmtpd" else [0]
        definite = [j for j, s_ in enumerate(vd["stat"]) if s_ == "ok"] if daemon == "qmtpd" else [0]
        if len(got) < nr:
            if not trunc_ok:
                return "message %d: %d responses for %d recipients (stream complete up to here); output %r" % (k, len(got), nr, obs.out[:200])
            # acknowledgements lost because the daemon left on the later protocol error without flushing: commits still count
            lost = True
            info["slack"] += 1
            ri = len(resp)
            may = acceptable and b"K" in vd["V"]
            must = definite and vd["V"] == {b"K"}
            if ci < len(commits) and may and env_matches(commits[ci], m, vd, None, daemon):
                ci += 1
            elif must:
                return "message %d was complete and acceptable but is not in the queue" % k
            continue
        ri += nr
        letters = [g[:1] for g in got]
        if daemon == "qmtpd":
            v = None
            for j, stt in enumerate(vd["stat"]):
                if stt == "bad":
                    if letters[j] != b"D":
                        why = "NUL" if b"\0" in m["rcpts"][j] else ("length %d" % len(vd["finals"][j]) if len(vd["finals"][j]) >= LONG_BAD else "rcpthosts")
                        return "message %d recipient %d (%s) answered %r, must be refused with D" % (k, j, why, got[j][:60])
                    info["rcptD"] += 1
                elif stt == "ok":
                    if v is None:
                        v = letters[j]
                    if letters[j] != v:
                        return "message %d: accepted recipients got different verdicts %r" % (k, letters)
            for j, stt in enumerate(vd["stat"]):
                if stt == "maybe":
                    info["slack"] += 1
                    if v is None and letters[j] != b"D":
                        v = letters[j]
                    if letters[j] not in (v, b"D"):
                        return "message %d: recipient %d answered %r, message verdict %r" % (k, j, letters[j], v)
            if v is None:
                # nobody accepted: nothing may be queued (checked by the commit count below)
                continue
        else:
            v = letters[0]
        if v not in vd["V"]:
            return ("message %d answered %r, documented %s (stored=%d databytes=%d sender=%s queue=%s)" %
                    (k, got[0][:80] if daemon == "qmqpd" else [g[:30] for g in got][:6], sorted(vd["V"]), len(m["stored"]),
                     cfg["databytes"], vd["sender_class"], cfg["qq"]))
        if len(vd["V"]) > 1:
            info["slack"] += 1
        if v == b"K":
            info["acks"] += 1
            if cfg["qq"]["mode"] == "noread":
                continue
            if ci >= len(commits):
                return "message %d acknowledged with K but nothing was committed to the queue" % k
            cm = commits[ci]
            ci += 1
            if cm["sender"] is None:
                return "message %d: committed envelope malformed" % k
            if not env_matches(cm, m, vd, letters, daemon):
                return ("message %d: committed envelope (%r, %r) is not the acknowledged one (%r, %r with verdicts %r)" %
                        (k, cm["sender"][:60], [x[:60] for x in cm["rcpts"]][:6], m["sender"][:60], [x[:60] for x in vd["finals"]][:6], letters))
            body = M.strip_qq_received(cm)
            if body is None:
                return "message %d: queued message lacks qmail-queue's Received line" % k
            n, hs, e = M.check_received(body, proto, cfg["env"], None, obs.t0, obs.t1)
            if e:
                return "message %d: %s" % (k, e)
            if body[n:] != m["stored"]:
                return "message %d: committed body differs from the decoded message (%d vs %d bytes)" % (k, len(body) - n, len(m["stored"]))
        else:
            info["neg" + v.decode()] += 1
    extra_resp = resp[ri:]
    extra_commits = commits[ci:]
    if end == "vague":
        nk = sum(1 for x in extra_resp if x[:1] == b"K")
        if nk > len(extra_commits):
            return "%d K responses beyond the checked messages but only %d further commits" % (nk, len(extra_commits))
        info["slack"] += 1
    else:
        if extra_resp:
            return "%d responses more than recipients of complete messages: %r" % (len(extra_resp), extra_resp[0][:60])
        if extra_commits and cfg["qq"]["mode"] != "noread":
            return ("%d objects committed without acknowledgement (%s): envelope (%r, %r)" %
                    (len(extra_commits), "stream ended: " + end, extra_commits[0]["sender"], extra_commits[0]["rcpts"]))
    if end == "bad" and obs.rc != 100:
        return "malformed framing: exit status %s, expected 100" % obs.rc
    if end == "resources" and obs.rc != 111:
        return "queue program could not be started: exit status %s, expected 111" % obs.rc
    if end == "done" and obs.rc != 0:
        return "QMQP session complete but exit status %s" % obs.rc
    return None


def run_qm_scenario(r, sc, excl):
    daemon = sc["d"]
    sizes = []
    if daemon == "qmtpd":
        for m in sc["msgs"]:
            raw, _, _ = qm_fields(m)
            sizes.append(len(M.qmtp_decode(raw[0], raw[1:])))
    n, dbctl, dbenv = M.resolve_db(sc.get("db") if daemon == "qmtpd" else None, sizes)
    env = M.scenario_env(sc, dbenv)
    r.set_control(M.control_files(sc, dbctl))
    stream = qmtp_stream(sc, excl) if daemon == "qmtpd" else qmqp_stream(sc, excl)
    cut = sc.get("cut")
    if cut is not None:
        stream = stream[:cut]
    obs = r.run(daemon, stream, env, sc["qq"], fault=sc.get("fault"))
    info = {}
    if obs.rc is None:
        return "INCONCLUSIVE", info, obs
    cfg = M.model_cfg(sc, env, n, set())
    cfg["fault_at"] = M.fault_attempt(sc.get("fault"))
    v = qm_check(daemon, stream, cfg, obs, info)
    info["rc"] = obs.rc
    return v, info, obs


# =============================================================================================== one case

def qq_tag(qq):
    m = qq["mode"]
    if m == "qq":
        e = qq.get("exit", 0)
        if isinstance(e, list):
            return "qq_seq"
        if e == 0:
            return "qq_exit0"
        if e == 82:
            return "qq_exit82_custom"
        return "qq_exit_perm" if 11 <= e <= 40 else "qq_exit_temp"
    return "qq_" + m


def run_case(r, sc, stats, local_ips):
    """-> violation message or None"""
    daemon = sc["d"]
    excl = {}
    if daemon == "smtpd":
        v, info, obs = M.run_smtp_scenario(r, sc, local_ips)
    else:
        v, info, obs = run_qm_scenario(r, sc, excl)
    for k, n in excl.items():
        stats.cls(k, n)
    if v == "INCONCLUSIVE":
        stats.inconclusive += 1
        return None
    classes = ["d_" + daemon, qq_tag(sc["qq"])]
    if sc.get("cut") is not None:
        classes.append("cut")
    if info.get("acks"):
        classes.append("acked")
    if info.get("neg5") or info.get("negD"):
        classes.append("neg_permanent")
    if info.get("neg4") or info.get("negZ"):
        classes.append("neg_temporary")
    for k in ("hops", "size", "stray", "eof_in_data", "degraded"):
        if info.get(k):
            classes.append(k)
    if info.get("rcpt_no") or info.get("rcptD"):
        classes.append("rcpt_refused")
    if info.get("end") in ("bad", "bad_inner", "vague"):
        classes.append("framing_" + info["end"])
    if info.get("end") == "resources" or info.get("qq_start_failed"):
        classes.append("qq_start_failed")
    if obs.rc is not None and obs.rc < 0:
        classes.append("daemon_killed_by_signal")
    if any(sc.get("env", {}).get(k) is not None for k in ("TCPREMOTEHOST", "TCPREMOTEINFO", "TCPLOCALHOST")):
        classes.append("env_strings")
    if sc.get("db"):
        classes.append("databytes_set")
    if sc.get("sysfault"):
        classes.append("queue_pipe_write_fails")
    if sc["qq"].get("trig"):
        classes.append("trigger_write_fails_after_commit")
    stats.slack += 1 if info.get("slack") else 0
    ntxn = sum(1 for c in sc["cmds"] if c["t"] == "data") if daemon == "smtpd" else len(sc["msgs"])
    happy = (info.get("acks", 0) == ntxn and sc.get("cut") is None and not info.get("rcpt_no") and not info.get("rcptD")
             and qq_tag(sc["qq"]) in ("qq_exit0", "qq_real") and not sc.get("db") and "env_strings" not in classes and not sc.get("fault"))
    nontrivial = info.get("inv", 0) >= 1 and not happy
    stats.case(scenario=sc, nontrivial=nontrivial, classes=classes, key=vlib.digest(sc))
    if v and daemon == "qmtpd" and "qmtpd_rcpt_length_nondigit" in LISTED and SUPPRESS[0] and has_inner_nondigit(sc):
        stats.known_hits["qmtpd_rcpt_length_nondigit"] = stats.known_hits.get("qmtpd_rcpt_length_nondigit", 0) + 1
        return None
    if v:
        return "%s | %s" % (v, json.dumps(sc)[:3000])
    return None


SUPPRESS = [True]


def has_inner_nondigit(sc):
    """Predicate of the known-finding signature: some message carries a non-digit in the length of a recipient netstring."""
    for m in sc.get("msgs", []):
        mu = m.get("fmut") or {}
        if isinstance(mu.get("f"), int) and (mu.get("k") == "nondigit" or (mu.get("k") == "big" and not mu["v"].isdigit())):
            return True
    return False


# =============================================================================================== generators

def nonul(b):
    return bytes(c if c else 63 for c in b)


HOSTILE = [b"host.example", b"[1.2.3.4]", b"a b", b"(evil)", b"x\ny", b"", b"caf\xe9.example", b"a)\n  by forged (x", b"%s%n", b"A-Z_a-z",
           b"1.2.3.4", b"user@remote", b"\xff\xfe", b"tab\there", b"q\"uote'", b"semi;colon", b"UPPER.example"]
PRINTABLE = bytes(range(32, 127))


def g_env_val(t):
    k = t.n(4)
    if k < 2:
        return None
    if k == 2:
        return J(t.pick(HOSTILE))
    return J(nonul(t.bytes(0, 12)))


def g_env(t):
    e = {k: g_env_val(t) for k in ("TCPREMOTEHOST", "TCPREMOTEINFO", "TCPREMOTEIP", "TCPLOCALHOST", "TCPLOCALIP")}
    e["RELAYCLIENT"] = t.pick([None, None, None, J(b""), J(b"@relay.example")])
    return e


def g_fd6(t):
    k = t.n(4)
    if k == 0:
        return J(b"D" + t.bytes(0, 40, PRINTABLE) + b" (#5.7.1)")
    if k == 1:
        return J(b"Z" + t.bytes(0, 40, PRINTABLE) + b" (#4.3.0)")
    if k == 2:
        return J(t.pick([b"", b"D", b"Z", b"Dx", b"Zx", b"X", b"xy"]))
    return J(b"D" + b"y" * t.rng(250, 300))


def g_qq(t):
    k = t.n(12)
    if k < 2:
        return {"mode": "qq", "exit": 0}
    if k < 4:
        return {"mode": "real", "trig": t.pick([32, 11, 4])} if t.flag(1, 4) else {"mode": "real"}
    if k == 4:
        return {"mode": "qq", "exit": t.n(256)}
    if k == 5:
        return {"mode": "qq", "exit": t.pick([11, 31, 40, 41, 51, 53, 54, 71, 81, 91, 99, 100, 111, 120, 255, 1, 10])}
    if k == 6:
        return {"mode": "qq", "exit": [t.pick([0, t.n(256)]) for _ in range(t.rng(2, 3))]}
    if k == 7:
        return {"mode": "qq", "exit": 82, "fd6": g_fd6(t)}
    if k == 8:
        return {"mode": "kill", "sig": t.pick([9, 15, 11, 2, 6])}
    if k == 9:
        return {"mode": "nowhere"}
    if k == 10:
        return {"mode": "lenient"}
    return {"mode": "noread", "exit": t.pick([0, t.rng(1, 255)])}


PATS = [b"x", b"line\n", b".\n", b"..\n.", b"a\rb\n", b"\r\n", b"\0", b"\xff\n", b".\r\n", b"ab\n\n"]


def g_body(t):
    kind = t.pick(["plain", "plain", "plain", "hops", "hops", "mixed"])
    b = {"recv": 0, "deliv": 0, "case": t.n(8192), "other": t.n(4), "sep": t.pick([True, True, True, False]), "brecv": 0,
         "pat": J(t.bytes(1, 5) if t.flag() else t.pick(PATS)),
         "len": t.pick([t.n(61), t.n(61), t.pick([0, 1, 1000, 1023, 1024, 1025, 2100])]), "nl": not t.flag()}
    if kind == "hops":
        tot = t.pick([98, 99, 100, 101])
        split = t.n(3)
        b["recv"] = tot if split == 0 else (0 if split == 1 else tot // 2)
        b["deliv"] = tot - b["recv"]
        b["brecv"] = t.pick([0, 0, 3])
    elif kind == "mixed":
        hopn = [0, 0, 0, 0, 1, 2, 49, 50, 51, 98, 99, 100, 101]
        b["recv"] = t.pick(hopn)
        b["deliv"] = t.pick(hopn) if b["recv"] < 60 else t.pick([0, 1])
        b["brecv"] = t.pick([0, 100, 101])
    return b


def g_db(t):
    k = t.n(6)
    if k < 2:
        return None
    if k < 4:
        return {"rel": t.n(3), "delta": t.pick([1, -1, 0, 1]), "via": t.pick(["ctl", "env", "both"])}
    if k == 4:
        return {"rel": t.n(3), "delta": t.pick([1, 5]), "via": "env0"}
    return {"abs": t.pick([1, 10, 100, 4294967295, 4294967294]), "via": t.pick(["ctl", "env"])}


RCPTHOSTS_CTL = {"rcpthosts": [J(b"a.example"), J(b".b.example")], "morercpthosts": [J(b"c.example")]}
DOMS = [b"a.example", b"x.b.example", b"c.example", b"evil.example", b"A.Example"]
LOCALS = [b"joe", b"a.b", b"x+y=z", b"postmaster", b"u-1"]


def g_ctl(t):
    return t.pick([{}, {}, RCPTHOSTS_CTL])


def g_smtp_addr(t, role):
    """-> (wire text inside <>, intended address or None)"""
    k = t.pick(["n"] * 8 + ["long", "long", "nul", "empty", "noat"])
    if k == "n":
        a = t.pick(LOCALS) + b"@" + t.pick(DOMS)
        return a, a
    if k == "long":
        ln = t.pick([897, 898, 899, 900, 901, 902, 1100])
        dom = b"@" + t.pick(DOMS[:3])
        a = b"l" * (ln - len(dom)) + dom
        return a, a
    if k == "nul":
        return t.pick([b"a\0b@a.example", b"joe@a.example\0.evil.example", b"\0"]), None
    if k == "empty":
        return (b"", b"") if role == "mail" else (b"joe", b"joe")
    return b"localonly", b"localonly"


def g_eol(t):
    return t.pick([b"\r\n", b"\r\n", b"\r\n", b"\n"])


def g_smtp_cmds(t):
    cmds = []
    if t.flag():
        ty = t.pick(["helo", "ehlo"])
        arg = t.pick(HOSTILE) if t.flag() else nonul(t.bytes(0, 12))
        arg = arg.replace(b"\n", b"?").lstrip(b" ")
        cmds.append({"t": ty, "line": J(M.casemix(ty.encode(), t.n(16)) + b" " + arg + g_eol(t))})
    for _ in range(t.pick([1, 1, 1, 2, 2, 3])):
        w, a = g_smtp_addr(t, "mail")
        par = t.pick([b"", b"", b" SIZE=100", b" BODY=8BITMIME"])
        cmds.append({"t": "mail", "line": J(b"MAIL FROM:<" + w + b">" + par + g_eol(t)), "addr": None if a is None else J(a)})
        for _ in range(t.pick([1, 1, 1, 2, 3])):
            w, a = g_smtp_addr(t, "rcpt")
            cmds.append({"t": "rcpt", "line": J(b"RCPT TO:<" + w + b">" + g_eol(t)), "addr": None if a is None else J(a)})
        d = {"t": "data", "line": J(b"DATA" + g_eol(t)), "body": g_body(t)}
        wm = t.pick([None] * 12 + ["barelf", "noterm", "lfterm"])
        if wm:
            d["wmut"] = {"k": wm, "at": t.n(65536)}
        cmds.append(d)
        if t.flag(1, 4):
            ty = t.pick(["noop", "rset"])
            cmds.append({"t": ty, "line": J(ty.upper().encode() + b"\r\n")})
    if t.flag():
        cmds.append({"t": "quit", "line": J(b"QUIT\r\n")})
    return cmds


def g_fault(t):
    if not t.flag(1, 12):
        return None
    cls = t.pick(["pipe", "pipe", "pipe", "fork"])
    return {"cls": cls, "k": t.n(9) if cls == "pipe" else t.n(3), "errno": t.pick([24, 23, 12, 11])}


def g_smtp_scenario(t):
    sc = {"d": "smtpd", "env": g_env(t), "ctl": g_ctl(t), "db": g_db(t), "qq": g_qq(t), "cmds": g_smtp_cmds(t), "cut": None}
    f = g_fault(t)
    if f:
        sc["fault"] = f
    if t.flag(1, 3):
        sc["cut"] = t.n(len(M.smtp_stream(sc["cmds"])) + 1)
    if not f and t.flag(1, 10):
        # one write to the pipes that feed the queue program fails (message or envelope): the submission it hits is refused temporarily
        # and nothing of it is queued; what is acknowledged is still exactly what was queued
        sc["sysfault"] = {"cls": "pwrite", "k": t.n(10), "errno": t.pick([12, 5, 28, 32])}
    return sc


def g_qm_addr(t, relaylen=0):
    k = t.pick(["n"] * 8 + ["long", "long", "nul", "empty", "noat"])
    if k == "n":
        return {"a": J(t.pick(LOCALS) + b"@" + t.pick(DOMS))}
    if k == "long":
        ln = t.pick([997, 998, 999, 1000, 1001, 1002, 1003, 1004, 1005, 1500]) - t.pick([0, relaylen])
        return {"pat": J(t.pick([b"a", b"ab@a.example", b"q@"])), "len": max(0, ln)}
    if k == "nul":
        return {"a": J(t.pick([b"a\0b@a.example", b"joe@a.example\0", b"\0", b"\0@a.example"]))}
    if k == "empty":
        return {"a": J(b"")}
    return {"a": J(b"localonly")}


FIDS = ["m", "s", "R", 0, 1, "O"]


def g_fmut(t):
    k = t.n(6)
    if k == 0:
        return {"k": "len", "f": t.pick(FIDS), "d": t.pick([-2, -1, 1, 2, 10])}
    if k == 1:
        return {"k": "nondigit", "f": t.pick(FIDS), "at": t.n(6), "c": t.pick(list(b"x /+-;,\0\n\xb1"))}
    if k == 2:
        return {"k": "comma", "f": t.pick(FIDS), "c": t.pick([None, 59, 0, 46, 58, 10])}
    if k == 3:
        return {"k": "mode", "c": t.pick([0, 11, 12, 32, 78, 255])}
    if k == 4:
        return {"k": "big", "f": t.pick(FIDS), "v": t.pick(["2147483647", "2147483648", "4294967295", "4294967296", "200000001",
                                                            "99999999999999999999", "18446744073709551616"])}
    return {"k": "empty"}


def g_qm_scenario(t, daemon):
    env = g_env(t)
    if daemon == "qmqpd":
        env = dict(env, RELAYCLIENT=None)
    rl = len(B(env["RELAYCLIENT"])) if env.get("RELAYCLIENT") is not None else 0
    nm = 1 if daemon == "qmqpd" else t.pick([1, 1, 2, 2, 3])
    msgs = []
    for _ in range(nm):
        m = {"mode": t.pick(["lf", "lf", "crlf", "crlf", "crraw"]), "body": g_body(t), "sender": g_qm_addr(t),
             "rcpts": [g_qm_addr(t, rl) for _ in range(t.pick([1, 2, 1, 0, 3]))]}
        if t.flag(1, 4):
            m["fmut"] = g_fmut(t)
        msgs.append(m)
    sc = {"d": daemon, "env": env, "ctl": g_ctl(t) if daemon == "qmtpd" else {}, "db": g_db(t) if daemon == "qmtpd" else None,
          "qq": g_qq(t), "msgs": msgs, "cut": None}
    if t.flag(1, 4):
        sc["tail"] = J(t.pick([b"x", b",", b"0:,", b"5:Xabcd,", b"3:", b"\n"]))
    f = g_fault(t)
    if f:
        sc["fault"] = f
    if t.flag(1, 3):
        n = len(qmtp_stream(sc, {}) if daemon == "qmtpd" else qmqp_stream(sc, {}))
        sc["cut"] = t.n(n + 1)
    return sc


def g_scenario(tape_bytes):
    t = M.Tape(tape_bytes)
    d = t.pick(["smtpd", "qmtpd", "smtpd", "qmtpd", "qmqpd"])
    return g_smtp_scenario(t) if d == "smtpd" else g_qm_scenario(t, d)


scenario_st = st.binary(min_size=512, max_size=512).map(g_scenario)


# =============================================================================================== systematic part

def base_smtp(ntx=1, rcpts=(b"joe@a.example",), body=None, helo=True, quit_=True):
    cmds = []
    if helo:
        cmds.append({"t": "helo", "line": J(b"HELO client.example\r\n")})
    for i in range(ntx):
        cmds.append({"t": "mail", "line": J(b"MAIL FROM:<s%d@x.example>\r\n" % i), "addr": J(b"s%d@x.example" % i)})
        for a in rcpts:
            cmds.append({"t": "rcpt", "line": J(b"RCPT TO:<" + a + b">\r\n"), "addr": J(a)})
        cmds.append({"t": "data", "line": J(b"DATA\r\n"),
                     "body": body or {"recv": 1, "deliv": 0, "case": 5, "other": 1, "sep": True, "brecv": 0, "pat": J(b".ab\n"), "len": 11, "nl": True}})
    if quit_:
        cmds.append({"t": "quit", "line": J(b"QUIT\r\n")})
    return cmds


def base_qm(daemon, nm=1, mode="lf", rcpts=(b"joe@a.example", b"ann@x.b.example"), body=None):
    msgs = []
    for i in range(nm):
        msgs.append({"mode": mode if i % 2 == 0 else "crlf", "body": body or {"recv": 1, "deliv": 1, "case": 3, "other": 1, "sep": True, "brecv": 0, "pat": J(b"a\rb\n"), "len": 9, "nl": True},
                     "sender": {"a": J(b"s%d@x.example" % i)}, "rcpts": [{"a": J(a)} for a in rcpts]})
    return {"d": daemon, "env": {}, "ctl": {}, "db": None, "qq": {"mode": "qq", "exit": 0}, "msgs": msgs, "cut": None}


def systematic(tier):
    """Deterministic scenarios (sharded over the workers)."""
    out = []
    smtp = lambda **kw: dict({"d": "smtpd", "env": {"TCPREMOTEIP": J(b"192.0.2.9")}, "ctl": {}, "db": None, "qq": {"mode": "qq", "exit": 0},
                              "cmds": base_smtp(), "cut": None}, **kw)
    # (a) every exit status of the queue program, per daemon; and with a daemon-side failure pending (size one over)
    for e in range(256):
        out.append(smtp(qq={"mode": "qq", "exit": e}))
        out.append(dict(base_qm("qmtpd"), qq={"mode": "qq", "exit": e}))
        out.append(dict(base_qm("qmqpd"), qq={"mode": "qq", "exit": e}))
        if e % 4 == 0 or tier == "thorough":
            out.append(smtp(qq={"mode": "qq", "exit": e}, db={"rel": 0, "delta": 1, "via": "ctl"}))
            out.append(dict(base_qm("qmtpd"), qq={"mode": "qq", "exit": e}, db={"rel": 0, "delta": 1, "via": "env"}))
            out.append(smtp(qq={"mode": "noread", "exit": e}))
        if e in (0, 11, 31, 54, 82, 91, 120) or tier == "thorough":
            # second transaction fails/succeeds independently of the first
            out.append(smtp(qq={"mode": "qq", "exit": [0, e]}, cmds=base_smtp(ntx=2)))
            out.append(dict(base_qm("qmtpd", nm=2), qq={"mode": "qq", "exit": [e, 0]}))
    for mode in ("lenient", "nowhere", "real"):
        for db in (None, {"rel": 0, "delta": 1, "via": "ctl"}, {"rel": 0, "delta": 0, "via": "ctl"}):
            out.append(smtp(qq={"mode": mode}, db=db))
            out.append(dict(base_qm("qmtpd"), qq={"mode": mode}, db=db))
        out.append(dict(base_qm("qmqpd"), qq={"mode": mode}))
    for sig in (9, 15, 11, 2, 6):
        for d in ("smtpd", "qmtpd", "qmqpd"):
            out.append(smtp(qq={"mode": "kill", "sig": sig}) if d == "smtpd" else dict(base_qm(d), qq={"mode": "kill", "sig": sig}))
    for t in (b"Dno way (#5.7.1)", b"Ztry later (#4.3.0)", b"D", b"Dx", b"Z", b"Zx", b"", b"Xo", b"Dab", b"Zab"):
        for d in ("smtpd", "qmtpd", "qmqpd"):
            q = {"mode": "qq", "exit": 82, "fd6": J(t)}
            out.append(smtp(qq=q) if d == "smtpd" else dict(base_qm(d), qq=q))
    # (a2) the queue program cannot be started: each of the three pipe() calls and the fork() of each transaction
    for cls, ks in (("pipe", range(6)), ("fork", range(2))):
        for k in ks:
            for en in (24, 11):
                f = {"cls": cls, "k": k, "errno": en}
                out.append(smtp(cmds=base_smtp(ntx=2), fault=f))
                out.append(smtp(cmds=base_smtp(ntx=2), fault=f, qq={"mode": "real"}))
                out.append(dict(base_qm("qmtpd", nm=2), fault=f))
                out.append(dict(base_qm("qmqpd"), fault=f))
    # (a3) every write to the queue program's pipes failing once (two transactions with bodies of several pipe buffers)
    big = {"recv": 1, "deliv": 0, "case": 5, "other": 1, "sep": True, "brecv": 0, "pat": J(b"line of text\n"), "len": 2900, "nl": True}
    for k in range(10):
        for en in (12, 28):
            for q in ({"mode": "qq", "exit": 0}, {"mode": "real"}):
                out.append(smtp(cmds=base_smtp(ntx=2, body=big), sysfault={"cls": "pwrite", "k": k, "errno": en}, qq=q))
    # (a4) the real queue program's wake-up write to lock/trigger fails after the commit point (reader gone: EPIPE + SIGPIPE; FIFO full: EAGAIN)
    for en in (32, 11, 4):
        q = {"mode": "real", "trig": en}
        out.append(smtp(cmds=base_smtp(ntx=2), qq=q))
        out.append(dict(base_qm("qmtpd", nm=2), qq=q))
        out.append(dict(base_qm("qmqpd"), qq=q))
    # (b) databytes grid: -1/0/+1 x via x encodings
    bodies = [{"recv": 0, "deliv": 0, "case": 0, "other": 0, "sep": True, "brecv": 0, "pat": J(p), "len": n, "nl": nl}
              for p in (b"x", b"a\rb\n", b"..\n", b"\r\n") for n in (0, 1, 40, 1030) for nl in (True, False)]
    for bi, b in enumerate(bodies):
        for delta in (-1, 0, 1):
            for via in ("ctl", "env", "both") if bi % 3 == 0 or tier == "thorough" else ("ctl",):
                for q in ({"mode": "qq", "exit": 0}, {"mode": "lenient"}, {"mode": "real"}):
                    db = {"rel": 0, "delta": delta, "via": via}
                    out.append(smtp(cmds=base_smtp(body=b), db=db, qq=q))
                    for mode in ("lf", "crlf", "crraw"):
                        out.append(dict(base_qm("qmtpd", mode=mode, body=b), db=db, qq=q))
    # (c) hop grid
    for tot in (0, 1, 98, 99, 100, 101):
        for split in (0, 1, 2):
            for case in (0, 8191, 0x155, 0xaaa):
                recv = tot if split == 0 else (0 if split == 1 else tot // 2)
                b = {"recv": recv, "deliv": tot - recv, "case": case, "other": 3, "sep": True, "brecv": 5 if tot < 100 else 0, "pat": J(b"t\n"), "len": 4, "nl": True}
                for q in ({"mode": "qq", "exit": 0}, {"mode": "lenient"}, {"mode": "real"}):
                    out.append(smtp(cmds=base_smtp(body=b), qq=q))
                out.append(dict(base_qm("qmtpd", body=b)))
    b = {"recv": 50, "deliv": 49, "case": 77, "other": 2, "sep": True, "brecv": 101, "pat": J(b"Received: again\n"), "len": 160, "nl": True}
    out.append(smtp(cmds=base_smtp(body=b)))
    # (d) address lengths
    for ln in (897, 898, 899, 900, 901, 902, 2000):
        a = b"l" * (ln - 10) + b"@a.example"
        for relay in (None, b"", b"@relay.example", b"@" + b"r" * 150):
            for q in ({"mode": "qq", "exit": 0}, {"mode": "real"}):
                env = {"RELAYCLIENT": None if relay is None else J(relay)}
                out.append(smtp(env=env, qq=q, cmds=base_smtp(rcpts=(b"joe@a.example", a))))
                c = base_smtp()
                c[1] = {"t": "mail", "line": J(b"MAIL FROM:<" + a + b">\r\n"), "addr": J(a)}
                out.append(smtp(env=env, qq=q, cmds=c))
    for ln in (997, 998, 999, 1000, 1001, 1002, 1003, 1004, 1005, 3000):
        for relay in (None, b"@relay.example"):
            for d in ("qmtpd", "qmqpd"):
                for where in ("rcpt", "sender"):
                    for q in ({"mode": "qq", "exit": 0}, {"mode": "real"}):
                        s = base_qm(d)
                        s["qq"] = q
                        L = ln - (len(relay) if relay and d == "qmtpd" and where == "rcpt" else 0)
                        spec = {"pat": J(b"u@a.example."), "len": L}
                        if where == "rcpt":
                            s["msgs"][0]["rcpts"].insert(1, spec)
                        else:
                            s["msgs"][0]["sender"] = spec
                        if d == "qmtpd":
                            s["env"] = {"RELAYCLIENT": None if relay is None else J(relay)}
                        out.append(s)
    for nul in (b"a\0b@a.example", b"\0", b"joe@a.example\0"):
        for d in ("qmtpd", "qmqpd"):
            for where in ("rcpt", "sender"):
                for q in ({"mode": "qq", "exit": 0}, {"mode": "lenient"}, {"mode": "real"}):
                    s = base_qm(d)
                    s["qq"] = q
                    if where == "rcpt":
                        s["msgs"][0]["rcpts"].append({"a": J(nul)})
                    else:
                        s["msgs"][0]["sender"] = {"a": J(nul)}
                    out.append(s)
    # (e) cut sweeps: every offset of base sessions
    nbase = 1 if tier == "quick" else 15
    for bi in range(nbase):
        body = {"recv": bi % 3, "deliv": bi % 2, "case": bi * 37, "other": bi % 4, "sep": True, "brecv": 0, "pat": J([b".ab\n", b"x\r\ny", b"\0\xff\n"][bi % 3]), "len": 7 + bi, "nl": bi % 2 == 0}
        for q in ({"mode": "qq", "exit": 0}, {"mode": "real"}):
            s = smtp(cmds=base_smtp(ntx=2, rcpts=(b"joe@a.example", b"ann@c.example"), body=body), qq=q)
            for j in range(len(M.smtp_stream(s["cmds"])) + 1):
                out.append(dict(s, cut=j))
            s = dict(base_qm("qmtpd", nm=2, body=body), qq=q)
            for j in range(len(qmtp_stream(s, {})) + 1):
                out.append(dict(s, cut=j))
            s = dict(base_qm("qmqpd", body=body), qq=q)
            for j in range(len(qmqp_stream(s, {})) + 1):
                out.append(dict(s, cut=j))
    # (e2) envelopes that fill qmail.c's 1024-byte buffer exactly after the k-th recipient (2 + |sender| + sum(|rcpt| + 2) = 1024): the
    # flush boundary falls between two envelope records, so a failure after it (disconnect, over-long or NUL recipient) reaches the real
    # qmail-queue as "EOF exactly after an address" - it must still abort (added by the lead after seeded change C07-B)
    al_sender = b"s" * 10 + b"@x.example.z"                      # 22 bytes
    al_rcpts = [b"r%02d" % i + b"a" * 23 + b"@a.example.." for i in range(25)]      # 25 x 38 bytes -> 2 + 22 + 25*40 = 1024
    assert 2 + len(al_sender) + sum(len(r) + 2 for r in al_rcpts) == 1024
    for d in ("qmtpd", "qmqpd"):
        for q in ({"mode": "real"}, {"mode": "qq", "exit": 0}):
            s = dict(base_qm(d, rcpts=tuple(al_rcpts) + (b"last1@a.example", b"last2@a.example")), qq=q)
            s["msgs"][0]["sender"] = {"a": J(al_sender)}
            L = len(qmtp_stream(s, {})) if d == "qmtpd" else len(qmqp_stream(s, {}))
            for j in range(max(0, L - 90), L + 1):
                out.append(dict(s, cut=j))
            for bad in ({"pat": J(b"u@a.example."), "len": 1003}, {"a": J(b"a\0b@a.example")}):
                s2 = dict(base_qm(d, rcpts=tuple(al_rcpts) + (b"last1@a.example",)), qq=q)
                s2["msgs"][0]["sender"] = {"a": J(al_sender)}
                s2["msgs"][0]["rcpts"].append(bad)
                out.append(s2)
    # (f) framing mutations on every field
    for d in ("qmtpd", "qmqpd"):
        for f in ("m", "s", "R", 0, 1, "O"):
            if (f == "O") != (d == "qmqpd") and f in ("O", "R"):
                continue
            muts = [{"k": "len", "f": f, "d": dd} for dd in (-1, 1, -3, 7)]
            muts += [{"k": "nondigit", "f": f, "at": 0, "c": c} for c in b"x /,"]
            muts += [{"k": "comma", "f": f, "c": c} for c in (None, 59, 0)]
            muts += [{"k": "big", "f": f, "v": v} for v in ("2147483648", "4294967296", "99999999999999999999")]
            for mu in muts:
                for which in (0, 1) if d == "qmtpd" else (0,):
                    s = base_qm(d, nm=2 if d == "qmtpd" else 1)
                    s["msgs"][which]["fmut"] = mu
                    out.append(s)
        for c in (0, 11, 32, 255):
            s = base_qm("qmtpd", nm=2)
            s["msgs"][1]["fmut"] = {"k": "mode", "c": c}
            out.append(s)
    s = base_qm("qmtpd", nm=2)
    s["msgs"][1]["fmut"] = {"k": "empty"}
    out.append(s)
    for tail in (b"x", b",", b"0:,", b"5:Xabcd,"):
        for d in ("qmtpd", "qmqpd"):
            out.append(dict(base_qm(d), tail=J(tail)))
    # (g) zero recipients, bare LF, missing terminator, hostile strings
    for d in ("qmtpd", "qmqpd"):
        out.append(base_qm(d, rcpts=()))
        out.append(dict(base_qm(d, rcpts=()), qq={"mode": "real"}))
    for wm in ("barelf", "noterm", "lfterm"):
        for at in (0, 5, 30, 10 ** 6):
            c = base_smtp(ntx=2)
            c[3]["wmut"] = {"k": wm, "at": at}
            out.append(smtp(cmds=c))
            out.append(smtp(cmds=c, qq={"mode": "real"}))
    for hv in HOSTILE:
        env = {"TCPREMOTEHOST": J(hv), "TCPREMOTEINFO": J(hv[::-1]), "TCPREMOTEIP": J(hv), "TCPLOCALHOST": J(hv)}
        c = base_smtp()
        c[0] = {"t": "ehlo", "line": J(b"EHLO " + hv.replace(b"\n", b"?").lstrip(b" ") + b"\r\n")}
        for q in ({"mode": "qq", "exit": 0}, {"mode": "real"}):
            out.append(smtp(env=env, cmds=c, qq=q))
            out.append(dict(base_qm("qmtpd"), env=env, qq=q))
            out.append(dict(base_qm("qmqpd"), env=dict(env, TCPLOCALHOST=None, TCPLOCALIP=J(hv)), qq=q))
    # rcpthosts in QMTP / SMTP: refused recipients are not in the envelope
    for d in ("smtpd", "qmtpd"):
        rc = (b"joe@a.example", b"eve@evil.example", b"ann@X.B.Example", b"bob@c.example", b"eve@b.example", b"localonly")
        for q in ({"mode": "qq", "exit": 0}, {"mode": "real"}, {"mode": "qq", "exit": 31}):
            if d == "smtpd":
                out.append(smtp(ctl=RCPTHOSTS_CTL, cmds=base_smtp(rcpts=rc), qq=q))
            else:
                out.append(dict(base_qm("qmtpd", rcpts=rc), ctl=RCPTHOSTS_CTL, qq=q))
    return out


# =============================================================================================== oracle self-test

def self_test():
    """Hand-written observations: one good one must pass, each bad one must be refused by the oracle (else the check is vacuous)."""
    sc = {"d": "smtpd", "env": {}, "ctl": {}, "db": {"abs": 100, "via": "ctl"}, "qq": {"mode": "qq", "exit": 0},
          "cmds": base_smtp(helo=False, quit_=False, body={"recv": 0, "deliv": 0, "case": 0, "other": 0, "sep": False, "brecv": 0, "pat": J(b"hi\n"), "len": 3, "nl": True}), "cut": None}
    cfg = M.model_cfg(sc, {}, 100, set())
    good_out = b"220 me.example ESMTP\r\n250 ok\r\n250 ok\r\n354 go ahead\r\n250 ok 1 qp 2\r\n"
    cm = lambda **kw: dict({"msg": M.fake_received(b"SMTP") + b"hi\n", "sender": b"s0@x.example", "rcpts": [b"joe@a.example"], "real": False}, **kw)
    cases = [("good", good_out, [cm()], False),
             ("250 without commit", good_out, [], True),
             ("commit without 250", good_out.replace(b"250 ok 1 qp 2", b"451 qq"), [cm()], True),
             ("extra recipient", good_out, [cm(rcpts=[b"joe@a.example", b"eve@evil.example"])], True),
             ("other sender", good_out, [cm(sender=b"other@x.example")], True),
             ("body altered", good_out, [cm(msg=M.fake_received(b"SMTP") + b"hi\nX")], True),
             ("unsafe byte in Received", good_out, [cm(msg=M.fake_received(b"SMTP", peer=b"(x)") + b"hi\n")], True),
             ("stale date in Received", good_out, [cm(msg=M.fake_received(b"SMTP", when=86400 * 365) + b"hi\n")], True)]
    for name, out, commits, bad in cases:
        v = M.smtp_check(sc, cfg, M.fake_obs(out, commits), {})
        if bool(v) != bad:
            raise vlib.HarnessError("oracle self-test '%s': expected %s, got %r" % (name, "a violation" if bad else "acceptance", v))
    big = dict(sc, cmds=base_smtp(helo=False, quit_=False, body={"recv": 100, "deliv": 0, "case": 1, "other": 0, "sep": True, "brecv": 0, "pat": J(b"x"), "len": 1, "nl": True}))
    stored = M.smtp_decode(M.cmd_wire(big["cmds"][2]))[1]
    v = M.smtp_check(big, M.model_cfg(big, {}, 0, set()), M.fake_obs(good_out, [cm(msg=M.fake_received(b"SMTP") + stored)]), {})
    if not v:
        raise vlib.HarnessError("oracle self-test: 100 Received fields acknowledged and the oracle accepted it")
    v = M.smtp_check(dict(sc), M.model_cfg(sc, {}, 2, set()), M.fake_obs(good_out, [cm()]), {})
    if not v:
        raise vlib.HarnessError("oracle self-test: message over databytes acknowledged and the oracle accepted it")
    # QMTP
    q = base_qm("qmtpd", rcpts=(b"joe@a.example",))
    stream = qmtp_stream(q, {})
    msgs, end, _ = qmtp_parse(stream)
    qcfg = M.model_cfg(q, {}, 0, set())
    qcm = lambda **kw: dict({"msg": M.fake_received(b"QMTP") + msgs[0]["stored"], "sender": b"s0@x.example", "rcpts": [b"joe@a.example"], "real": False}, **kw)
    for name, out, commits, bad in [("good", b"4:Kok ,", [qcm()], False), ("K without commit", b"4:Kok ,", [], True),
                                    ("Z with commit", b"4:Zno ,", [qcm()], True), ("K for nobody", b"4:Kok ,4:Kok ,", [qcm()], True),
                                    ("CR dropped", b"4:Kok ,", [qcm(msg=M.fake_received(b"QMTP") + msgs[0]["stored"].replace(b"\r", b""))], True)]:
        v = qm_check("qmtpd", stream, qcfg, M.fake_obs(out, commits), {})
        if bool(v) != bad:
            raise vlib.HarnessError("oracle self-test qmtp '%s': expected %s, got %r" % (name, "a violation" if bad else "acceptance", v))
    return len(cases) + 7


# =============================================================================================== driver

def regress_scenarios():
    out = []
    d = os.path.join(vlib.VERIF, "corpus", "C07", "regress")
    if os.path.isdir(d):
        for f in sorted(os.listdir(d)):
            if f.endswith(".json"):
                s = json.load(open(os.path.join(d, f)))
                out.append(s.get("scenario", s))
    return out


def extra_tree():
    """second build of the working tree with the extra.h of FAQ 8.2 (a copy of all mail goes to 'log'), or None if extra.h changed form"""
    import re as _re
    t2 = vlib.Tree(tag="-extra")
    xp = t2.path("extra.h")
    x = open(xp).read()
    x2 = _re.sub(r'#define QUEUE_EXTRA ""', '#define QUEUE_EXTRA "Tlog\\0"', _re.sub(r"#define QUEUE_EXTRALEN 0", "#define QUEUE_EXTRALEN 5", x))
    if x2 == x or "Tlog" not in x2:
        return None
    open(xp, "w").write(x2)
    t2.make(*M.TARGETS)
    return t2


def worker(job):
    tree, wid, seed, plan, fixed, listed = job
    LISTED.clear()
    LISTED.update(listed)
    stats = vlib.Stats()
    r = M.Runner(tree, "c07-%s" % wid)
    if str(wid).startswith("x"):
        r.extra_rcpt = b"log"
    local_ips = M.local_ipv4()
    for n, sc in enumerate(fixed):
        if n % 40 == 0 and M.flag_up(plan):
            return stats
        v = run_case(r, sc, stats, local_ips)
        if v:
            stats.violations.append((v, sc))
            M.raise_flag(plan)
            return stats
    stats.cls("systematic_cases", len(fixed))

    def runfn(sc, stats):
        return run_case(r, sc, stats, local_ips)
    M.search_rounds(scenario_st, runfn, seed, stats, plan)
    return stats


def run(ctx):
    sandbox.ensure_shim()
    tree = vlib.Tree().make(*M.TARGETS)
    listed = [s for s in KNOWN_SIGS if any(k.get("sig") == s for k in ctx.known)]
    ctx.notes["oracle_selftest_cases"] = self_test()
    fixed = regress_scenarios() + systematic(ctx.tier)
    if getattr(ctx, "only", None) and "hyp" in ctx.only:      # debugging / sensitivity of the random generator alone
        fixed = []
    nw = vlib.NCPU
    plan = M.round_plan(ctx)
    jobs = [(tree, i, vlib.subseed(ctx.seed, "c07", i), plan, fixed[i::nw], listed) for i in range(nw)]
    ctx.stats.merge(vlib.run_workers(worker, jobs))
    for sig, n in list(ctx.stats.known_hits.items()):
        ctx.stats.known_hits[sig] = n - 1
        ctx.known_finding(sig)
    ctx.notes["systematic_total"] = len(fixed)
    if not ctx.stats.violations and not getattr(ctx, "only", None):
        # the documented "copy of all mail" build (FAQ 8.2): the sessions that go through the real queue program once more - what is
        # acknowledged is still exactly what was queued, next to the extra recipient (added after seeded change C07-M)
        t2 = extra_tree()
        if t2 is not None:
            realq = [dict(sc, queue_extra=True) for sc in fixed if sc.get("qq", {}).get("mode") == "real" and not sc.get("fault") and not sc["qq"].get("trig") and not sc.get("sysfault")][:96]
            st2 = vlib.run_workers(worker, [(t2, "x%d" % i, 1, dict(plan, min=0, max=0), realq[i::nw], listed) for i in range(nw)]) if realq else None
            if st2 is not None:
                st2.violations = [("FAQ 8.2 build (QUEUE_EXTRA \"Tlog\\0\"): " + m, sc_) for m, sc_ in st2.violations]
                ctx.stats.merge(st2)
                ctx.stats.cls("faq82_build_sessions", len(realq))
    need = ["d_smtpd", "d_qmtpd", "d_qmqpd", "acked", "neg_permanent", "neg_temporary", "cut", "qq_real", "hops", "size", "framing_bad"]
    starved = [c for c in need if not ctx.stats.classes.get(c)]
    if starved and not ctx.stats.violations and not getattr(ctx, "only", None):
        raise vlib.HarnessError("GENERATOR-STARVED: classes never reached: %s" % starved)


def replay(ctx, path):
    sandbox.ensure_shim()
    tree = vlib.Tree().make(*M.TARGETS)
    sc = json.load(open(path))
    sc = sc.get("scenario", sc)
    LISTED.clear()
    LISTED.update(KNOWN_SIGS)          # replay is strict: nothing is remapped, nothing is suppressed
    SUPPRESS[0] = False
    if sc.get("queue_extra"):
        tree = extra_tree()
        if tree is None:
            raise vlib.HarnessError("extra.h cannot be switched to the FAQ 8.2 form")
    r = M.Runner(tree, "c07-replay")
    if sc.get("queue_extra"):
        r.extra_rcpt = b"log"
    v = run_case(r, sc, ctx.stats, M.local_ipv4())
    return [v] if v else []
