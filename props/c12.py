"""C12 - Mailbox deliveries are complete or absent: maildir atomic, mbox rolled back.

Real qmail-local under vshim with .qmail = "./Maildir/" or "./mbox", message on a seekable stdin file. For every generated
(message, sender, recipient, previous mailbox content) the golden run's trace is recorded; then crash points (VSHIM_CRASH with
VSHIM_CRASH_GEN selecting the forked maildir writer or the parent, post-crash images kept / lost built from the VSHIM_SHADOW
copies taken at every successful fsync) and single faults (VSHIM_FAULT + VSHIM_FAULT_GEN: chdir/open/read/write/fsync/close/
link/unlink/flock/lseek/fork, errno or short) of that trace are re-executed: all of them for the deterministic boundary
inputs and in the thorough tier, a tape-selected dozen per Hypothesis input in the quick tier.

Oracle (DESIGN.md 5/C12).  maildir: every new entry of new/ is byte-identical to Return-Path + Delivered-To + message in the
`kept` and in the `lost` image, was created by link() from tmp/ after a successful fsync that covers all its data, new/ is never
open()ed, pre-existing files are untouched, at most one new entry; exit 0 <=> exactly one new entry; a non-crash failure => exit
111 and no entry; an injected (non-EINTR) failure of open/write/fsync/close/link must be reported (111); a 24-hour alarm is armed
before tmp/ is created (maildir.5); a killed writer makes the parent report 111.  mbox: exit 0 => file = before + entry, the
entry starts with a From_ line of the documented format, ends with a blank line, and the mboxrd reader of mbox.5 returns the
previous messages followed by exactly Return-Path + Delivered-To + message (+ newline if the last line was partial); any other
outcome of a non-crash run => exit 111 and the file is byte-identical to `before` (a failing flock is documented to deliver
unlocked, without roll-back); injected write/fsync failures must be reported; in runs without a flock fault all writes happen
between a successful flock(LOCK_EX) and close; crash images only need `before` as an unaltered prefix.
Concurrency: 2-3 real simultaneous deliveries to one mbox / one maildir, many rounds (all messages intact, names distinct),
plus a held-lock test (another process holds flock: nothing may be appended meanwhile).

A violation is reported only if it reproduces on two further executions of the same run (otherwise inconclusive/`unreproducible`).
Slack: files left in tmp/ ("may attempt to unlink"); exit status / roll-back after a failing flock; EINTR and short writes may be
retried. Systematic interleavings of concurrent deliveries run through props/c12_gate.py (gate scheduler). In this file only real-time concurrency (was: left to the lead
here); ftruncate faults (would need two faults in one run); a generated intermediate truncation length for mbox crash images
(mbox crash images are unconstrained anyway)."""
import os, re, json, errno, fcntl, threading, time, shutil
from lib import vlib, sandbox
from props import local_common as lc
from hypothesis import strategies as st

LEVEL = "fault_enumeration"
RULE = ("Hypothesis generates (mailbox kind, message from a pool of From_/>From_/NUL/8-bit/partial-line pieces padded to sizes around "
        "the 1024-byte buffers, envelope sender/recipient incl. spaces, tabs, newlines, previous mailbox content); per input one "
        "golden run, then crash points x {machine crash, writer killed} and fault sites x errno|short of the golden trace "
        "(all for boundary inputs / thorough, 12 tape-selected in quick). Non-trivial = the message has a >*From_ line or lacks the "
        "final newline, or the mode is not golden and the crash point / fault site was reached; distinct = (input digest, mode).")
ASSUMPTIONS = ["crash = stop before a system call; unsynced file data may be lost per file, directory operations are durable (conf-qmail)",
               "one injected fault per run", "the check runs as root on tmpfs; flock() is the locking primitive (HASFLOCK)",
               "concurrent deliveries are real processes started at the same instant; their interleaving is not controlled"]

POOL = [b"From x", b">From y", b">>From z", b"From", b"Fromage", b">", b">>", b"", b"plain text", b"\x00nul\x00", b"8bit \xe9\xff",
        b"From \r", b"crlf\r", b" From z", b">From", b">>>>From q", b"From ", b">From ", b"from lower", b"FROM UPPER", b"Subject: x",
        b"From\tTab", b">\x00From x", b"From x\x00y"]
SIZES = [1023, 1024, 1025, 2047, 2048, 2049, 3071, 3072, 3073, 4096]
E = errno
KINDS = {
    "write": ["short", E.EIO, E.EINTR, E.ENOSPC, E.EDQUOT],
    "read": ["short", E.EIO, E.EINTR],
    "open": [E.ENFILE, E.EACCES, E.ENOSPC, E.EEXIST, E.EINTR],
    "fsync": [E.EIO, E.ENOSPC, E.EINTR],
    "close": [E.EIO, E.ENOSPC, E.EDQUOT],
    "link": [E.EEXIST, E.ENOSPC, E.EIO, E.EMLINK],
    "unlink": [E.EIO],
    "chdir": [E.EIO, E.EACCES, E.ENOENT],
    "fork": [E.EAGAIN, E.ENOMEM],
    "lseek": [E.EIO],
    "flock": [E.ENOLCK, E.EINTR],
}


def build_msg(m):
    out = []
    for p in m["parts"]:
        if "l" in p:
            out.append(POOL[p["l"] % len(POOL)] + b"\n")
        elif "f" in p:
            out.append(b"x" * p["f"])
        elif "fl" in p:
            n = p["fl"]
            out.append((b"filler line 0123456789 abcdefghijklmnopqrstuvwxyz ABCDEFGHIJKLMNOPQRSTUVWXYZ\n" * (n // 70 + 1))[-n:] if n else b"")
    data = b"".join(out)
    if not m.get("final_nl", True) and data.endswith(b"\n"):
        data = data[:-1]
    return data


def concrete(sc):
    sender, local, host = lc.b(sc["sender"]), lc.b(sc["local"]), lc.b(sc["host"])
    rp, dt = lc.rpline(sender), lc.dtline(local, host)
    msg = build_msg(sc["msg"])
    tgt = sc["msg"].get("target")
    if tgt:
        n = tgt - (len(rp) + len(dt) if sc["msg"].get("total") else 0)
        if n >= 0:
            keep_nl = msg.endswith(b"\n")
            if len(msg) < n:
                msg = msg[:-1] + b"y" * (n - len(msg)) + b"\n" if keep_nl else msg + b"y" * (n - len(msg))
            else:
                msg = msg[:n]
    return sender, local, host, rp, dt, msg


# ------------------------------------------------------------------ the sandbox for one input

class Case:
    def __init__(self, box, sc):
        self.box = box
        self.sc = sc
        self.kind = sc["kind"]
        self.sender, self.local, self.host, self.rp, self.dt, self.msg = concrete(sc)
        self.want = self.rp + self.dt + self.msg
        self.prev = [build_msg(m) for m in sc.get("before", [])]
        home = box.home
        box.reset()
        with open(os.path.join(home, ".qmail"), "w") as f:
            # "first": another instruction in front of the delivery under test has already read (all or part of) the message from the shared
            # descriptor - every delivery instruction gets the whole message nevertheless (added after seeded change C12-I)
            if sc.get("first"):
                f.write(sc["first"] + "\n")
                for ln in sc["first"].split("\n"):
                    if ln.endswith("/"):
                        for s_ in ("tmp", "new", "cur"):
                            os.makedirs(os.path.join(home, ln[2:-1], s_), exist_ok=True)
            f.write("./Maildir/\n" if self.kind == "maildir" else "./mbox\n")
        with open(box.msgf, "wb") as f:
            f.write(self.msg)
        self.md = os.path.join(home, "Maildir")
        self.mbox = os.path.join(home, "mbox")
        if self.kind == "maildir":
            for s in ("tmp", "new", "cur"):
                os.makedirs(os.path.join(self.md, s))
            self.pre = {}
            for i, m in enumerate(self.prev):
                self.pre[("new" if i % 2 == 0 else "cur") + "/1000000%d.%d.oldhost" % (i, 100 + i)] = b"Return-Path: <old@x>\n" + m
            for extra in sc.get("collide", []):
                self.pre[extra + "/1000000000.4242.vhost"] = b"someone else's file\n"
            self.before = None
        else:
            parts = []
            if sc.get("garbage"):
                parts.append(b"stray line before the first From_ line\n")
            for i, m in enumerate(self.prev):
                parts.append(lc.mbox_write(b"old%d@x" % i, b"Return-Path: <old@x>\n" + m))
            self.before = b"".join(parts) if (parts or sc.get("exists")) else None
        self.argv = box.argv("joe", self.local, "", "", self.host, self.sender, "./Mailbox")

    def restore(self):
        if self.kind == "maildir":
            for s in ("tmp", "new", "cur"):
                d = os.path.join(self.md, s)
                for f in os.listdir(d):
                    os.unlink(os.path.join(d, f))
            for rel, data in self.pre.items():
                with open(os.path.join(self.md, rel), "wb") as f:
                    f.write(data)
        else:
            if self.before is None:
                try:
                    os.unlink(self.mbox)
                except FileNotFoundError:
                    pass
            else:
                with open(self.mbox, "wb") as f:
                    f.write(self.before)
        self.box.clear_run()

    def execute(self, crash=None, fault=None, collide=False):
        """crash = (gen, k, machine?) ; fault = (gen, cls, k, kind)"""
        self.restore()
        extra = {}
        if crash:
            extra["VSHIM_CRASH"] = "qmail-local:%d" % crash[1]
            extra["VSHIM_CRASH_GEN"] = crash[0]
            if crash[2]:
                extra["VSHIM_CRASHFLAG"] = self.box.flag
        if fault:
            extra["VSHIM_FAULT"] = "qmail-local:%s:%d:%s" % (fault[1], fault[2], fault[3])
            extra["VSHIM_FAULT_GEN"] = fault[0]
        if collide:
            extra.update(VSHIM_FIXPID="4242", VSHIM_FIXTIME="1000000000", VSHIM_FIXHOST="vhost")
        rc, out, err, t0, t1 = self.box.run(self.argv, self.box.env(**extra))
        return rc, err, t0, t1, self.box.h.read_trace()


# ------------------------------------------------------------------ oracles

def md_state(c):
    """-> (new entries {name: (kept, lost)}, error) ; also checks that pre-existing files are untouched."""
    box = c.box
    new = {}
    for sub in ("new", "cur", "tmp"):
        d = os.path.join(c.md, sub)
        for f in os.listdir(d):
            rel = sub + "/" + f
            p = os.path.join(d, f)
            data = open(p, "rb").read()
            if rel in c.pre:
                if data != c.pre[rel]:
                    return None, None, "pre-existing file %s was modified" % rel
                continue
            ino = os.stat(p).st_ino
            try:
                lost = open(os.path.join(box.shadow, str(ino)), "rb").read()
            except FileNotFoundError:
                lost = b""
            new[rel] = (data, lost, ino)
    for rel in c.pre:
        if not os.path.exists(os.path.join(c.md, rel)):
            return None, None, "pre-existing file %s disappeared" % rel
    ents = {k: v for k, v in new.items() if k.startswith("new/")}
    other = {k: v for k, v in new.items() if not k.startswith("new/")}
    return ents, other, None


def md_trace_check(events, rel, ino):
    tag = "ino:%d:" % ino
    li = None
    for i, e in enumerate(events):
        if e["call"] == "open" and sandbox.unesc(e["a"][0]).startswith("new/"):
            return "a file in new/ was open()ed directly: %r" % e["a"][0]
        if e["call"] == "link" and sandbox.unesc(e["a"][1]) == rel and e["a"][2] == "0":
            li = i
    if li is None:
        return "entry %s was not created by link()" % rel
    if not sandbox.unesc(events[li]["a"][0]).startswith("tmp/"):
        return "entry %s was linked from %r, not from tmp/" % (rel, events[li]["a"][0])
    fs = [i for i, e in enumerate(events) if e["call"] == "fsync" and e["a"][1].startswith(tag) and e["a"][2] == "0" and i < li]
    if not fs:
        return "entry %s: no successful fsync of its data before the link" % rel
    wr = [i for i, e in enumerate(events) if e["call"] == "write" and e["a"][1].startswith(tag)]
    if wr and wr[-1] > fs[-1]:
        return "entry %s: data written after the last fsync" % rel
    return None


def judge_maildir(c, mode, rc, events, stats):
    ents, other, err = md_state(c)
    if err:
        return err
    if other:
        stats.slack += 1
        stats.cls("tmp_leftover")
        if any(not k.startswith("tmp/") for k in other):
            return "stray files %r" % sorted(other)
    if len(ents) > 1:
        return "%d new entries in new/ for one delivery" % len(ents)
    for rel, (kept, lost, ino) in ents.items():
        if kept != c.want:
            return ("entry %s differs from Return-Path + Delivered-To + message (len %d, documented %d): %r"
                    % (rel, len(kept), len(c.want), kept[:150]))
        if lost != c.want:
            return "entry %s is visible in new/ but only %d of %d bytes were synced (lost image incomplete)" % (rel, len(lost), len(c.want))
        e = md_trace_check(events, rel, ino)
        if e:
            return e
    kind = mode[0]
    if rc == 0 and len(ents) != 1:
        return "exit 0 but new/ has no new entry"
    if kind in ("golden", "fault", "collide"):
        if rc != 0:
            if rc != 111:
                return "failure reported with exit %s, documented 111" % rc
            if ents:
                return "exit 111 although the message is in new/"
        if kind == "golden" and rc != 0:
            return "fault-free delivery failed with exit %s" % rc
        if kind == "fault":
            _, gen, cls, k, fk = mode
            if gen == 1 and fk not in ("short", str(E.EINTR)) and cls in ("write", "fsync", "close", "link", "open") and \
                    not (cls == "open" and fk == str(E.EEXIST)) and rc == 0:
                return "injected %s failure (errno %s) in the maildir writer was not reported (exit 0)" % (cls, fk)
    elif kind == "kill":
        if rc not in (0, 111):
            return "writer killed: parent exit %s, documented 111" % rc
    if kind == "golden":
        main = lc.main_pid(events)
        child = [e for e in events if e["pid"] != main and e["key"].endswith(".qmail-local")]
        al = [i for i, e in enumerate(child) if e["call"] == "alarm" and 0 < int(e["a"][0]) <= 86400]
        op = [i for i, e in enumerate(child) if e["call"] == "open"]
        if op and (not al or al[0] > op[0]):
            return "no 24-hour timer armed before the tmp/ file is created"
    return None


def mbox_complete(c, after, t0, t1):
    before = c.before or b""
    if not after.startswith(before):
        return "previous mailbox content was altered"
    x = after[len(before):]
    if not x.startswith(b"From "):
        return "appended entry does not start with a From_ line: %r" % x[:80]
    pre, msgs = lc.mbox_read(x)
    if len(msgs) != 1:
        return "reader splits the appended entry into %d messages" % len(msgs)
    e = lc.check_ufline(msgs[0][0], c.sender, t0, t1)
    if e:
        return e
    want = c.rp + c.dt + lc.delivered(c.msg)
    if msgs[0][1] != want:
        return "reader returns %r... (len %d), documented Return-Path + Delivered-To + message (len %d)" % (msgs[0][1][:120], len(msgs[0][1]), len(want))
    if not x.endswith(b"\n\n"):
        return "appended entry does not end with a blank line"
    p0, m0 = lc.mbox_read(before)
    p1, m1 = lc.mbox_read(after)
    if p1 != p0 or m1[:-1] != m0 or m1[-1] != msgs[0]:
        return "reader over the whole file does not return the previous messages followed by the delivered one"
    return None


def mbox_lock_check(events, inode):
    tag = "ino:%d:" % inode
    locked = False
    for e in events:
        c, a = e["call"], e["a"]
        if c == "flock" and a[1].startswith(tag) and a[-2:] == ["0", "0"] and int(a[2]) & fcntl.LOCK_EX:
            locked = True
        elif c == "flock" and a[1].startswith(tag) and a[-2:] == ["0", "0"] and int(a[2]) & fcntl.LOCK_UN:
            locked = False
        elif c == "close" and a[1].startswith(tag):
            locked = False
        elif c == "write" and a[1].startswith(tag) and not locked:
            return "data appended to the mbox outside a successful flock(LOCK_EX) ... close section"
        elif c == "ftruncate" and a[1].startswith(tag) and not locked:
            # the roll-back belongs to the append: once the lock is gone another delivery may have appended behind this one, and cutting the
            # file back to the remembered length would destroy it
            return "the mbox was cut back (roll-back after a failed write) outside the flock(LOCK_EX) ... close section"
    return None


def judge_mbox(c, mode, rc, events, t0, t1, stats):
    before = c.before or b""
    try:
        after = open(c.mbox, "rb").read()
        inode = os.stat(c.mbox).st_ino
    except FileNotFoundError:
        after, inode = b"", None
    kind = mode[0]
    if not after.startswith(before):
        return "bytes of the previous mailbox content were altered"
    if kind == "crash":
        if rc == 0:
            return mbox_complete(c, after, t0, t1)
        return None
    flockfault = kind == "fault" and mode[2] == "flock"
    if rc == 0:
        e = mbox_complete(c, after, t0, t1)
        if e:
            return e
        if not flockfault and inode is not None:
            e = mbox_lock_check(events, inode)
            if e:
                return e
    else:
        if kind == "golden":
            return "fault-free delivery failed with exit %s" % rc
        if flockfault:
            stats.slack += 1
            return None
        if rc != 111:
            return "failure reported with exit %s, documented 111" % rc
        if after != before:
            return "exit 111 but the mbox was not restored: %d bytes, before %d" % (len(after), len(before))
        if inode is not None:
            e = mbox_lock_check(events, inode)
            if e:
                return e
    if kind == "fault" and rc == 0:
        _, gen, cls, k, fk = mode
        if cls in ("write", "fsync") and fk not in ("short", str(E.EINTR)):
            return "injected %s failure (errno %s) while the lock was held was not reported (exit 0)" % (cls, fk)
    return None


# ------------------------------------------------------------------ plans

def make_plans(c, gold):
    main = lc.main_pid(gold)
    mcount = {}
    for e in gold:
        if e["call"] == "M" and e["key"].endswith(".qmail-local"):
            mcount[e["pid"]] = mcount.get(e["pid"], 0) + 1
    plans = []
    kids = [p for p in mcount if p != main]
    if c.kind == "maildir":
        nchild = mcount.get(kids[0], 0) if kids else 0
        for k in range(nchild + 1):
            plans.append(("crash", 1, k, True))
        for k in range(nchild):
            plans.append(("kill", 1, k, False))
    for k in range(mcount.get(main, 0) + (1 if c.kind == "mbox" else 0)):
        plans.append(("crash", 0, k, True))
    # fault sites
    start = None
    for i, e in enumerate(gold):
        if e["pid"] == main and e["call"] == "open" and sandbox.unesc(e["a"][0]) == "./mbox":
            start = i
    sites = sandbox.fault_sites(gold, "loc")
    idx = {id(e): i for i, e in enumerate(gold)}
    last_lseek = None
    for cls, k, ev in sites:
        if not ev["key"].endswith(".qmail-local"):
            continue
        gen = 0 if ev["pid"] == main else 1
        i = idx[id(ev)]
        ok = False
        if c.kind == "maildir":
            if gen == 1 and cls in ("chdir", "open", "read", "write", "fsync", "close", "link", "unlink"):
                ok = True
            elif gen == 0 and cls == "fork":
                ok = True
                if last_lseek is not None:
                    for fk in KINDS["lseek"]:
                        plans.append(("fault", 0, "lseek", last_lseek, str(fk)))
            elif gen == 0 and cls == "lseek":
                last_lseek = k
        else:
            if gen == 0 and cls == "lseek":
                last_lseek = k
            if gen == 0 and start is not None and i >= start:
                if cls in ("open", "flock", "lseek", "read", "fsync"):
                    ok = True
                elif cls in ("write", "close") and sandbox.unesc(ev["a"][1]).endswith("/mbox"):
                    ok = True
                if cls == "open" and last_lseek is not None:
                    for fk in KINDS["lseek"]:
                        plans.append(("fault", 0, "lseek", last_lseek, str(fk)))
        if ok:
            for fk in KINDS[cls]:
                plans.append(("fault", gen, cls, k, str(fk)))
    # canonical order: trace lines of parent and child interleave differently from run to run, the tape must not depend on that
    return sorted(set(plans))


def nontrivial_msg(msg):
    return bool(re.search(rb"(?m)^>*From ", msg)) or (msg != b"" and not msg.endswith(b"\n"))


def run_input(box, sc, stats, full=True, pick=12):
    c = Case(box, sc)
    key_in = vlib.digest(sc)[:12]
    icls = ["kind_" + c.kind]
    if nontrivial_msg(c.msg):
        icls.append("msg_from_or_partial")
    if re.search(rb"[ \t\n]", c.sender):
        icls.append("sender_space_tab_nl")
    if b"\n" in c.local + c.host:
        icls.append("rcpt_newline")

    def one(mode, **kw):
        rc, err, t0, t1, ev = c.execute(**kw)
        if rc is None or lc.main_pid(ev) is None:      # watchdog, or the interposer was not loaded: nothing can be judged
            stats.inconclusive += 1
            return None, ev, None
        if c.kind == "maildir":
            v = judge_maildir(c, mode, rc, ev, stats)
        else:
            v = judge_mbox(c, mode, rc, ev, t0, t1, stats)
        hit = True
        if mode[0] in ("crash", "kill"):
            hit = any(e["call"] == "CRASH" for e in ev)
        elif mode[0] == "fault":
            hit = any(e["a"] and e["a"][-1] in ("FAULT", "SHORT") for e in ev)
        cl = list(icls) + ["mode_" + mode[0]]
        if mode[0] == "fault":
            cl.append("fault_%s_%s" % (c.kind, mode[2]))
        if mode[0] == "golden":
            cl.append("exit_%s" % rc)
        stats.case(scenario={"input": sc, "mode": list(mode), "exit": rc},
                   nontrivial=(mode[0] == "golden" and nontrivial_msg(c.msg)) or (mode[0] != "golden" and hit),
                   classes=cl, key=(key_in, mode))
        if v:
            # report only what reproduces on two further executions of the same run (DESIGN.md 1: 'replayed 3x')
            for _ in range(2):
                rc2, err2, t02, t12, ev2 = c.execute(**kw)
                v2 = None if (rc2 is None or lc.main_pid(ev2) is None) else (judge_maildir(c, mode, rc2, ev2, vlib.Stats()) if c.kind == "maildir"
                                               else judge_mbox(c, mode, rc2, ev2, t02, t12, vlib.Stats()))
                if v2 is None:
                    stats.inconclusive += 1
                    stats.cls("unreproducible")
                    stats.extra["unreproducible_example"] = ("%s | mode=%s" % (v, list(mode)))[:1500]
                    dbg = os.environ.get("VERIF_DEBUGLOG")
                    if dbg:
                        with open(dbg, "a") as f:
                            f.write("C12 unreproducible: %s | mode=%s input=%s\n" % (v, list(mode), json.dumps(vlib.jsonable(sc))))
                    return None, ev, rc
            return "%s | mode=%s input=%s" % (v, list(mode), json.dumps(vlib.jsonable(sc))[:1000]), ev, rc
        return None, ev, rc

    if sc.get("collide") and c.kind == "maildir":
        v, _, _ = one(("collide", ",".join(sc["collide"])), collide=True)
        return v
    v, gold, grc = one(("golden",))
    if v or grc is None:
        return v
    if sc.get("first"):
        stats.cls("delivery_after_another_instruction")
        return None             # crash points and fault sites of the trace would mostly belong to the other instruction
    plans = make_plans(c, gold)
    if not plans:
        return None
    if not full:
        tape = sc.get("tape", [])
        plans = [plans[t % len(plans)] for t in tape[:pick]]
    for pl in plans:
        if pl[0] in ("crash", "kill"):
            v, _, _ = one(pl, crash=(pl[1], pl[2], pl[3]))
        else:
            v, _, _ = one(pl, fault=(pl[1], pl[2], pl[3], pl[4]))
        if v:
            return v
    return None


# ------------------------------------------------------------------ concurrency (real time; systematic interleaving via VSHIM_GATE is left to the lead)

def conc_message(i, size):
    line = b"message %d keeps its lines together 0123456789 abcdefghijklmnopqrstuvwxyz\n" % i
    body = b"Subject: m%d\n\n" % i + line * (size // len(line)) + b"From the middle of message %d\n" % i + line * 3
    return body


def run_conc(box, sc, stats):
    """sc = {"conc": kind, "n": 2|3, "sizes": [...], "rounds": r}"""
    kind, n = sc["conc"], sc["n"]
    box.reset()
    home = box.home
    with open(os.path.join(home, ".qmail"), "w") as f:
        f.write("./Maildir/\n" if kind == "maildir" else "./mbox\n")
    for s in ("tmp", "new", "cur"):
        os.makedirs(os.path.join(home, "Maildir", s))
    msgs, files = [], []
    for i in range(n):
        m = conc_message(i, sc["sizes"][i % len(sc["sizes"])])
        p = os.path.join(box.h.dir, "conc%d.msg" % i)
        with open(p, "wb") as f:
            f.write(m)
        msgs.append(m)
        files.append(p)
    before = lc.mbox_write(b"old@x", b"Subject: old\n\nold message\n")
    for rnd in range(sc["rounds"]):
        box.clear_run()
        for f in os.listdir(os.path.join(home, "Maildir", "new")):
            os.unlink(os.path.join(home, "Maildir", "new", f))
        with open(os.path.join(home, "mbox"), "wb") as f:
            f.write(before)
        env = box.env()
        env.pop("VSHIM_TRACE", None)
        jobs = [(box.argv("joe", "joe", "", "", "h.example", "s%d@x.example" % i, "./Mailbox"), env, files[i]) for i in range(n)]
        res = lc.run_parallel(box, jobs)
        if any(r[0] is None for r in res):
            stats.inconclusive += 1
            continue
        stats.case(scenario=sc, nontrivial=True, classes=["conc_%s_%d" % (kind, n)], key=("conc", kind, n, tuple(sc["sizes"]), rnd))
        if any(r[0] != 0 for r in res):
            return "concurrent %s deliveries: exit statuses %r" % (kind, [r[0] for r in res])
        want = sorted(lc.rpline(b"s%d@x.example" % i) + lc.dtline(b"joe", b"h.example") + msgs[i] for i in range(n))
        if kind == "mbox":
            data = open(os.path.join(home, "mbox"), "rb").read()
            if not data.startswith(before):
                return "concurrent mbox deliveries altered the previous content"
            pre, got = lc.mbox_read(data[len(before):])
            if pre or sorted(g[1] for g in got) != want:
                return ("concurrent mbox deliveries interleaved: reader returns %d messages, %d intact of %d"
                        % (len(got), len([g for g in got if g[1] in want]), n))
        else:
            names = os.listdir(os.path.join(home, "Maildir", "new"))
            if len(names) != n:
                return "concurrent maildir deliveries: %d entries for %d successful deliveries (names not distinct?)" % (len(names), n)
            got = sorted(open(os.path.join(home, "Maildir", "new", f), "rb").read() for f in names)
            if got != want:
                return "concurrent maildir deliveries: entries are not the delivered messages"
    return None


def run_heldlock(box, sc, stats):
    """Another process holds the exclusive flock: the delivery must wait (nothing appended), then complete."""
    box.reset()
    home = box.home
    with open(os.path.join(home, ".qmail"), "w") as f:
        f.write("./mbox\n")
    msg = conc_message(7, sc["size"])
    with open(box.msgf, "wb") as f:
        f.write(msg)
    before = lc.mbox_write(b"old@x", b"Subject: old\n\nold message\n")
    mb = os.path.join(home, "mbox")
    with open(mb, "wb") as f:
        f.write(before)
    res = {}
    env = box.env()

    def go():
        res["r"] = box.run(box.argv("joe", "joe", "", "", "h.example", "s@x.example", "./Mailbox"), env)
    fd = os.open(mb, os.O_RDWR)
    try:
        fcntl.flock(fd, fcntl.LOCK_EX)
        th = threading.Thread(target=go)
        th.start()
        th.join(sc.get("hold", 0.25))
        finished_early = not th.is_alive()
        mid = open(mb, "rb").read()
        fcntl.flock(fd, fcntl.LOCK_UN)
    finally:
        os.close(fd)
    th.join()
    rc = res["r"][0]
    if rc is None:
        stats.inconclusive += 1
        return None
    stats.case(scenario=sc, nontrivial=True, classes=["heldlock", "heldlock_waited" if not finished_early else "heldlock_early"],
               key=("heldlock", sc["size"]))
    if mid != before:
        return "mbox changed (%d -> %d bytes) while another process held the exclusive lock" % (len(before), len(mid))
    if finished_early and rc == 0:
        return "delivery reported success while another process held the exclusive lock"
    if rc != 0:
        return "delivery failed with exit %s after the lock was released" % rc
    after = open(mb, "rb").read()
    pre, got = lc.mbox_read(after[len(before):])
    if not after.startswith(before) or pre or len(got) != 1 or got[0][1] != lc.rpline(b"s@x.example") + lc.dtline(b"joe", b"h.example") + msg:
        return "delivery after the lock was released is not complete"
    return None


def run_scenario(box, sc, stats, full):
    if "conc" in sc:
        return run_conc(box, sc, stats)
    if "heldlock" in sc:
        return run_heldlock(box, sc, stats)
    return run_input(box, sc, stats, full=full)


# ------------------------------------------------------------------ generators

part = st.one_of(
    st.fixed_dictionaries({"l": st.integers(0, len(POOL) - 1)}), st.fixed_dictionaries({"l": st.integers(0, len(POOL) - 1)}),
    st.fixed_dictionaries({"l": st.sampled_from([0, 1, 2, 16, 17])}),
    st.fixed_dictionaries({"f": st.one_of(st.integers(0, 40), st.integers(900, 1100), st.integers(0, 2100))}),
    st.fixed_dictionaries({"fl": st.one_of(st.integers(0, 200), st.integers(900, 1100), st.integers(0, 3000))}))
msg_st = st.fixed_dictionaries({
    "parts": st.lists(part, min_size=0, max_size=7),
    "final_nl": st.sampled_from([True, True, False]),
    "target": st.one_of(st.none(), st.none(), st.sampled_from(SIZES), st.integers(0, 5)),
    "total": st.booleans(),
})
small_msg = st.fixed_dictionaries({"parts": st.lists(st.fixed_dictionaries({"l": st.integers(0, len(POOL) - 1)}), max_size=3),
                                   "final_nl": st.booleans()})
SENDERS = ["s@x.example", "", "#@[]", "a b@c.example", "tab\t@x", "new\nline@x.example", "multi\nFrom evil Thu Jan 01 00:00:00 1970\n\n@x",
           "q\"uote@x", "back\\slash@x", " ", "\n", "8bit\xe9@x", "no-at", "a@b@c", ".dot@x", "trailing space @x ", "\r\n@x"]
LOCALS = ["joe", "joe", "joe", "jo e", "new\nline", "x\nFrom evil Thu Jan 01 00:00:00 1970"]
HOSTS = ["h.example", "h.example", "h.example", "h\nX-Injected: yes", ""]
scenario = st.fixed_dictionaries({
    "kind": st.sampled_from(["maildir", "mbox"]),
    "msg": msg_st,
    "sender": st.one_of(st.sampled_from(SENDERS), st.text(alphabet=st.characters(min_codepoint=1, max_codepoint=255), max_size=10)),
    "local": st.sampled_from(LOCALS), "host": st.sampled_from(HOSTS),
    "before": st.lists(small_msg, max_size=3),
    "garbage": st.sampled_from([False, False, False, True]),
    "exists": st.booleans(),
    "collide": st.sampled_from([[]] * 30 + [["tmp"], ["new"], ["tmp", "new"]]),
    "first": st.sampled_from([None] * 8 + ["./other.mbox", "./Other/", "|cat >/dev/null", "|head -c 7 >/dev/null; exit 0"]),
    "tape": st.lists(st.integers(0, 10 ** 6), min_size=12, max_size=12),
})


def base_sc(kind, parts, final_nl=True, target=None, total=False, sender="s@x.example", local="joe", host="h.example", before=(), **kw):
    sc = {"kind": kind, "msg": {"parts": list(parts), "final_nl": final_nl, "target": target, "total": total}, "sender": sender,
          "local": local, "host": host, "before": list(before), "garbage": False, "exists": False, "tape": []}
    sc.update(kw)
    return sc


def boundary_inputs():
    out = []
    old = [{"parts": [{"l": 0}, {"l": 8}], "final_nl": True}, {"parts": [{"l": 1}], "final_nl": False}]
    for kind in ("maildir", "mbox"):
        out.append(base_sc(kind, []))                                            # empty message
        out.append(base_sc(kind, [{"l": 8}], final_nl=False))                    # partial last line
        out.append(base_sc(kind, [{"l": 7}]))                                    # a single newline
        out.append(base_sc(kind, [{"l": 0}, {"l": 1}, {"l": 2}, {"l": 3}, {"l": 6}, {"l": 16}, {"l": 17}], before=old))
        out.append(base_sc(kind, [{"l": 0}], final_nl=False, before=old, garbage=True))
        out.append(base_sc(kind, [{"l": 9}, {"l": 10}, {"l": 22}, {"l": 23}, {"l": 11}]))
        for n in SIZES[:6]:
            out.append(base_sc(kind, [{"fl": 300}, {"l": 0}], target=n))
            out.append(base_sc(kind, [{"fl": 300}, {"l": 1}], target=n, total=True, final_nl=False))
        # a From_ line that straddles the 1024-byte input buffer
        for off in (1019, 1020, 1021, 1022, 1023, 1024):
            out.append(base_sc(kind, [{"fl": off}, {"l": 0}, {"l": 8}]))
        for snd in SENDERS:
            out.append(base_sc(kind, [{"l": 0}, {"l": 8}], sender=snd, before=old[:1]))
        out.append(base_sc(kind, [{"l": 8}], local="new\nline", host="h\nX-Injected: yes", sender="a\nb@c"))
        out.append(base_sc(kind, [{"l": 8}], exists=True))
    for kind in ("maildir", "mbox"):
        for first in ("./other.mbox", "./Other/", "|cat >/dev/null", "|head -c 7 >/dev/null; exit 0", "|exit 0", "./other.mbox\n./Other/"):
            out.append(base_sc(kind, [{"fl": 300}, {"l": 0}, {"l": 8}], target=3000, first=first))
            out.append(base_sc(kind, [{"l": 8}], first=first, before=old[:1]))
    out.append(base_sc("maildir", [{"l": 8}], collide=["tmp"]))
    out.append(base_sc("maildir", [{"l": 8}], collide=["new"]))
    out.append(base_sc("maildir", [{"l": 8}], collide=["tmp", "new"], before=old))
    return out


def conc_inputs(rounds):
    out = []
    for kind in ("mbox", "maildir"):
        for n in (2, 3):
            out.append({"conc": kind, "n": n, "sizes": [3000, 9000, 20000], "rounds": rounds})
            out.append({"conc": kind, "n": n, "sizes": [40000, 40000, 40000], "rounds": rounds})
    for size in (100, 5000, 50000):
        out.append({"heldlock": 1, "size": size, "hold": 0.25})
    return out


# ------------------------------------------------------------------ driver

def worker(job):
    tree, wid, seed, nex, tier, fixed = job
    stats = vlib.Stats()
    box = lc.Box(tree, "c12-%s" % wid)
    for sc in fixed:
        v = run_scenario(box, sc, stats, True)
        if v:
            stats.violations.append((v, sc))
            return stats

    def runfn(sc, stats):
        stats.cls("hypothesis_examples")
        return run_input(box, sc, stats, full=(tier == "thorough"))
    if nex:
        vlib.hyp_search(scenario, runfn, nex, seed, stats)
    return stats


def run(ctx):
    sandbox.ensure_shim()
    tree = vlib.Tree().make("qmail-local")
    fixed = []
    d = os.path.join(vlib.VERIF, "corpus", "C12", "regress")
    if os.path.isdir(d):
        for f in sorted(os.listdir(d)):
            if f.endswith(".json"):
                x = json.load(open(os.path.join(d, f)))
                fixed.append(x.get("scenario", x))
    fixed += boundary_inputs() + conc_inputs(ctx.n(12, 150))
    nw = vlib.NCPU
    per = ctx.n(600, 1200)
    jobs = [(tree, i, vlib.subseed(ctx.seed, "c12", i), per, ctx.tier, fixed[i::nw]) for i in range(nw)]
    ctx.stats.merge(vlib.run_workers(worker, jobs))
    ctx.notes["fixed_inputs"] = len(fixed)
    # systematic interleavings of concurrent deliveries under the gate scheduler (props/c12_gate.py, added by the lead)
    if ctx.only is None or "gate" in ctx.only:
        from props import c12_gate
        c12_gate.run_gate(ctx, tree)
    if not ctx.stats.violations:
        need = ["mode_golden", "mode_crash", "mode_kill", "mode_fault", "mode_collide", "kind_maildir", "kind_mbox", "msg_from_or_partial",
                "sender_space_tab_nl", "conc_mbox_2", "conc_mbox_3", "conc_maildir_2", "conc_maildir_3", "heldlock"] + \
               ["fault_maildir_" + c for c in ("chdir", "open", "read", "write", "fsync", "close", "link", "unlink", "fork", "lseek")] + \
               ["fault_mbox_" + c for c in ("open", "flock", "lseek", "read", "write", "fsync", "close")]
        missing = [c for c in need if not ctx.stats.classes.get(c)]
        if missing:
            raise vlib.HarnessError("GENERATOR-STARVED: classes never produced: %s" % missing)


def replay(ctx, path):
    j0 = json.load(open(path))
    sc0 = j0.get("scenario", j0)
    if isinstance(sc0, dict) and "kind" in sc0 and "msgs" in sc0 and "tape" in sc0:
        from props import c12_gate
        sandbox.ensure_shim()
        return c12_gate.replay_gate(vlib.Tree().make("qmail-local"), sc0)
    return _replay(ctx, path)


def _replay(ctx, path):
    sandbox.ensure_shim()
    tree = vlib.Tree().make("qmail-local")
    sc = json.load(open(path))
    sc = sc.get("scenario", sc)
    if isinstance(sc, dict) and "input" in sc and "mode" in sc:
        sc = sc["input"]
    box = lc.Box(tree, "c12-replay")
    v = run_scenario(box, sc, ctx.stats, True)
    return [v] if v else []
