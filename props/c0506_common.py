"""Shared driver for C05 (smtpd DATA decoder) and C06 (qmail-remote DATA encoder): exhaustive enumerator,
seeded random families, libFuzzer campaign, regression corpus."""
import os, re, subprocess, hashlib, shutil, time
from lib import vlib, inproc

ALPHA = "0d0a2e78"          # CR LF . x


def build(tree, prop, fuzz):
    tree.make("qmail-smtpd", "qmail-remote")
    suffix = "-fz" if fuzz else ""
    ws = inproc.wrap_object(tree, os.path.join(vlib.VERIF, "inproc/wrap_smtpd.c"), tree.path("wrap_smtpd%s.o" % suffix), fuzzer=fuzz)
    wr = inproc.wrap_object(tree, os.path.join(vlib.VERIF, "inproc/wrap_remote.c"), tree.path("wrap_remote%s.o" % suffix), fuzzer=fuzz)
    out = tree.path("c0506-%d%s" % (prop, suffix))
    inproc.link(tree, out, [os.path.join(vlib.VERIF, "inproc/c0506.c"), ws, wr],
                inproc.dedup_libs(inproc.SMTPD_LIBS, inproc.REMOTE_LIBS), fuzzer=fuzz,
                defs="-DPROP=%d %s" % (prop, "-DVF_FUZZ" if fuzz else ""))
    return out


def parse_case(v):
    m = re.match(r"(\w+) input=([0-9a-f]*) chunks=([\d,]*) msg=(.*)", v)
    if not m:
        return None
    return {"kind": m.group(1), "input": bytes.fromhex(m.group(2)), "chunks": [int(x) for x in m.group(3).split(",") if x], "msg": m.group(4)}


def replay_bytes(binp, data, chunks=(), mode=0):
    d = os.path.join(vlib.scratch_root(), "rp")
    os.makedirs(d, exist_ok=True)
    f = os.path.join(d, "case-%s" % hashlib.sha1(data + repr(chunks).encode()).hexdigest()[:12])
    open(f, "wb").write(data)
    if chunks:
        open(f + ".chunks", "w").write(",".join(str(c) for c in chunks))
    elif os.path.exists(f + ".chunks"):
        os.unlink(f + ".chunks")
    p = subprocess.run([binp, "--replay", f, str(mode)], stdout=subprocess.PIPE, stderr=subprocess.STDOUT,
                       env=dict(os.environ, ASAN_OPTIONS="detect_leaks=0"))
    out = p.stdout.decode(errors="replace")
    _, v = inproc.parse_stats(out)
    if p.returncode == 0:
        return None
    return v[0] if v else "CRASH rc=%s %s" % (p.returncode, out[-800:])


def run(ctx, prop, known_sig=None):
    pid = "C%02d" % prop
    tree = vlib.Tree()
    binp = build(tree, prop, False)
    viols = []
    # 1. regression corpus
    reg = os.path.join(vlib.VERIF, "corpus", pid, "regress")
    nreg = 0
    if os.path.isdir(reg):
        for f in sorted(os.listdir(reg)):
            if f.endswith(".chunks"):
                continue
            data = open(os.path.join(reg, f), "rb").read()
            ch = []
            if os.path.exists(os.path.join(reg, f + ".chunks")):
                ch = [int(x) for x in open(os.path.join(reg, f + ".chunks")).read().split(",") if x]
            v = replay_bytes(binp, data, ch)
            nreg += 1
            if v:
                viols.append(("regress:" + f, v, data, ch))
    ctx.stats.cls("regress_files", nreg)
    # 2. bounded-exhaustive enumeration (16 shards)
    maxlen = ctx.n(12, 14)
    splitmax = ctx.n(9, 10)
    nsh = vlib.NCPU
    cmds = [[binp, "--enum", ALPHA, str(maxlen), str(i), str(nsh), str(splitmax)] for i in range(nsh)]
    # header-letter alphabet (hop counter shares the decoder loop)
    cmds += [[binp, "--enum", "0d0a2e7852", str(ctx.n(8, 10)), str(i), str(nsh), "0"] for i in range(nsh)]
    res = inproc.run_shards(cmds)
    v1 = inproc.merge_c_stats(ctx, res, "enum")
    # 3. seeded random families (long streams, buffer boundaries, arbitrary bytes)
    cnt = ctx.n(40000, 600000)
    cmds = [[binp, "--rand", str(vlib.subseed(ctx.seed, pid, i)), str(cnt), "2600"] for i in range(nsh)]
    res = inproc.run_shards(cmds)
    v2 = inproc.merge_c_stats(ctx, res, "rand")
    for v in v1 + v2:
        c = parse_case(v)
        if c is None:
            viols.append(("crash", v, b"", []))
            continue
        # shrink: ddmin over bytes (chunking dropped if the failure persists without it)
        data, ch, mode = c["input"], c["chunks"], {"roundtrip": 2, "readerror": 3}.get(c["kind"], 0)
        if mode == 0 and replay_bytes(binp, data, []) is not None:
            ch = []
        if mode in (0, 2) and len(data) > 14:
            data = inproc.ddmin(data, lambda d: replay_bytes(binp, d, ch, mode) is not None)
        msg = replay_bytes(binp, data, ch, mode) or v
        viols.append((c["kind"], msg, data, ch))
    # 4. libFuzzer campaign (coverage-guided, structure-aware decode layer)
    fz = build(tree, prop, True)
    cdir = os.path.join(vlib.scratch_root(), "corpus-%s" % pid)
    adir = os.path.join(vlib.scratch_root(), "artifacts-%s" % pid)
    os.makedirs(cdir, exist_ok=True)
    os.makedirs(adir, exist_ok=True)
    seeds = [b"a\r\n.\r\n\x00", b"..x\r\n.\r\n\x00", b"\n.\n\x00", b"\r\n.\n\x00", b"\n.\r\n\x00", b"\r.\r\x00", b".\r\n\x00",
             b"Received: x\r\n\r\nbody\r\n..\r\n.\r\n\x00", b"a\rb\n.c\r\n\x00", b"x" * 1022 + b"\r\n.\r\n\x00"]
    for i, s in enumerate(seeds):
        open(os.path.join(cdir, "seed%d" % i), "wb").write(s)
    secs = ctx.n(25, 600)
    cmd = [fz, cdir, "-max_len=3000", "-seed=%d" % (ctx.seed or 1), "-max_total_time=%d" % secs, "-fork=%d" % vlib.NCPU,
           "-ignore_timeouts=1", "-ignore_ooms=1", "-ignore_crashes=0", "-artifact_prefix=%s/" % adir, "-print_final_stats=1", "-timeout=20"]
    p = subprocess.run(cmd, stdout=subprocess.PIPE, stderr=subprocess.STDOUT, cwd=adir,
                       env=dict(os.environ, ASAN_OPTIONS="detect_leaks=0"))
    out = p.stdout.decode(errors="replace")
    execs = 0
    for m in re.finditer(r"#(\d+): cov: (\d+) ft: (\d+) corp: (\d+)", out):
        execs = int(m.group(1))
        ctx.notes["libfuzzer"] = {"execs": execs, "cov": int(m.group(2)), "features": int(m.group(3)), "corpus": int(m.group(4))}
    ctx.stats.evaluations += execs
    ctx.stats.cls("libfuzzer_execs", execs)
    ctx.stats.nontrivial_extra += len(os.listdir(cdir))
    for f in sorted(os.listdir(adir)):
        if f.startswith(("crash-", "leak-")):
            raw = open(os.path.join(adir, f), "rb").read()
            # decode like the target does, then confirm with the replay binary (3x is implied by determinism: in-process, no state)
            size = len(raw)
            ch = []
            if size >= 1:
                nc = raw[size - 1] % 16
                size -= 1
                nc = min(nc, size)
                ch = [1 + raw[size - 1 - i] % 64 for i in range(nc)]
                size -= nc
            data = raw[:size]
            v = replay_bytes(binp, data, ch)
            if v is None:
                ctx.stats.inconclusive += 1
                continue
            if len(data) > 14:
                data = inproc.ddmin(data, lambda d: replay_bytes(binp, d, ch) is not None)
            viols.append(("libfuzzer", replay_bytes(binp, data, ch) or v, data, ch))
        elif f.startswith(("timeout-", "oom-", "slow-unit-")):
            ctx.stats.inconclusive += 1
    ctx.exhaustive = True
    ctx.notes["exhaustive_part"] = "all strings over {CR,LF,'.','x'} up to length %d; every read-split up to length %d" % (maxlen, splitmax)
    # report
    for kind, msg, data, ch in viols:
        d = os.path.join(vlib.OUT, "replays", pid)
        os.makedirs(d, exist_ok=True)
        f = os.path.join(d, hashlib.sha1(data + repr(ch).encode()).hexdigest()[:16] + ".bin")
        open(f, "wb").write(data)
        if ch:
            open(f + ".chunks", "w").write(",".join(str(c) for c in ch))
        ctx.stats.violations.append(("%s: %s input=%r chunks=%r" % (kind, msg, data[:200], ch), f))


def replay(ctx, prop, path):
    tree = vlib.Tree()
    binp = build(tree, prop, False)
    data = open(path, "rb").read()
    ch = []
    if os.path.exists(path + ".chunks"):
        ch = [int(x) for x in open(path + ".chunks").read().split(",") if x]
    out = []
    for mode in (0, 2) if prop == 5 else (0,):
        v = replay_bytes(binp, data, ch, mode)
        if v:
            out.append(v)
    return out
