"""Shared driver for C05 (smtpd DATA decoder) and C06 (qmail-remote DATA encoder): exhaustive enumerator,
seeded random families, libFuzzer campaign, regression corpus."""
import os, re, subprocess, hashlib, shutil, time
from lib import vlib, inproc

ALPHA = "0d0a2e78"          # CR LF . x


def build(tree, prop, fuzz):
    tree.make("qmail-smtpd", "qmail-remote")
    suffix = "-fz" if fuzz else ""
    ws = inproc.wrap_object(tree, os.path.join(vlib.VERIF, "inproc/wrap_smtpd.c"), tree.path("wrap_smtpd%s.o" % suffix), fuzzer=fuzz)
    wr = inproc.wrap_object(tree, os.path.join(vlib.VERIF, "inproc/wrap_remote.c"), tree.path("wrap_remote%s.o" % suffix), fuzzer=fuzz)
    out = tree.path("c0506-%d%s" % (prop, suffix))
    inproc.link(tree, out, [os.path.join(vlib.VERIF, "inproc/c0506.c"), ws, wr],
                inproc.dedup_libs(inproc.SMTPD_LIBS, inproc.REMOTE_LIBS), fuzzer=fuzz,
                defs="-DPROP=%d %s" % (prop, "-DVF_FUZZ" if fuzz else ""))
    return out


def parse_case(v):
    m = re.match(r"(\w+) input=([0-9a-f]*) chunks=([\d,]*) msg=(.*)", v)
    if not m:
        return None
    return {"kind": m.group(1), "input": bytes.fromhex(m.group(2)), "chunks": [int(x) for x in m.group(3).split(",") if x], "msg": m.group(4)}


def replay_bytes(binp, data, chunks=(), mode=0):
    d = os.path.join(vlib.scratch_root(), "rp")
    os.makedirs(d, exist_ok=True)
    f = os.path.join(d, "case-%s" % hashlib.sha1(data + repr(chunks).encode()).hexdigest()[:12])
    open(f, "wb").write(data)
    if chunks:
        open(f + ".chunks", "w").write(",".join(str(c) for c in chunks))
    elif os.path.exists(f + ".chunks"):
        os.unlink(f + ".chunks")
    p = subprocess.run([binp, "--replay", f, str(mode)], stdout=subprocess.PIPE, stderr=subprocess.STDOUT,
                       env=dict(os.environ, ASAN_OPTIONS="detect_leaks=0"))
    out = p.stdout.decode(errors="replace")
    _, v = inproc.parse_stats(out)
    if p.returncode == 0:
        return None
    return v[0] if v else "CRASH rc=%s %s" % (p.returncode, out[-800:])


def run(ctx, prop, known_sig=None):
    pid = "C%02d" % prop
    tree = vlib.Tree()
    binp = build(tree, prop, False)
    viols = []
    # 1. regression corpus
    reg = os.path.join(vlib.VERIF, "corpus", pid, "regress")
    nreg = 0
    if os.path.isdir(reg):
        for f in sorted(os.listdir(reg)):
            if f.endswith(".chunks"):
                continue
            data = open(os.path.join(reg, f), "rb").read()
            ch = []
            if os.path.exists(os.path.join(reg, f + ".chunks")):
                ch = [int(x) for x in open(os.path.join(reg, f + ".chunks")).read().split(",") if x]
            v = replay_bytes(binp, data, ch)
            nreg += 1
            if v:
                viols.append(("regress:" + f, v, data, ch))
    ctx.stats.cls("regress_files", nreg)
    # 2. bounded-exhaustive enumeration (16 shards)
    maxlen = ctx.n(12, 14)
    splitmax = ctx.n(9, 10)
    nsh = vlib.NCPU
    cmds = [[binp, "--enum", ALPHA, str(maxlen), str(i), str(nsh), str(splitmax)] for i in range(nsh)]
    # header-letter alphabet (hop counter shares the decoder loop)
    cmds += [[binp, "--enum", "0d0a2e7852", str(ctx.n(8, 10)), str(i), str(nsh), "0"] for i in range(nsh)]
    res = inproc.run_shards(cmds)
    v1 = inproc.merge_c_stats(ctx, res, "enum")
    # 3. seeded random families (long streams, buffer boundaries, arbitrary bytes)
    cnt = ctx.n(40000, 600000)
    cmds = [[binp, "--rand", str(vlib.subseed(ctx.seed, pid, i)), str(cnt), "2600"] for i in range(nsh)]
    res = inproc.run_shards(cmds)
    v2 = inproc.merge_c_stats(ctx, res, "rand")
    for v in v1 + v2:
        c = parse_case(v)
        if c is None:
            viols.append(("crash", v, b"", []))
            continue
        # shrink: ddmin over bytes (chunking dropped if the failure persists without it)
        data, ch, mode = c["input"], c["chunks"], KIND_MODE.get(c["kind"], 0)
        if mode == 0 and replay_bytes(binp, data, []) is not None:
            ch = []
        if mode in (0, 2) and len(data) > 14:
            data = inproc.ddmin(data, lambda d: replay_bytes(binp, d, ch, mode) is not None)
        msg = replay_bytes(binp, data, ch, mode) or v
        viols.append((c["kind"], msg, data, ch))
    # 4. libFuzzer campaign (coverage-guided, structure-aware decode layer)
    fz = build(tree, prop, True)
    cdir = os.path.join(vlib.scratch_root(), "corpus-%s" % pid)
    adir = os.path.join(vlib.scratch_root(), "artifacts-%s" % pid)
    os.makedirs(cdir, exist_ok=True)
    os.makedirs(adir, exist_ok=True)
    seeds = [b"a\r\n.\r\n\x00", b"..x\r\n.\r\n\x00", b"\n.\n\x00", b"\r\n.\n\x00", b"\n.\r\n\x00", b"\r.\r\x00", b".\r\n\x00",
             b"Received: x\r\n\r\nbody\r\n..\r\n.\r\n\x00", b"a\rb\n.c\r\n\x00", b"x" * 1022 + b"\r\n.\r\n\x00"]
    for i, s in enumerate(seeds):
        open(os.path.join(cdir, "seed%d" % i), "wb").write(s)
    secs = ctx.n(25, 600)
    cmd = [fz, cdir, "-max_len=3000", "-seed=%d" % (ctx.seed or 1), "-max_total_time=%d" % secs, "-fork=%d" % vlib.NCPU,
           "-ignore_timeouts=1", "-ignore_ooms=1", "-ignore_crashes=0", "-artifact_prefix=%s/" % adir, "-print_final_stats=1", "-timeout=20"]
    p = subprocess.run(cmd, stdout=subprocess.PIPE, stderr=subprocess.STDOUT, cwd=adir,
                       env=dict(os.environ, ASAN_OPTIONS="detect_leaks=0"))
    out = p.stdout.decode(errors="replace")
    execs = 0
    for m in re.finditer(r"#(\d+): cov: (\d+) ft: (\d+) corp: (\d+)", out):
        execs = int(m.group(1))
        ctx.notes["libfuzzer"] = {"execs": execs, "cov": int(m.group(2)), "features": int(m.group(3)), "corpus": int(m.group(4))}
    ctx.stats.evaluations += execs
    ctx.stats.cls("libfuzzer_execs", execs)
    ctx.stats.nontrivial_extra += len(os.listdir(cdir))
    for f in sorted(os.listdir(adir)):
        if f.startswith(("crash-", "leak-")):
            raw = open(os.path.join(adir, f), "rb").read()
            # decode like the target does, then confirm with the replay binary (3x is implied by determinism: in-process, no state)
            size = len(raw)
            ch = []
            if size >= 1:
                nc = raw[size - 1] % 16
                size -= 1
                nc = min(nc, size)
                ch = [1 + raw[size - 1 - i] % 64 for i in range(nc)]
                size -= nc
            data = raw[:size]
            v = replay_bytes(binp, data, ch)
            if v is None:
                ctx.stats.inconclusive += 1
                continue
            if len(data) > 14:
                data = inproc.ddmin(data, lambda d: replay_bytes(binp, d, ch) is not None)
            viols.append(("libfuzzer", replay_bytes(binp, data, ch) or v, data, ch))
        elif f.startswith(("timeout-", "oom-", "slow-unit-")):
            ctx.stats.inconclusive += 1
    if prop == 5 and not viols:
        e2e_c05(ctx, tree)
    if prop == 6 and not viols:
        e2e_c06(ctx, tree)
    ctx.exhaustive = True
    ctx.notes["exhaustive_part"] = "all strings over {CR,LF,'.','x'} up to length %d; every read-split up to length %d" % (maxlen, splitmax)
    # report
    for kind, msg, data, ch in viols:
        d = os.path.join(vlib.OUT, "replays", pid)
        os.makedirs(d, exist_ok=True)
        f = os.path.join(d, hashlib.sha1(data + repr(ch).encode()).hexdigest()[:16] + ".bin")
        open(f, "wb").write(data)
        if ch:
            open(f + ".chunks", "w").write(",".join(str(c) for c in ch))
        if KIND_MODE.get(kind):
            open(f + ".mode", "w").write(str(KIND_MODE[kind]))
        ctx.stats.violations.append(("%s: %s input=%r chunks=%r" % (kind, msg, data[:200], ch), f))


KIND_MODE = {"roundtrip": 2, "readerror": 3, "shortwrite": 4}


def replay(ctx, prop, path):
    if path.endswith(".json"):
        import json
        from lib import sandbox
        j = json.load(open(path))
        sc = j.get("scenario", j)
        tree = vlib.Tree()
        sandbox.ensure_shim()
        if isinstance(sc, dict) and sc.get("kind") in ("tcp", "tcp2"):
            from props import c09
            tree.make("qmail-remote", "qmail-rspawn")
            rr = (c09.RemoteRunner if sc["kind"] == "tcp" else c09.MultiRunner)(tree, "replay")
            out = [rr.run_scenario(sc, vlib.Stats()) for _ in range(3)]
            return [out[0]] if all(out) else []
        tree.make("qmail-smtpd")
        out = [_e2e_worker((tree, 99, 1, 0, [sc])).violations for _ in range(3)]
        return [out[0][0][0]] if all(out) else []
    tree = vlib.Tree()
    binp = build(tree, prop, False)
    data = open(path, "rb").read()
    ch = []
    if os.path.exists(path + ".chunks"):
        ch = [int(x) for x in open(path + ".chunks").read().split(",") if x]
    out = []
    modes = (0, 2) if prop == 5 else (0,)
    if os.path.exists(path + ".mode"):
        modes = (int(open(path + ".mode").read().strip() or 0),)
    for mode in modes:
        v = replay_bytes(binp, data, ch, mode)
        if v:
            out.append(v)
    return out


# ---------------------------------------------------------------- C05 end to end (real qmail-smtpd, interactive client)
def _e2e_encode(lines):
    out = b""
    for l in lines:
        out += (b"." if l.startswith(b".") else b"") + l + b"\r\n"
    return out + b".\r\n"


def _e2e_worker(job):
    import time, shutil
    from lib import sandbox
    from hypothesis import strategies as st
    tree, wid, seed, n = job[:4]
    fixed = job[4] if len(job) > 4 else []
    line = st.lists(st.sampled_from([b"x", b".", b"..", b"\r", b"a b", b"Received: q", b".x", b"\xe9", b""]), max_size=4).map(b"".join).map(vlib.jsonable)
    scen = st.fixed_dictionaries({"lines": st.lists(line, max_size=8), "cuts": st.lists(st.integers(0, 400), max_size=2), "second": st.booleans(),
                                  # control/databytes around the size of the message: a message over the limit may be refused, never cut short
                                  "db": st.one_of(st.none(), st.none(), st.integers(1, 40)),
                                  # the queue program cannot be started for the first DATA (one of the three pipe() calls or the fork() fails):
                                  # the client must not be invited to send the message - there is no one to take it
                                  "qqfail": st.one_of(st.none(), st.none(), st.none(), st.sampled_from([["pipe", 0], ["pipe", 1], ["pipe", 2], ["fork", 0]])),
                                  # the queue program (a QMAILQUEUE filter that refuses early, a queue program that hits a full disk) is gone
                                  # before it has read its input: [exit status, filler lines of 70 bytes]. The server's own writes into the
                                  # pipes fail (EPIPE; SIGPIPE must not end it): the message is still read up to CRLF.CRLF, refused with the
                                  # class of the exit status, and the bytes after the terminator are the next commands
                                  "qqearly": st.one_of(st.none(), st.none(), st.none(), st.tuples(st.sampled_from([31, 53, 71, 81]), st.sampled_from([0, 1, 20, 120, 1100])).map(list))})
    stats = vlib.Stats()
    h = sandbox.Home(tree, os.path.join(vlib.scratch_root(), "c05e2e-%d" % wid))
    h.control("me", "me.example\n")
    rec = os.path.join(h.dir, "rec")

    def runfn(sc, stats):
        shutil.rmtree(rec, ignore_errors=True)
        lines = [vlib.unjson(x) for x in sc["lines"]]
        qe = None if sc.get("qqfail") else sc.get("qqearly")
        if qe:
            lines = lines + [b"filler %06d " % i + b"f" * 56 for i in range(qe[1])]
        if any(l.startswith(b".\r") for l in lines):
            stats.slack += 1          # '.'+bare-CR line: unspecified (see C05 slack)
            return None
        payload = _e2e_encode(lines)
        exp = b"".join(l + b"\n" for l in lines)
        db = None if qe else sc.get("db")
        h.control("databytes", ("%d\n" % db) if db else None)
        over = bool(db) and len(exp) > db
        rest = b"NOOP\r\n" + (b"MAIL FROM:<b@x>\r\nRCPT TO:<c@me.example>\r\nDATA\r\n" if sc["second"] else b"")
        env = h.env(role="smtpd", uid=h.uids["d"], trace=False, QMAILQUEUE=sandbox.STANDIN, TCPREMOTEIP="1.2.3.4",
                    **sandbox.standin_env(rec, read="01", qq=True))
        if qe:
            # first run: nothing is read, the scripted status is returned at once; later runs (second message) behave normally
            env.update(sandbox.standin_env(rec, read="01", qq=True, exit_seq=["e%d" % qe[0], 0]))
        qf = sc.get("qqfail")
        if qf:
            env["VSHIM_FAULT"] = "qmail-smtpd:%s:%d:24" % (qf[0], qf[1])
        s = sandbox.Session([tree.path("qmail-smtpd")], env)
        try:
            s.send(b"MAIL FROM:<a@x>\r\nRCPT TO:<r@me.example>\r\nDATA\r\n")
            if qf:
                # greeting, MAIL, RCPT, then the answer to DATA: a temporary refusal and nothing else
                got = s.read_until(lambda b: (b.count(b"\n") >= 4 and len(b)) or None)
                if got is None:
                    stats.inconclusive += 1
                    return None
                s.send(b"QUIT\r\n")
                rest = s.read_all()
                if rest is None:
                    stats.inconclusive += 1
                    return None
                codes = [l[:3] for l in (got + rest).split(b"\r\n") if l]
                stats.case(scenario=sc, nontrivial=True, classes=["e2e", "e2e_queue_program_cannot_start"])
                if b"354" in codes:
                    return ("DATA was answered 354 although the queue program could not be started (%s #%d fails): the client is invited to send a message "
                            "that the server will read as commands; replies %r" % (qf[0], qf[1], codes))
                if codes[:4] != [b"220", b"250", b"250", b"451"] and not (len(codes) >= 4 and codes[3][:1] == b"4"):
                    return "replies %r, expected a temporary refusal of DATA when the queue program cannot be started" % codes
                if [r_ for r_ in sandbox.standin_records(rec) if r_.get("commit")]:
                    return "a message was committed although the queue program could not be started"
                return None
            got = s.read_until(lambda b: (b.find(b"354") >= 0 and b.endswith(b"\n") and len(b)) or None)
            if got is None:
                stats.inconclusive += 1
                return None
            if b"354" not in got:
                return "no 354 after DATA: %r" % got[-100:]
            if qe:
                time.sleep(0.03)          # the refusing program has long exited when the first body byte arrives
            blob = payload + rest
            if sc["second"]:
                blob += b"second\r\n.\r\n"
            blob += b"QUIT\r\n"
            cuts = sorted({min(c, len(blob)) for c in sc["cuts"]})
            pos = 0
            for c in cuts + [len(blob)]:
                if c > pos:
                    s.send(blob[pos:c])
                    pos = c
                    time.sleep(0.002)
            out = s.read_all()
            if out is None:
                stats.inconclusive += 1
                return None
            codes = [l[:3] for l in out.split(b"\r\n") if l]
            want = [b"250", b"250"] + ([b"250", b"250", b"354", b"250"] if sc["second"] else []) + [b"221"]
            stats.case(scenario=sc, nontrivial=any(b"." in l or b"\r" in l for l in lines), classes=["e2e"] + (["e2e_second_message"] if sc["second"] else []) +
                       (["e2e_over_databytes"] if over else []))
            refused = over and codes[:1] and codes[0][:1] == b"5"
            if qe:
                stats.case(scenario=sc, nontrivial=True, classes=["e2e_queue_program_exits_early"], key="qqearly-%r-%r" % (qe, sc["lines"]))
                cls = b"5" if qe[0] == 31 else b"4"
                if not codes or codes[0][:1] != cls:
                    return ("queue program exited %d without reading its input: the message must be answered with a %sxx refusal after its "
                            "CRLF.CRLF and the session must go on; replies after 354 were %r" % (qe[0], cls.decode(), codes))
                refused = True
            if refused:
                codes = [b"250"] + codes[1:]          # a message over control/databytes may be refused (552): then nothing of it is stored
            if sc["second"] and db and len(b"second\n") > db and len(codes) == len(want) and codes[5][:1] == b"5":
                codes = codes[:5] + [b"250"] + codes[6:]
                second_refused = True
            else:
                second_refused = False
            if codes != want:
                return "reply sequence after the payload is %r, expected %r (the bytes after CRLF.CRLF are the next commands)" % (codes, want)
            recs = [r for r in sandbox.standin_records(rec) if r.get("commit")]
            nexp = (2 if sc["second"] else 1) - (1 if refused else 0) - (1 if second_refused else 0)
            if len(recs) != nexp:
                return "%d messages committed, expected %d" % (len(recs), nexp)
            if refused:
                return None
            body = recs[0]["fd0"]
            nl = body.find(b"\n", body.find(b"\n") + 1) + 1      # the Received field is two lines
            if body[nl:] != exp:
                return "committed body %r differs from the transmitted lines %r" % (body[nl:][:80], exp[:80])
            return None
        finally:
            s.kill()
    for sc in fixed:
        v = runfn(sc, stats)
        if v:
            stats.violations.append((v, sc))
    if n:
        vlib.hyp_search(scen, runfn, n, seed, stats)
    return stats


def e2e_c05(ctx, tree):
    """The in-process harness drives blast() only; the code around it (buffer handling in smtp_data, the command loop that must see the
    bytes after the terminator) is exercised here: real qmail-smtpd with the queue stand-in, an interactive client that waits for 354 and
    then sends DATA payload + following commands in 1-3 writes at generated offsets (one read may deliver the terminator together with the
    next commands - legal pipelining). Oracle: reply sequence 250, 250 (NOOP), [second transaction,] 221 and committed body = transmitted lines."""
    from lib import sandbox
    tree.make("qmail-smtpd")
    sandbox.ensure_shim()
    jobs = [(tree, i, vlib.subseed(ctx.seed, "c05e2e", i), ctx.n(40, 600)) for i in range(vlib.NCPU)]
    ctx.stats.merge(vlib.run_workers(_e2e_worker, jobs))


# ---------------------------------------------------------------- C06 end to end (real qmail-remote <-> scripted SMTP server of C09)
def e2e_c06(ctx, tree):
    """Message content must never reach a peer that is still in command mode: the real qmail-remote delivers messages whose bodies look like
    SMTP commands to the scripted server of props/c09.py for every class of reply to DATA (354, other 3xx, 4xx, 5xx, disconnect); the server
    records everything it receives. Oracle (C09's command-sequence check): a payload is sent only after a positive intermediate reply to DATA,
    it is the reference encoding of the message (ending in the only CRLF.CRLF), and nothing but QUIT follows a refusal."""
    from props import c09
    tree.make("qmail-remote", "qmail-rspawn")

    def rep(code, lines=1):
        return {"k": "reply", "code": code, "lines": [{"b": "t%d" % i} for i in range(lines)], "eol": "\r\n", "chunks": [], "nosep": False}
    hostile = b"Subject: x\n\nMAIL FROM:<ceo@corp.example>\nRCPT TO:<accounting@corp.example>\nDATA\nurgent payment\n.\nQUIT\n"
    fixed = []
    ok = [rep(220), rep(250), rep(250), rep(250), rep(354), rep(250)]
    for code in (354, 300, 399, 400, 421, 450, 451, 452, 499, 500, 550, 554, 599):
        for body in (hostile, b".\n..\nx\n", b"a\n"):
            fixed.append({"kind": "tcp", "n": 1, "sender": {"b": "sender@src.example"}, "body": vlib.jsonable(body), "phases": ok[:4] + [rep(code)] + ok[5:]})
    fixed.append({"kind": "tcp", "n": 1, "sender": {"b": "sender@src.example"}, "body": vlib.jsonable(hostile), "phases": ok[:4] + [{"k": "close", "rst": False, "sent": 0}]})
    # destinations with several addresses: once a server has accepted the connection, no other address may ever see (parts of) the dialogue
    fixed += c09.multi_fixed()
    nsh = vlib.NCPU
    jobs = [(tree, "c06-%d" % i, vlib.subseed(ctx.seed, "c06e2e", i), ctx.n(25, 400), 0, fixed[i::nsh]) for i in range(nsh)]
    st_ = vlib.run_workers(c09.e2e_worker, jobs)
    # every violation of these sessions concerns what was sent / reported for a given server behaviour
    st_.violations = [("C06 end to end: " + m, sc) for m, sc in st_.violations]
    for k in list(st_.classes):
        st_.classes["e2e:" + k] = st_.classes.pop(k)
    ctx.stats.merge(st_)
