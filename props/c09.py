"""C09 - Remote delivery verdicts are sound for every server behaviour.

Three parts (DESIGN.md section 5/C09):
 1. in-process (inproc/c09.c + c09_wrap_remote.c): qmail-remote.c's smtp()/smtpcode()/quit()/dropped()/blast() run unchanged
    against a scripted lock-step SMTP server that replaces timeoutread/timeoutwrite.  The class structure
    {220|other 2xx|3xx|4xx|5xx} x {single,multi-line} per phase plus every disconnect position (EOF / read error at the
    phase or inside its reply, failing write of the command, of the first / last / second-to-last DATA payload write and
    of QUIT) is enumerated EXHAUSTIVELY for n = 1,2,3 recipients; codes, texts, chunkings, bodies are seeded-random.
 2. report() of qmail-rspawn.c in-process (inproc/c09_wrap_rspawn.c): every record-letter structure up to 4 records over
    {r,h,s,K,Z,D,x,empty} with/without the final NUL x every exit status 1..255 and every signal 1..126 (+core flag),
    plus seeded-random mutated outputs up to 11 kB; and the REAL qmail-rspawn with QMAILREMOTE=shim/standin (Hypothesis).
 3. end to end (Hypothesis): the real qmail-remote binary over loopback TCP (control/smtproutes) against a scripted
    Python SMTP server; same oracle, written a second time in Python.

Oracle clauses (each from the property text / qmail-remote.8, none from the code):
  a. every report is terminated by a 0 byte; the last one starts with K, Z or D, the others with r, h, s, in argument
     order (r for a 2xx RCPT reply, s for 4xx, h for 5xx); with K all n are present; in failure cases the man page allows
     fewer recipient reports, never different ones (fewer => slack);  b. K only if greeting=220, HELO=250, MAIL accepted,
     some RCPT accepted, DATA answered 3xx and the final dot answered 2xx;  c. 5xx at MAIL/DATA/final dot => D, 4xx => Z,
     greeting != 220 / HELO != 250 / any connection loss or stall => Z;  d. connection lost between the final dot and its
     reply => the Z report says "Possible duplicate!", no other report does;  e. exit status 0;  f. the bytes sent are
     exactly HELO, MAIL FROM:<sender>, RCPT TO:<r_i>..., DATA, the dot-stuffed CRLF payload, optionally QUIT, and nothing
     after a failed greeting/HELO/MAIL, and no DATA without an accepted recipient;  g. report(): exactly one report, no NUL
     inside, first letter K/Z/D; K only if exit 0, not crashed, first byte not s/h and a K record precedes any Z/D record;
     r+K->K, r+Z->Z, r+D->D, s+*->Z, h+*->D, lone Z->Z, lone D->D; killed by a signal => Z.
Left out relative to the design: no libFuzzer twin for C09 (the structure is enumerated instead; non-digit reply codes belong to C20);
multi-line replies whose lines carry DIFFERENT codes are not generated (RFC 5321 forbids them, qmail-remote.8 is silent), so the design's
mutant "code taken from another line when they differ" is equivalent here; the payload is compared with a reference encoder for CR-free
bodies only (CR handling is C06's); a failing QUIT write exists only in the in-process player (a real socket does not produce it on demand).
"""
import os, re, json, time, hashlib, socket, threading, struct
from lib import vlib, inproc, sandbox
from hypothesis import strategies as st

LEVEL = "exploration"
RULE = ("(1) in-process smtp(): EVERY assignment of a reply class {220/250 | other 2xx | 3xx | 4xx | 5xx} x {one line, 2-3 lines} or a "
        "disconnect kind {EOF, read error} x {at the phase, inside the reply} / failing write {command, first|last|second-to-last payload "
        "write, QUIT} to the phases greeting, HELO, MAIL, RCPT_1..n, DATA, final dot for n=1,2,3 (pruned after the phase that ends the "
        "conversation), each instantiated R times with seeded codes from {200,220,250,251,299,300,354,399,400,421,450,451,499,500,550,554,599} "
        "or random, texts (empty..6 kB, NUL/CR/8-bit), read chunkings, short writes and message bodies; plus seeded-random scripts with any "
        "3-digit code. (2) report(): every letter structure <= 4 records x every wait status, plus random mutations; real qmail-rspawn "
        "+ stand-in via Hypothesis. (3) real qmail-remote over loopback TCP via Hypothesis. Non-trivial = the executed part of the script "
        "contains a reply outside 2xx/3xx, a disconnect or a failed write (report(): anything but r+K with exit 0); distinct = 64-bit hash "
        "of the complete concrete case (in-target set).")
ASSUMPTIONS = [
    "the scripted server is lock-step: the reply to a command becomes readable only after the complete command was written",
    "reply classes the documents do not define (1xx and 6xx-9xx anywhere, 3xx where a final answer is due, 2xx to DATA) are accepted under "
    "every reading (success / temporary / permanent) and counted as slack; all lines of a reply carry the same code; codes have three digits, except for "
    "the end-to-end family of one-line replies that START with 1-3 bytes below '0' (blank, TAB, empty line, NUL, punctuation): such a reply carries no "
    "reply code and is therefore never an acceptance (greeting/HELO: temporary; elsewhere temporary or permanent, both accepted); replies whose first "
    "byte is a digit but whose second or third is not (e.g. '1:0') are not generated - the documents are silent and the program reads them arithmetically",
    "a failed write of QUIT after the verdict was known may be reported either as that verdict or as connection loss (Z without duplicate flag): slack",
    "a failed write that carries (or directly precedes) the final dot may or may not be flagged 'Possible duplicate!': slack",
    "no recipient accepted: the message report may be Z or D (never K): slack; the per-recipient letters are exact",
    "non-zero exit status of qmail-remote / empty or non-grammar output: Z or D accepted (never K), counted as slack; killed by a signal must give Z",
    "message bodies are CR-free and end with a newline (C06 owns the encoder); the payload is compared with a reference dot-stuffing encoder",
    "destinations with several addresses (end-to-end part): the addresses are tried in the order of the DNS answer (relay host named in control/smtproutes, "
    "all records of one A answer); an address without listener refuses the connection at once; a server never resets a connection in the instant it "
    "accepts it (for the client that is a failed connection attempt or a dead connection depending on timing); connection time-outs are not generated",
    "server reply texts never contain the phrase 'Possible duplicate' (the report quotes the server's text, so a server could fake the flag in the "
    "human-readable part; Hypothesis found exactly that) - excluded by construction",
]

PID = "C09"
HELO = b"client.example"
RECIPS = [b"r1@dst.example", b"r2@dst.example", b"r3@dst.example"]

# ------------------------------------------------------------------ build


def build(tree):
    tree.make("qmail-remote", "qmail-rspawn")
    wr = inproc.wrap_object(tree, os.path.join(vlib.VERIF, "inproc/c09_wrap_remote.c"), tree.path("c09_wrap_remote.o"))
    ws = inproc.wrap_object(tree, os.path.join(vlib.VERIF, "inproc/c09_wrap_rspawn.c"), tree.path("c09_wrap_rspawn.o"))
    libs = inproc.dedup_libs(inproc.REMOTE_LIBS, "tcpto_clean.o ids.a env.a fd.a wait.a substdio.a error.a str.a open.a")
    return inproc.link(tree, tree.path("c09"), [os.path.join(vlib.VERIF, "inproc/c09.c"), wr, ws], libs)


# ------------------------------------------------------------------ in-process cases: parse / print / replay / shrink

def parse_case(line):
    """'smtp n=.. ...' or 'report wstat=.. out=..' (optionally followed by ' msg=...') -> dict"""
    msg = ""
    if " msg=" in line:
        line, msg = line.split(" msg=", 1)
    kind, _, rest = line.partition(" ")
    f = dict(kv.split("=", 1) for kv in rest.split(" ") if "=" in kv)
    if kind == "report":
        return {"kind": "report", "wstat": int(f.get("wstat", "0")), "out": bytes.fromhex(f.get("out", "")), "msg": msg}
    if kind != "smtp":
        return None
    wf = f.get("wf", "-1:0:-1").split(":")
    c = {"kind": "smtp", "n": int(f["n"]), "sender": bytes.fromhex(f.get("sender", "")), "body": bytes.fromhex(f.get("body", "")),
         "bodymax": int(f.get("bodymax", "0")), "wf": [int(x) for x in wf], "wmax": int(f.get("wmax", "0")),
         "chunks": [int(x) for x in f.get("chunks", "").split(",") if x], "ph": [], "msg": msg}
    for part in f.get("ph", "").split("/"):
        if not part:
            continue
        k, code, hx = part.split(":")
        c["ph"].append([int(k), int(code), bytes.fromhex(hx)])
    return c


def case_line(c):
    if c["kind"] == "report":
        return "report wstat=%d out=%s" % (c["wstat"], c["out"].hex())
    return "smtp n=%d sender=%s body=%s bodymax=%d wf=%d:%d:%d wmax=%d chunks=%s ph=%s" % (
        c["n"], c["sender"].hex(), c["body"].hex(), c["bodymax"], c["wf"][0], c["wf"][1], c["wf"][2], c["wmax"],
        ",".join(str(x) for x in c["chunks"]), "/".join("%d:%d:%s" % (k, code, d.hex()) for k, code, d in c["ph"]))


def replay_line(binp, line):
    """-> None if the case passes, else the harness's message"""
    d = os.path.join(vlib.scratch_root(), "rp09")
    os.makedirs(d, exist_ok=True)
    f = os.path.join(d, "case-%s-%d" % (hashlib.sha1(line.encode()).hexdigest()[:12], os.getpid()))
    open(f, "w").write(line + "\n")
    import subprocess
    p = subprocess.run([binp, "--replay", f], stdout=subprocess.PIPE, stderr=subprocess.STDOUT,
                       env=dict(os.environ, ASAN_OPTIONS="detect_leaks=0"))
    out = p.stdout.decode(errors="replace")
    os.unlink(f)
    if p.returncode == 0:
        return None
    _, v = inproc.parse_stats(out)
    if v:
        return v[0].split(" msg=", 1)[-1]
    return "CRASH rc=%s %s" % (p.returncode, out[-1200:])


def shrink_case(binp, c):
    """Greedy structural shrinking of a failing in-process case."""
    sig = signature(c.get("msg") or replay_line(binp, case_line(c)) or "")

    def fails(x):
        m = replay_line(binp, case_line(x))
        return m is not None and signature(m) == sig

    def attempt(mod):
        x = json.loads(json.dumps(vlib.jsonable(c)))
        x = unj(x)
        mod(x)
        if case_line(x) != case_line(c) and fails(x):
            c.clear()
            c.update(x)
            return True
        return False
    if c["kind"] == "report":
        data = inproc.ddmin(c["out"], lambda d: fails(dict(c, out=d))) if 4 < len(c["out"]) <= 600 else c["out"]
        c["out"] = data
        return c
    attempt(lambda x: x.update(chunks=[]))
    attempt(lambda x: x.update(wmax=0))
    attempt(lambda x: x.update(bodymax=0))
    attempt(lambda x: x.update(body=b""))
    attempt(lambda x: x.update(body=b"x\n"))
    attempt(lambda x: x.update(sender=b"sender@src.example"))
    for i in range(len(c["ph"])):
        def canon(x, i=i):
            k, code, d = x["ph"][i]
            x["ph"][i] = [k, code, (b"%03d x\r\n" % code) if k == 0 else b""]
        attempt(canon)
    for i in range(len(c["ph"])):
        k, code, d = c["ph"][i]
        for cc in (250, 220, 354):
            if k == 0 and code != cc:
                attempt(lambda x, i=i, cc=cc: x["ph"].__setitem__(i, [0, cc, b"%03d x\r\n" % cc]))
    return c


def signature(msg):
    """Coarse class of a violation message: a shrink step must keep it (and must not wander into another failure)."""
    return re.sub(r"\[[^\]]*\]|\d+|'[^']*'", "#", msg.split("|")[0])[:70]


def unj(x):
    if isinstance(x, dict):
        if set(x.keys()) == {"b"}:
            return x["b"].encode("latin-1")
        if set(x.keys()) == {"hex"}:
            return bytes.fromhex(x["hex"])
        return {k: unj(v) for k, v in x.items()}
    if isinstance(x, list):
        return [unj(v) for v in x]
    return x


def save_case(c, msg):
    d = os.path.join(vlib.OUT, "replays", PID)
    os.makedirs(d, exist_ok=True)
    line = case_line(c)
    f = os.path.join(d, hashlib.sha1(line.encode()).hexdigest()[:16] + ".case")
    open(f, "w").write(line + " msg=" + msg.replace("\n", " ") + "\n")
    return f


def describe(c):
    if c["kind"] == "report":
        return "wait status %d, qmail-remote output %r" % (c["wstat"], c["out"][:200])
    return "n=%d script=%s wf=%s" % (c["n"], [("reply %d" % code if k == 0 else ("EOF" if k == 1 else "read error") + " after") + " %r" % d[:60]
                                               for k, code, d in c["ph"]], c["wf"])


# ------------------------------------------------------------------ Python oracles (end-to-end parts)

def phase_types(n):
    return ["greet", "helo", "mail"] + ["rcpt"] * n + ["data", "dot"]


def classify(t, code, lead=None):
    if lead:
        # the reply does not begin with a digit: it carries no reply code, so it can never count as an acceptance (greeting / HELO:
        # "unexpected reply" = temporary); whether it is reported as temporary or permanent elsewhere is left open
        return "temp" if t in ("greet", "helo") else "bad"
    if t == "greet":
        return "ok" if code == 220 else "temp"
    if t == "helo":
        return "ok" if code == 250 else "temp"
    if t == "data":
        if 300 <= code <= 399:
            return "ok"
    elif 200 <= code <= 299:
        return "ok"
    if 400 <= code <= 499:
        return "temp"
    if 500 <= code <= 599:
        return "perm"
    return "open"


def encode_body(body):
    out = b""
    if body:
        for line in body[:-1].split(b"\n"):
            out += (b"." if line.startswith(b".") else b"") + line + b"\r\n"
    return out + b".\r\n"


def walk(sc, interp):
    """Expected outcome of an end-to-end scenario under one reading of the open reply classes."""
    n = sc["n"]
    cmds, recs, nacc, used_open = [], [], 0, False
    sender = vlib.unjson(sc["sender"])
    for p, t in enumerate(phase_types(n)):
        if t == "helo":
            cmds.append(b"HELO " + HELO)
        elif t == "mail":
            cmds.append(b"MAIL FROM:<" + sender + b">")
        elif t == "rcpt":
            cmds.append(b"RCPT TO:<" + RECIPS[p - 3] + b">")
        elif t == "data":
            cmds.append(b"DATA")
        elif t == "dot":
            cmds.append(("payload", encode_body(vlib.unjson(sc["body"]))))
        ph = sc["phases"][p] if p < len(sc["phases"]) else {"k": "close", "sent": 0}
        if ph["k"] != "reply":
            dup = 1 if t == "dot" else 0
            if ph["k"] == "close_unread":
                dup = 2
                cmds = cmds[:-1]
            return {"recs": recs, "verdict": "Z", "dup": dup, "cmds": cmds, "open": used_open, "last": p, "why": "connection lost / stalled at phase %d (%s)" % (p, t)}
        cl = classify(t, ph["code"], ph.get("lead"))
        if cl == "open":
            cl = interp.get(p, "ok")
            used_open = True
        elif cl == "bad":
            cl = interp.get(p, "temp")
            used_open = True
        if t == "rcpt":
            recs.append({"ok": "r", "temp": "s", "perm": "h"}[cl])
            nacc += cl == "ok"
            if p == n + 2 and not nacc:
                return {"recs": recs, "verdict": "ZD", "dup": 0, "cmds": cmds, "open": used_open, "last": p, "why": "no recipient accepted"}
            continue
        if cl == "ok":
            if t == "dot":
                return {"recs": recs, "verdict": "K", "dup": 0, "cmds": cmds, "open": used_open, "last": p, "why": "all phases succeeded"}
            continue
        return {"recs": recs, "verdict": "Z" if cl == "temp" else "D", "dup": 0, "cmds": cmds, "open": used_open, "last": p,
                "why": ("reply %r does not start with a digit (no reply code, never an acceptance) at phase %d (%s)" % (
                    (vlib.unjson(ph["lead"]) + b"%03d" % ph["code"])[:8], p, t)) if ph.get("lead") else "%s reply %d at phase %d (%s)" % (cl, ph["code"], p, t)}


def parse_remote_output(out):
    """-> (recs string, verdict letter, dup flag) or an error string"""
    if not out or out[-1:] != b"\0":
        return "output does not end with a 0 byte: %r" % out[-80:]
    parts = out[:-1].split(b"\0")
    if any(len(x) == 0 for x in parts):
        return "empty report record in %r" % out[:200]
    last = parts[-1]
    if last[:1] not in (b"K", b"Z", b"D"):
        return "last record is not a message report: %r" % last[:80]
    for x in parts[:-1]:
        if x[:1] not in (b"r", b"h", b"s"):
            return "record %r before the last one is not a recipient report" % x[:60]
    return "".join(chr(x[0]) for x in parts[:-1]), chr(last[0]), int(b"Possible duplicate!" in last)


def cmds_match(got, want):
    """got = [bytes line | ("payload", bytes)] as recorded by the server; an optional trailing QUIT is accepted."""
    g = list(got)
    if g and isinstance(g[-1], bytes) and g[-1].upper() == b"QUIT":
        g = g[:-1]
    if len(g) != len(want):
        return False
    for a, b in zip(g, want):
        if isinstance(a, tuple) != isinstance(b, tuple):
            return False
        if isinstance(a, tuple):
            if a[1] != b[1]:
                return False
        elif a.lower() != b.lower():
            return False
    return True


def judge_remote(sc, rc, out, got_cmds):
    """-> (violation or None, info dict)"""
    if rc != 0:
        return "qmail-remote exited %s (documented: always exits zero); output %r" % (rc, out[:200]), {}
    po = parse_remote_output(out)
    if isinstance(po, str):
        return po, {}
    recs, verdict, dup = po
    if len(recs) > sc["n"]:
        return "%d recipient reports for %d recipients" % (len(recs), sc["n"]), {}
    kinds = {p: classify(phase_types(sc["n"])[p], ph["code"], ph.get("lead")) for p, ph in enumerate(sc["phases"]) if ph["k"] == "reply"}
    opens = [p for p, k in kinds.items() if k in ("open", "bad")]
    first = None
    import itertools
    for combo in itertools.product(*[("ok", "temp", "perm") if kinds[p] == "open" else ("temp", "perm") for p in opens]):
        e = walk(sc, dict(zip(opens, combo)))
        if first is None:
            first = e
        if verdict not in e["verdict"]:
            continue
        if e["dup"] != 2 and dup != e["dup"]:
            continue
        exp = "".join(e["recs"])
        if not exp.startswith(recs) or (verdict == "K" and len(recs) != sc["n"]):
            continue
        if not cmds_match(got_cmds, e["cmds"]):
            continue
        e["slack"] = bool(e["open"] or e["dup"] == 2 or len(recs) < len(exp) or e["verdict"] == "ZD")
        e["obs"] = (recs, verdict, dup)
        return None, e
    e = first
    return ("observed [%s]+%s%s, expected [%s]+%s%s because %s; commands received %r" % (
        recs, verdict, " (Possible duplicate!)" if dup else "", "".join(e["recs"]), "|".join(e["verdict"]),
        {0: " (no duplicate flag)", 1: " (Possible duplicate!)", 2: ""}[e["dup"]], e["why"],
        [c if isinstance(c, bytes) else ("payload", len(c[1])) for c in got_cmds][:12])), {}


def judge_report(status, output, relayed):
    """status = ('exit', n) | ('kill', sig).  -> (violation or None, slack bool, class)"""
    if len(relayed) == 0:
        return "empty report relayed", False, "x"
    if b"\0" in relayed:
        return "0 byte inside the relayed report", False, "x"
    L = relayed[:1]
    if L not in (b"K", b"Z", b"D"):
        return "relayed report starts with %r, not K/Z/D" % L, False, "x"
    if status[0] == "kill":
        return (None if L == b"Z" else "qmail-remote killed by signal %d relayed as %r, must be Z" % (status[1], L)), False, "crash"
    if status[1] != 0:
        return ("exit status %d relayed as K" % status[1] if L == b"K" else None), True, "exit_nonzero"
    if not output:
        return ("empty output relayed as K" if L == b"K" else None), True, "empty"
    recs = output.split(b"\0")
    tail = recs[-1] != b""
    if not tail:
        recs = recs[:-1]
    lets = [r[:1] for r in recs]
    if len(recs) == 2 and not tail and lets[0] in (b"r", b"h", b"s") and lets[1] in (b"K", b"Z", b"D"):
        want = {b"s": b"Z", b"h": b"D"}.get(lets[0], lets[1])
        return (None if L == want else "output %r+%r relayed as %r, must be %r" % (lets[0], lets[1], L, want)), False, "conforming"
    if len(recs) == 1 and not tail and lets[0] in (b"Z", b"D"):
        return (None if L == lets[0] else "lone message report %r relayed as %r" % (lets[0], L)), False, "conforming"
    if L == b"K":
        if output[:1] in (b"s", b"h"):
            return "output starts with the refusal %r but K was relayed" % output[:1], False, "odd"
        good = False
        for l in lets:
            if l == b"K":
                good = True
                break
            if l in (b"Z", b"D"):
                break
        if not good:
            return "K relayed although no K record precedes the first Z/D record", False, "odd"
    return None, True, "odd"


# ------------------------------------------------------------------ end to end: real qmail-remote over loopback TCP

CODES = [200, 220, 250, 251, 299, 300, 354, 399, 400, 421, 450, 451, 499, 500, 550, 554, 599]
OKCODE = {"greet": [220], "helo": [250], "mail": [250, 200, 299], "rcpt": [250, 251, 200], "data": [354, 300, 399], "dot": [250, 200, 299]}

text_st = st.one_of(st.binary(max_size=30), st.binary(max_size=30),
                    st.integers(100, 400).map(lambda k: b"t" * k), st.sampled_from([4999, 5000, 5001, 5600]).map(lambda k: b"h" * k)
                    ).map(lambda b: b.replace(b"\n", b" ").replace(b"Possible duplicate", b"possible duplicate"))


def smtp_scenarios_n(n):
    return smtp_scenarios(n)


@st.composite
def smtp_scenarios(draw, n_fixed=None):
    n = n_fixed if n_fixed is not None else draw(st.integers(1, 3))
    phases = []
    for p, t in enumerate(phase_types(n)):
        r = draw(st.integers(0, 23))
        if r < 15:
            code = draw(st.sampled_from(OKCODE[t]))
        elif r < 19:
            code = draw(st.sampled_from(CODES))
        elif r == 19:
            code = draw(st.integers(100, 999))
        else:
            # a stall costs timeoutremote (3 s) of real time: keep it rare
            kinds = (["close", "close", "rst", "close_partial"] + (["stall"] if p > 0 and draw(st.integers(0, 2)) == 0 else [])
                     + (["close_unread"] if t == "dot" else []))
            k = draw(st.sampled_from(kinds))
            ph = {"k": "close" if k in ("close_partial", "rst") else k, "rst": k == "rst", "sent": 0}
            if k == "close_partial":
                code = draw(st.sampled_from(CODES))
                full = reply_bytes(code, [draw(text_st), draw(text_st)][:draw(st.integers(1, 2))], b"\r\n")
                ph["partial"] = vlib.jsonable(full)
                ph["sent"] = min(draw(st.integers(1, 40)), len(full) - 1)      # never the complete reply
            phases.append(ph)
            break
        nl = draw(st.sampled_from([1, 1, 2, 3]))
        ph = {"k": "reply", "code": code, "lines": [vlib.jsonable(draw(text_st)) for _ in range(nl)],
              "eol": draw(st.sampled_from(["\r\n", "\r\n", "\r\n", "\n"])),
              "chunks": draw(st.lists(st.integers(1, 60), max_size=4)), "nosep": draw(st.integers(0, 9)) == 0}
        if draw(st.integers(0, 11)) == 0:
            # 1-3 bytes below '0' (blank, TAB, empty line, NUL, punctuation) in front of an otherwise well-formed one-line reply: what the
            # client reads as the "code" does not begin with a digit (added after seeded change C09-D)
            ph["lead"] = vlib.jsonable(draw(st.sampled_from([b" ", b"\t", b"\r\n", b"\n", b"\0", b"-", b"+", b"/", b"!", b"  ", b"\r\n ", b" \t "])))
            ph["lines"] = ph["lines"][:1]
        phases.append(ph)
    body = draw(st.sampled_from([b"", b"x\n", b"Subject: t\n\nhello\n.\n..x\n.\n", b"a" * 1020 + b"\n.b\n", (b"." + b"m" * 59 + b"\n") * 40]))
    return {"kind": "tcp", "n": n, "sender": vlib.jsonable(draw(st.sampled_from([b"sender@src.example", b"", b"a.b-c+d=e@h.src.example"]))),
            "body": vlib.jsonable(body), "phases": phases}


def reply_bytes(code, texts, eol, nosep=False):
    out = b""
    for i, t in enumerate(texts):
        last = i == len(texts) - 1
        out += b"%03d" % code
        if not last:
            out += b"-" + t
        elif not (nosep and not t):
            out += b" " + t
        out += eol
    return out


class Server:
    """Scripted SMTP server for one connection (runs in a thread)."""

    def __init__(self, lsock):
        self.lsock = lsock

    def run(self, sc, res):
        res["cmds"] = []
        res["err"] = None
        conn = None
        try:
            self.lsock.settimeout(0.25)
            t_end = time.time() + 20
            while conn is None:
                if res.get("stop") or time.time() > t_end:
                    return
                try:
                    conn, _ = self.lsock.accept()
                except socket.timeout:
                    continue
            res["accepted"] = True
            conn.settimeout(20)
            conn.setsockopt(socket.IPPROTO_TCP, socket.TCP_NODELAY, 1)
            rx = b""

            def read_until(term, prefix=b""):
                nonlocal rx
                while True:
                    k = (prefix + rx).find(term)
                    if k >= 0:
                        k = k + len(term) - len(prefix)
                        out, rx = rx[:k], rx[k:]
                        return out
                    d = conn.recv(65536)
                    if not d:
                        return None
                    rx += d
            n = sc["n"]
            types = phase_types(n)
            for p, t in enumerate(types):
                if p >= 1:
                    ph0 = sc["phases"][p] if p < len(sc["phases"]) else None
                    if t == "dot":
                        if ph0 and ph0["k"] == "close_unread":
                            break           # vanish without reading the message
                        data = read_until(b"\r\n.\r\n", prefix=b"\r\n")
                        if data is None:
                            return
                        res["cmds"].append(("payload", data))
                    else:
                        line = read_until(b"\n")
                        if line is None:
                            return
                        line = line.rstrip(b"\r\n")
                        res["cmds"].append(line)
                        if line.upper() == b"QUIT":
                            return
                if p >= len(sc["phases"]):
                    break
                ph = sc["phases"][p]
                if ph["k"] == "reply":
                    data = reply_bytes(ph["code"], [vlib.unjson(x) for x in ph["lines"]], ph["eol"].encode(), ph.get("nosep"))
                    if ph.get("lead"):
                        data = vlib.unjson(ph["lead"]) + data
                    if ph.get("extra"):
                        data += vlib.unjson(ph["extra"])      # further reply lines pushed in the same segment (nobody asked for them yet)
                    pos = 0
                    for c in ph.get("chunks", []):
                        if pos >= len(data):
                            break
                        conn.sendall(data[pos:pos + c])
                        pos += c
                        time.sleep(0.0005)
                    conn.sendall(data[pos:])
                    continue
                if ph["k"] == "stall":
                    # say nothing until the client gives up (timeoutremote) and closes
                    try:
                        while conn.recv(65536):
                            pass
                    except OSError:
                        pass
                    return
                if ph.get("partial"):
                    conn.sendall(vlib.unjson(ph["partial"])[:ph["sent"]])
                    time.sleep(0.002)
                if ph.get("rst"):
                    conn.setsockopt(socket.SOL_SOCKET, socket.SO_LINGER, struct.pack("ii", 1, 0))
                break
            else:
                # conversation complete: wait for QUIT / EOF so that no RST races with the final reply
                line = read_until(b"\n")
                if line is not None:
                    res["cmds"].append(line.rstrip(b"\r\n"))
        except (OSError, socket.timeout) as e:
            res["err"] = repr(e)
        finally:
            if conn is not None:
                try:
                    conn.close()
                except OSError:
                    pass


class RemoteRunner:
    def __init__(self, tree, wid):
        self.tree = tree
        self.h = sandbox.Home(tree, os.path.join(vlib.scratch_root(), "c09-tcp-%s" % wid))
        self.h.control("me", HELO + b"\n")
        self.lsock = None
        self.listen()

    def listen(self):
        """(Re)open the listening socket; a fresh one after a server thread got stuck, so that it cannot steal a later connection."""
        if self.lsock is not None:
            try:
                self.lsock.close()
            except OSError:
                pass
        self.lsock = socket.socket(socket.AF_INET, socket.SOCK_STREAM)
        self.lsock.setsockopt(socket.SOL_SOCKET, socket.SO_REUSEADDR, 1)
        self.lsock.bind(("127.0.0.1", 0))
        self.lsock.listen(8)
        self.port = self.lsock.getsockname()[1]
        self.h.control("smtproutes", ":127.0.0.1:%d\n" % self.port)
        self.server = Server(self.lsock)

    def execute(self, sc):
        h = self.h
        stall = any(ph["k"] == "stall" for ph in sc["phases"])
        # generous even on a loaded machine: the scripted server answers within milliseconds; only a scripted stall waits this long
        h.control("timeoutremote", "3\n" if stall else "20\n")
        with open(os.path.join(h.queue, "lock", "tcpto"), "wb") as f:
            f.write(b"\0" * 1024)
        res = {}
        th = threading.Thread(target=self.server.run, args=(sc, res), daemon=True)
        th.start()
        argv = [self.tree.path("qmail-remote"), "dst.example", vlib.unjson(sc["sender"]).decode("latin-1")] + [r.decode() for r in RECIPS[:sc["n"]]]
        env = h.env(role="remote", uid=h.uids["r"], trace=False)
        rc, out, err = sandbox.run_proc(argv, env, stdin=vlib.unjson(sc["body"]), timeout=30)
        res["stop"] = True
        th.join(25)
        if th.is_alive():
            self.listen()
            return None, out, res
        return rc, out, res

    def run_scenario(self, sc, stats):
        rc, out, res = self.execute(sc)
        if rc is None or res.get("err"):
            stats.inconclusive += 1
            return None
        v, e = judge_remote(sc, rc, out, res["cmds"])
        if v:
            return "tcp: " + v
        recs, verdict, dup = e["obs"]
        last = e["last"]
        nt = any(ph["k"] != "reply" or ph.get("lead") or not (200 <= ph["code"] <= 399) for ph in sc["phases"][:last + 1])
        cl = ["tcp:verdict_" + verdict, "tcp:n%d" % sc["n"]]
        if dup:
            cl.append("tcp:possible_duplicate")
        lastph = sc["phases"][last] if last < len(sc["phases"]) else {"k": "close"}
        if lastph["k"] != "reply":
            cl.append("tcp:" + ("reset" if lastph.get("rst") else lastph["k"]))
        if any(ph["k"] == "reply" and len(ph["lines"]) > 1 for ph in sc["phases"][:last + 1]):
            cl.append("tcp:multiline_reply")
        if any(ph.get("lead") for ph in sc["phases"][:last + 1]):
            cl.append("tcp:reply_not_starting_with_digit")
        cl += ["tcp:rcpt_" + r for r in recs]
        if e["slack"]:
            stats.slack += 1
        stats.case(scenario=sc, nontrivial=nt, classes=cl)
        return None


# ------------------------------------------------------------------ end to end: a destination with several addresses

def dns_name(name):
    return b"".join(bytes([len(l)]) + l for l in name.strip(b".").split(b".")) + b"\0"


def dns_response(name, qtype, rdatas):
    """a well-formed DNS response: one question, len(rdatas) answers of that type (names as compression pointers to the question)"""
    out = struct.pack(">HHHHHH", 0x1234, 0x8180, 1, len(rdatas), 0, 0) + dns_name(name) + struct.pack(">HH", qtype, 1)
    for rd in rdatas:
        out += b"\xc0\x0c" + struct.pack(">HHIH", qtype, 1, 300, len(rd)) + rd
    return out


class MultiRunner:
    """qmail-remote routed (control/smtproutes) to a relay NAME that resolves to several loopback addresses, through the interposer's
    file-backed resolver; each address has its own scripted server or no listener at all (connection refused)."""
    NAME = b"mx.dest.test"

    def __init__(self, tree, wid):
        self.tree = tree
        self.h = sandbox.Home(tree, os.path.join(vlib.scratch_root(), "c09-multi-%s" % wid))
        self.h.control("me", HELO + b"\n")
        self.dns = os.path.join(self.h.dir, "dns")
        os.makedirs(self.dns, exist_ok=True)
        # loopback addresses of this worker only: the workers of one run are forked from one process and numbered 0..15 (a name's trailing digits),
        # so (parent pid * 16 + number) mod 200 is distinct within a run and collides between two simultaneous runs only by accident
        m = re.search(r"(\d+)$", str(wid))
        idx = int(m.group(1)) % 16 if m else 15
        fam = 0 if str(wid).isdigit() else 1
        self.ips = ["127.%d.%d.%d" % (1 + fam, 20 + (os.getppid() * 16 + idx) % 200, k) for k in (2, 3, 4)]
        self.port = None

    def bind_all(self, listen):
        """one port that is free on all addresses; listeners only where listen[i]"""
        for attempt in range(50):
            socks = []
            try:
                s0 = socket.socket(socket.AF_INET, socket.SOCK_STREAM)
                s0.bind((self.ips[0], 0))
                port = s0.getsockname()[1]
                s0.close()
                for ip, l in zip(self.ips, listen):
                    s = socket.socket(socket.AF_INET, socket.SOCK_STREAM)
                    s.setsockopt(socket.SOL_SOCKET, socket.SO_REUSEADDR, 1)
                    s.bind((ip, port))
                    if l:
                        s.listen(8)
                        socks.append(s)
                    else:
                        s.close()          # nobody listens here: connection refused
                        socks.append(None)
                return port, socks
            except OSError:
                for s in socks:
                    if s is not None:
                        s.close()
        raise vlib.HarnessError("no common free port on %r" % self.ips)

    def run_scenario(self, sc, stats):
        h = self.h
        hosts = sc["hosts"]
        n = len(hosts)
        port, socks = self.bind_all([hh["listen"] for hh in hosts])
        try:
            h.control("smtproutes", b":" + self.NAME + b":%d\n" % port)
            h.control("timeoutremote", "20\n")
            h.control("timeoutconnect", "5\n")
            with open(os.path.join(self.dns, "1.%s" % self.NAME.decode()), "wb") as f:
                f.write(dns_response(self.NAME, 1, [socket.inet_aton(ip) for ip in self.ips[:n]]))
            back = list(sc.get("backoff") or []) + [False] * n
            with open(os.path.join(h.queue, "lock", "tcpto"), "wb") as f:
                # qmail-tcpto(8): an address whose connection attempts timed out twice is assumed to fail for at least another hour
                tab = b""
                for ip, b_ in zip(self.ips[:n], back):
                    if b_:
                        tab += socket.inet_aton(ip) + bytes([2, 0, 0, 0]) + struct.pack("<I", int(time.time()) - 10) + b"\0" * 4
                f.write(tab + b"\0" * (1024 - len(tab)))
            results, threads = [], []
            for i, hh in enumerate(hosts):
                res = {}
                results.append(res)
                if socks[i] is not None:
                    th = threading.Thread(target=Server(socks[i]).run, args=(dict(sc, phases=hh["phases"]), res), daemon=True)
                    th.start()
                    threads.append(th)
            argv = [self.tree.path("qmail-remote"), "dst.example", vlib.unjson(sc["sender"]).decode("latin-1")] + [r.decode() for r in RECIPS[:sc["n"]]]
            env = h.env(role="remote", uid=h.uids["r"], trace=False, VSHIM_DNS=self.dns)
            rc, out, err = sandbox.run_proc(argv, env, stdin=vlib.unjson(sc["body"]), timeout=40)
            for res in results:
                res["stop"] = True
            for th in threads:
                th.join(25)
            if rc is None or any(th.is_alive() for th in threads) or any(r_.get("err") for r_ in results):
                stats.inconclusive += 1
                return None
        finally:
            for s in socks:
                if s is not None:
                    s.close()
        first = next((i for i, hh in enumerate(hosts) if hh["listen"] and not back[i]), None)
        cls = ["multi:hosts_%d" % n, "multi:first_listening_%s" % first] + (["multi:address_in_timeout_backoff"] if any(back[:n]) else []) + \
              (["multi:every_address_in_backoff"] if all(back[:n]) else [])
        # connections: exactly the first listening address is contacted - the conversation with the first server that accepts the
        # connection decides the delivery ("does not return"); addresses behind it are never tried
        for i, res in enumerate(results):
            if i != first and res.get("accepted"):
                return "multi: address #%d (%s) was contacted although address #%s had accepted the connection; commands it received: %r" % (
                    i, self.ips[i], first, res.get("cmds", [])[:6])
        if first is None:
            po = parse_remote_output(out)
            stats.case(scenario=sc, nontrivial=True, classes=cls + ["multi:nobody_listens"])
            if rc != 0:
                return "multi: qmail-remote exited %s" % rc
            if isinstance(po, str):
                return "multi: " + po
            if po[1] != "Z" or po[0] or po[2]:
                return "multi: no address accepts connections: expected one temporary failure report, got [%s]+%s%s" % (po[0], po[1], " (Possible duplicate!)" if po[2] else "")
            return None
        if not results[first].get("accepted"):
            return "multi: address #%d listens but was never contacted; output %r" % (first, out[:120])
        one = dict(sc, phases=hosts[first]["phases"])
        v, e = judge_remote(one, rc, out, results[first]["cmds"])
        if v:
            return "multi (address #%d decides): %s" % (first, v)
        last = e["last"]
        nt = first > 0 or any(ph["k"] != "reply" or ph.get("lead") or not (200 <= ph["code"] <= 399) for ph in one["phases"][:last + 1])
        if e["slack"]:
            stats.slack += 1
        stats.case(scenario=sc, nontrivial=nt, classes=cls + ["multi:verdict_" + e["obs"][1]] + (["multi:refused_then_next_address"] if first > 0 else []) +
                   (["multi:bad_greeting_with_more_addresses_behind"] if n > first + 1 and one["phases"][0]["k"] == "reply" and one["phases"][0]["code"] != 220 else []))
        return None


@st.composite
def multi_scenarios(draw):
    base = draw(smtp_scenarios())
    n = draw(st.integers(2, 3))
    hosts = [{"listen": draw(st.integers(0, 2)) != 0, "phases": base["phases"] if i == 0 else draw(smtp_scenarios(base["n"]))["phases"]} for i in range(n)]
    if draw(st.integers(0, 2)) == 0:
        # the first listening server greets badly and pushes more reply lines in the same segment
        for hh in hosts:
            if hh["listen"]:
                code = draw(st.sampled_from([421, 451, 554, 500]))
                hh["phases"] = [{"k": "reply", "code": code, "lines": [{"b": "busy"}], "eol": "\r\n", "chunks": [], "nosep": False,
                                 "extra": vlib.jsonable(b"220 second.greeting ESMTP\r\n250 hello\r\n250 sender ok\r\n")}] + hh["phases"][1:]
                break
    for hh in hosts:
        # a server that resets the connection the instant it accepted it is indistinguishable, for the client, from a failed connection
        # attempt (the reset can overtake the end of connect()): whether that address "accepted" is timing - outside the domain, by construction
        if hh["phases"] and hh["phases"][0]["k"] != "reply" and hh["phases"][0].get("rst"):
            hh["phases"] = [dict(hh["phases"][0], rst=False)] + hh["phases"][1:]
    sc = {"kind": "tcp2", "n": base["n"], "sender": base["sender"], "body": base["body"], "hosts": hosts}
    if draw(st.integers(0, 3)) == 0:
        sc["backoff"] = [draw(st.integers(0, 2)) != 0 for _ in hosts]       # addresses recorded in queue/lock/tcpto with two recent time-outs
    return sc


def multi_fixed():
    def rep(code, lines=1, **kw):
        return dict({"k": "reply", "code": code, "lines": [{"b": "t%d" % i} for i in range(lines)], "eol": "\r\n", "chunks": [], "nosep": False}, **kw)
    ok = [rep(220), rep(250), rep(250), rep(250), rep(354), rep(250)]
    norcpt = [rep(220), rep(250), rep(250), rep(450), rep(354), rep(250)]
    extra = vlib.jsonable(b"220 second.greeting ESMTP\r\n250 hello\r\n250 sender ok\r\n")
    hostile = b"Subject: x\n\nMAIL FROM:<ceo@corp.example>\nRCPT TO:<accounting@corp.example>\nDATA\nurgent payment\n.\nQUIT\n"
    base = {"kind": "tcp2", "n": 1, "sender": {"b": "sender@src.example"}, "body": vlib.jsonable(hostile)}
    L = lambda ph: {"listen": True, "phases": ph}
    R = {"listen": False, "phases": ok}
    out = [dict(base, hosts=[R, L(ok)]), dict(base, hosts=[R, R, L(ok)]), dict(base, hosts=[R, R]), dict(base, hosts=[L(ok), L(ok)]),
           dict(base, hosts=[R, L([rep(554)] + ok[1:]), L(ok)])]
    for code in (421, 451, 500, 554):
        out.append(dict(base, hosts=[L([rep(code)] + ok[1:]), L(ok)]))
        out.append(dict(base, hosts=[L([rep(code, extra=extra)] + ok[1:]), L(norcpt)]))
        out.append(dict(base, hosts=[R, L([rep(code, extra=extra)] + ok[1:]), L(norcpt)]))
    out.append(dict(base, hosts=[L(ok[:1] + [rep(450)] + ok[2:]), L(ok)]))
    # time-out backoff (queue/lock/tcpto): an address in backoff is not tried; when every address is in backoff nothing is contacted and the
    # failure is temporary ("connect trouble")
    out += [dict(base, hosts=[L(ok)], backoff=[True]), dict(base, hosts=[L(ok), L(ok)], backoff=[True, True]), dict(base, hosts=[L(ok), L(ok), L(ok)], backoff=[True, True, True]),
            dict(base, hosts=[L(ok), L(ok)], backoff=[True, False]), dict(base, hosts=[R, L(ok), L(ok)], backoff=[False, True, False]),
            dict(base, hosts=[R, L(ok)], backoff=[False, True])]
    out.append(dict(base, hosts=[L([{"k": "close", "rst": False, "sent": 0}]), L(ok)]))
    return out


# ------------------------------------------------------------------ end to end: real qmail-rspawn + stand-in

rtext = st.one_of(st.binary(max_size=40), st.binary(max_size=40), st.just(b"x" * 10000)).map(lambda b: b.replace(b"\0", b"\n"))


@st.composite
def rspawn_scenarios(draw):
    fam = draw(st.integers(0, 5))
    if fam <= 2:
        out = draw(st.sampled_from([b"r", b"h", b"s"])) + draw(rtext) + b"\0" + draw(st.sampled_from([b"K", b"Z", b"D"])) + draw(rtext) + b"\0"
        mut = draw(st.integers(0, 7)) if fam == 2 else 0
        if mut == 1:
            out = out[:-1]
        elif mut == 2:
            out = out.replace(b"\0", b" ", 1)
        elif mut == 3:
            out = draw(st.binary(min_size=1, max_size=1)) + out[1:]
        elif mut == 4:
            out = b""
        elif mut == 5:
            out = out[:draw(st.integers(0, len(out)))]
        elif mut == 6:
            i = out.index(b"\0")
            out = out[:i + 1] + draw(st.sampled_from([b"k", b"z", b"x", b"\0", b"r"])) + out[i + 2:]
        elif mut == 7:
            out = draw(st.sampled_from([b"Z", b"D", b"K"])) + draw(rtext) + b"\0"
    elif fam == 3:
        out = b"".join(draw(st.lists(st.sampled_from([b"r", b"h", b"s", b"K", b"Z", b"D", b"x", b"\0", b"\n", b"ab"]), max_size=12)))
    else:
        out = b"\0".join(draw(st.lists(st.sampled_from([b"r", b"hno", b"slater", b"Kok", b"Ztemp", b"Dperm", b"x", b""]), max_size=5)))
        if draw(st.booleans()):
            out += b"\0"
    s = draw(st.integers(0, 9))
    if s < 6:
        status = ["exit", 0]
    elif s < 8:
        status = ["exit", draw(st.one_of(st.sampled_from([1, 100, 111, 255]), st.integers(1, 255)))]
    else:
        status = ["kill", draw(st.sampled_from([1, 2, 3, 6, 9, 11, 13, 14, 15]))]
    sc = {"kind": "rspawn", "out": vlib.jsonable(out), "status": status, "delnums": draw(st.lists(st.sampled_from([0, 1, 5, 19]), min_size=1, max_size=3, unique=True))}
    if draw(st.integers(0, 5)) == 0:
        # qmail-remote closes all its descriptors and dies only afterwards: end-of-file on the report pipe must not be taken for the verdict
        # before the exit status is known (added after seeded change C09-C)
        sc["linger"] = draw(st.sampled_from([40, 120]))
    return sc


class RspawnRunner:
    def __init__(self, tree, wid):
        self.tree = tree
        self.h = sandbox.Home(tree, os.path.join(vlib.scratch_root(), "c09-rs-%s" % wid))
        self.rec = os.path.join(self.h.dir, "rec")
        self.msgid = 4242
        p = self.h.qpath("mess", self.msgid)
        open(p, "wb").write(b"Subject: test\n\nbody\n")
        os.chown(p, self.h.uids["q"], self.h.gids["q"])

    def run_scenario(self, sc, stats):
        import shutil
        h = self.h
        shutil.rmtree(self.rec, ignore_errors=True)
        out = vlib.unjson(sc["out"])
        status = tuple(sc["status"])
        se = sandbox.standin_env(self.rec, read="0", exit=status[1] if status[0] == "exit" else 0,
                                 kill=status[1] if status[0] == "kill" else None, out=out, linger_ms=sc.get("linger"))
        env = h.env(role="rspawn", uid=h.uids["r"], trace=False, QMAILREMOTE=sandbox.STANDIN, **se)
        cmd = b""
        for d in sc["delnums"]:
            cmd += bytes([d]) + b"%d/%d\0" % (self.msgid % h.split, self.msgid) + b"sender@src.example\0" + b"rcpt%d@dst.example\0" % d
        if sc.get("reuse"):
            return self.run_reuse(sc, stats, env)
        rc, o, err = sandbox.run_proc([self.tree.path("qmail-rspawn")], env, stdin=cmd, timeout=30)
        if rc is None:
            stats.inconclusive += 1
            return None
        if rc != 0 or len(o) < 1:
            raise vlib.HarnessError("qmail-rspawn did not run in the sandbox: rc=%s out=%r err=%r" % (rc, o[:100], err[:300]))
        pos, seen = 1, {}
        while pos < len(o):
            d = o[pos]
            end = o.find(b"\0", pos + 1)
            if end < 0:
                return "rspawn: output ends inside a report: %r" % o[pos:pos + 80]
            seen.setdefault(d, []).append(o[pos + 1:end])
            pos = end + 1
        recs = sandbox.standin_records(self.rec)
        if len(recs) != len(sc["delnums"]):
            return "rspawn: %d deliveries requested, qmail-remote invoked %d times" % (len(sc["delnums"]), len(recs))
        for r in recs:
            a = r.get("argv", [])
            if len(a) != 4 or a[1] != b"dst.example" or a[2] != b"sender@src.example" or not a[3].startswith(b"rcpt"):
                return "rspawn: qmail-remote invoked with %r (documented: host sender recip)" % a
        cls = None
        for d in sc["delnums"]:
            if len(seen.get(d, [])) != 1:
                return "rspawn: delivery %d got %d reports (exactly one expected): %r" % (d, len(seen.get(d, [])), o[:200])
            v, slack, cls = judge_report(status, out, seen[d][0])
            if v:
                return "rspawn: " + v + " | qmail-remote output %r status %r relayed %r" % (out[:120], status, seen[d][0][:120])
            if slack:
                stats.slack += 1
        if set(seen) - set(sc["delnums"]):
            return "rspawn: report for a delivery that was never requested: %r" % sorted(set(seen) - set(sc["delnums"]))
        nt = not (status == ("exit", 0) and cls == "conforming" and out[:1] == b"r" and b"\0K" in out)
        stats.case(scenario=sc, nontrivial=nt, classes=["rspawn:" + cls, "rspawn:relayed_" + chr(seen[sc["delnums"][0]][0][0])] +
                   (["rspawn:descriptors_closed_before_death"] if sc.get("linger") else []))
        return None


# ------------------------------------------------------------------ workers

def confirm(runfn, stats):
    """A violation found by Hypothesis must reproduce 3/3, otherwise it is the harness that is flaky."""
    keep = []
    for msg, sc in stats.violations:
        s2 = vlib.Stats()
        ok = all(runfn(sc, s2) for _ in range(3))
        if ok:
            keep.append((msg, sc))
        else:
            stats.inconclusive += 1
            stats.cls("unreproducible")
    stats.violations = keep


def _run_reuse(self, sc, stats, env):
    """one spawner, one delivery slot used again and again: every delivery is judged by its own program's output and status, whatever the
    slot held before (added after seeded change C09-M). sc["reuse"] = list of outputs, delivered one after the other in slot delnums[0]."""
    outs = [vlib.unjson(x) for x in sc["reuse"]]
    env = dict(env)
    env.pop("SI_OUT_HEX", None)
    env["SI_OUT_SEQ_HEX"] = ",".join(o.hex() for o in outs)
    d = sc["delnums"][0]
    status = tuple(sc["status"])
    s = sandbox.Session([self.tree.path("qmail-rspawn")], env)
    try:
        got = s.read_until(lambda b: len(b) or None)
        if not got:
            stats.inconclusive += 1
            return None
        buf = got[1:]
        for i, out in enumerate(outs):
            s.send(bytes([d]) + b"%d/%d\0" % (self.msgid % self.h.split, self.msgid) + b"sender@src.example\0" + b"rcpt%d@dst.example\0" % i)
            while b"\0" not in buf[1:]:          # a report = delivery-number byte (may be 0) + text + NUL
                more = s.read_until(lambda b: len(b) or None)
                if more is None:
                    stats.inconclusive += 1
                    return None
                if not more:
                    return "rspawn: the spawner closed its report channel without reporting delivery #%d in the reused slot %d" % (i + 1, d)
                buf += more
            end = buf.index(b"\0", 1)
            rep, buf = buf[:end], buf[end + 1:]
            if rep[:1] != bytes([d]):
                return "rspawn: delivery %d in slot %d answered with a report for slot %r" % (i, d, rep[:1])
            v, slack, cls = judge_report(status, out, rep[1:])
            if v:
                return ("rspawn: delivery #%d in the reused slot %d: " % (i + 1, d) + v + " | qmail-remote output %r status %r relayed %r; earlier outputs in this slot %r"
                        % (out[:120], status, rep[1:121], [o[:40] for o in outs[:i]]))
            if slack:
                stats.slack += 1
        stats.case(scenario=sc, nontrivial=len({o[:3] for o in outs}) > 1, classes=["rspawn:slot_reused"])
        return None
    finally:
        s.kill()


RspawnRunner.run_reuse = _run_reuse


def e2e_worker(job):
    tree, wid, seed, n_tcp, n_rs, fixed = job
    stats = vlib.Stats()
    rr = RemoteRunner(tree, wid)
    rs = RspawnRunner(tree, wid)
    rm = MultiRunner(tree, wid)

    def dispatch(sc, st_):
        return {"tcp": rr, "tcp2": rm}.get(sc.get("kind"), rs).run_scenario(sc, st_)
    for sc in fixed:
        v = dispatch(sc, stats)
        if v:
            stats.violations.append((v, sc))
    if n_tcp and not stats.violations:
        vlib.hyp_search(smtp_scenarios(), rr.run_scenario, n_tcp, seed, stats)
    if n_rs and not stats.violations:
        vlib.hyp_search(rspawn_scenarios(), rs.run_scenario, n_rs, seed ^ 0x5a5a, stats)
    if n_tcp and not stats.violations:
        vlib.hyp_search(multi_scenarios(), rm.run_scenario, max(4, n_tcp // 3), seed ^ 0x3c3c, stats)
    confirm(dispatch, stats)
    rr.lsock.close()
    return stats


def fixed_scenarios():
    """Deterministic end-to-end scenarios on the documented boundaries."""
    def rep(code, lines=1):
        return {"k": "reply", "code": code, "lines": [{"b": "t%d" % i} for i in range(lines)], "eol": "\r\n", "chunks": [], "nosep": False}
    out = []
    base = dict(kind="tcp", n=2, sender={"b": "sender@src.example"}, body={"b": "Subject: t\n\nhello\n.\n..x\n"})
    ok = [rep(220), rep(250), rep(250), rep(250), rep(251, 2), rep(354), rep(250, 3)]
    out.append(dict(base, phases=ok))
    for p, codes in ((0, [221, 421, 554]), (1, [220, 450, 550]), (2, [400, 499, 500, 599]), (3, [399 + 1, 500]), (5, [400, 500]), (6, [400, 499, 500, 599])):
        for c in codes:
            out.append(dict(base, phases=ok[:p] + [rep(c)] + ok[p + 1:]))
    out.append(dict(base, phases=ok[:3] + [rep(550), rep(450)] + ok[5:]))
    for p in range(7):
        for lead in (b" ", b"\r\n", b"\0"):
            out.append(dict(base, phases=ok[:p] + [dict(rep(ok[p]["code"]), lead=vlib.jsonable(lead))] + ok[p + 1:]))
    for p in range(7):
        out.append(dict(base, phases=ok[:p] + [{"k": "close", "rst": False, "sent": 0}]))
    out.append(dict(base, phases=ok[:6] + [{"k": "close", "rst": True, "sent": 0}]))
    out.append(dict(base, phases=ok[:6] + [{"k": "stall", "rst": False, "sent": 0}]))
    for o, s in ((b"r\0Kok\0", ["exit", 0]), (b"r\0Ztemp\0", ["exit", 0]), (b"r\0Dperm\0", ["exit", 0]), (b"sno\0Kok\0", ["exit", 0]), (b"hno\0Kok\0", ["exit", 0]),
                 (b"r\0Kok\0", ["exit", 111]), (b"r\0Kok\0", ["exit", 1]), (b"r\0Kok\0", ["kill", 11]), (b"", ["exit", 0]), (b"r\0Kok", ["exit", 0]),
                 (b"Zconn\0", ["exit", 0]), (b"K" + b"x" * 10000 + b"\0", ["exit", 0])):
        out.append({"kind": "rspawn", "out": vlib.jsonable(o), "status": s, "delnums": [0, 5]})
    for s in (["kill", 11], ["exit", 111], ["exit", 100], ["exit", 1], ["exit", 0]):
        out.append({"kind": "rspawn", "out": vlib.jsonable(b"r\0Kaccepted\0"), "status": s, "delnums": [3], "linger": 150})
    # one delivery slot used for deliveries that end differently, in every order (added after seeded change C09-M)
    ends = [b"r\0Kaccepted by the peer\0", b"hrefused\0Drefused by the peer\0", b"stemp\0Ztemporarily refused\0", b"r\0Zgreylisted\0", b"Zconnection died\0",
            b"r\0K" + b"long acceptance text " * 60 + b"\0", b""]
    for i in range(len(ends)):
        for j in range(len(ends)):
            if i != j:
                out.append({"kind": "rspawn", "out": vlib.jsonable(b""), "status": ["exit", 0], "delnums": [(3 * i + j) % 20], "reuse": [vlib.jsonable(ends[i]), vlib.jsonable(ends[j]), vlib.jsonable(ends[i])]})
    out += multi_fixed()
    return out


# ------------------------------------------------------------------ run / replay

MUST_HAVE = ["smtp-enum:verdict_K", "smtp-enum:verdict_Z", "smtp-enum:verdict_D", "smtp-enum:disconnect", "smtp-enum:disconnect_after_final_dot",
             "smtp-enum:write_failure", "smtp-enum:write_failure_at_QUIT", "smtp-enum:multiline_reply", "smtp-enum:rcpt_s", "smtp-enum:rcpt_h",
             "smtp-enum:greeting_not_220", "smtp-enum:helo_not_250", "smtp-enum:all_rcpt_rejected", "smtp-enum:disconnect_inside_reply",
             "smtp-rand:huge_text", "report-enum:report_grammar_conforming", "report-enum:report_mutated_output", "report-enum:report_bad_status"]


def run(ctx):
    only = getattr(ctx, "only", None)
    sandbox.ensure_shim()
    tree = vlib.Tree()
    binp = build(tree)
    nsh = vlib.NCPU
    viols = []          # (case dict, msg)
    # 0. regression corpus (in-process case lines and end-to-end scenarios)
    reg = os.path.join(vlib.VERIF, "corpus", PID, "regress")
    fixed = fixed_scenarios()
    nreg = 0
    if os.path.isdir(reg):
        for f in sorted(os.listdir(reg)):
            p = os.path.join(reg, f)
            nreg += 1
            if f.endswith(".json"):
                sc = json.load(open(p))
                fixed.append(sc.get("scenario", sc))
            else:
                lines = [l.strip().split(" msg=")[0] for l in open(p) if l.strip() and not l.startswith("#")]
                ctx.stats.evaluations += len(lines)
                if replay_line(binp, "\n".join(lines)) is None:      # the whole file in one process
                    continue
                for line in lines:
                    m = replay_line(binp, line)
                    if m:
                        viols.append((parse_case(line), "regress:%s: %s" % (f, m)))
    ctx.stats.cls("regress_files", nreg)
    # 1. in-process
    if not only or "inproc" in only:
        t0 = time.time()
        seed = ctx.seed
        cmds = [[binp, "--enum-smtp", "1", "2", str(ctx.n(10, 80)), str(seed), str(i), str(nsh)] for i in range(nsh)]
        cmds += [[binp, "--enum-smtp", "3", "3", str(ctx.n(2, 20)), str(seed), str(i), str(nsh)] for i in range(nsh)]
        res = inproc.run_shards(cmds)
        structures = 0
        for rc, out in res[:nsh]:
            m = re.search(r"^STRUCTURES (\d+)", out, re.M)
            if m:
                structures = max(structures, int(m.group(1)))
        s3 = 0
        for rc, out in res[nsh:]:
            m = re.search(r"^STRUCTURES (\d+)", out, re.M)
            if m:
                s3 = max(s3, int(m.group(1)))
        v = inproc.merge_c_stats(ctx, res, "smtp-enum")
        cmds = [[binp, "--rand-smtp", str(vlib.subseed(seed, PID, "rs", i)), str(ctx.n(160000, 2500000))] for i in range(nsh)]
        v += inproc.merge_c_stats(ctx, inproc.run_shards(cmds), "smtp-rand")
        cmds = [[binp, "--enum-report", "4", str(ctx.n(6, 40)), str(seed), str(i), str(nsh)] for i in range(nsh)]
        v += inproc.merge_c_stats(ctx, inproc.run_shards(cmds), "report-enum")
        cmds = [[binp, "--rand-report", str(vlib.subseed(seed, PID, "rr", i)), str(ctx.n(80000, 1500000))] for i in range(nsh)]
        v += inproc.merge_c_stats(ctx, inproc.run_shards(cmds), "report-rand")
        ctx.notes["inproc_seconds"] = round(time.time() - t0, 1)
        ctx.notes["exhaustive_part"] = ("smtp(): all %d class/disconnect structures for n=1,2 and all %d for n=3 (each instantiated %d / %d times); "
                                        "report(): all letter structures up to 4 records x final NUL present/absent, every exit status and signal for <= 3 records"
                                        % (structures, s3, ctx.n(10, 80), ctx.n(2, 20)))
        ctx.exhaustive = True
        best = {}
        for line in v:
            c = parse_case(line)
            if c is None:
                viols.append((None, line))
                continue
            key = signature(c["msg"])
            if key not in best or len(line) < best[key][0]:
                best[key] = (len(line), c)
        for key in sorted(best)[:4]:
            c = shrink_case(binp, best[key][1])
            msg = replay_line(binp, case_line(c)) or c["msg"]
            viols.append((c, msg))
        missing = [k for k in MUST_HAVE if not ctx.stats.classes.get(k)]
        if missing and not v:
            raise vlib.HarnessError("GENERATOR-STARVED: classes never produced: %s" % missing)
    for c, msg in viols:
        if c is None:
            ctx.stats.violations.append((msg, None))
        else:
            ctx.stats.violations.append(("%s: %s | %s" % (c["kind"], msg, describe(c)), save_case(c, msg)))
    # 2./3. end to end
    if not only or "e2e" in only:
        t0 = time.time()
        n_tcp, n_rs = ctx.n(150, 1800), ctx.n(60, 700)
        jobs = [(tree, i, vlib.subseed(ctx.seed, PID, "e2e", i), n_tcp, n_rs, fixed[i::nsh]) for i in range(nsh)]
        st_ = vlib.run_workers(e2e_worker, jobs)
        ctx.stats.merge(st_)
        ctx.notes["e2e_seconds"] = round(time.time() - t0, 1)


def replay(ctx, path):
    sandbox.ensure_shim()
    tree = vlib.Tree()
    if path.endswith(".json"):
        sc = json.load(open(path))
        sc = sc.get("scenario", sc)
        tree.make("qmail-remote", "qmail-rspawn")
        runner = {"tcp": RemoteRunner, "tcp2": MultiRunner}.get(sc.get("kind"), RspawnRunner)(tree, "replay")
        v = runner.run_scenario(sc, ctx.stats)
        return [v] if v else []
    binp = build(tree)
    out = []
    for line in open(path):
        line = line.strip()
        if not line or line.startswith("#"):
            continue
        m = replay_line(binp, line.split(" msg=")[0])
        if m:
            out.append(m)
    return out
